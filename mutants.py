#!/usr/bin/env python3
"""Sensitivity harness: applies small semantic mutations to /repo (one at a time, working tree only, always
restored), checks that the mutant still builds and passes the pinned suite, runs the quick tier of the property the
mutant should break and expects exit 1.

  ./mutants.py                 run all
  ./mutants.py ID [ID...]      run selected mutants
  ./mutants.py --list
Results are appended to mutants_results.json (committed as documentation; not used by any check)."""
import json, os, subprocess, sys, time

REPO = "/repo"
ROOT = os.path.dirname(os.path.abspath(__file__))

M = []
def mut(id, prop, file, old, new, note="", only=None, suite=True):
    M.append(dict(id=id, prop=prop, file=file, old=old, new=new, note=note, only=only, suite=suite))

# ---- reverts of the fixes (the defect must be re-detected) ----
mut("rev-d8-server-wedge", "C11", "server.go", "\t\t\tcase <-handler.ctx.Done():\n", "\t\t\tcase <-make(chan struct{}):\n", "forwarding select no longer observes the stream context")
mut("rev-d9-client-wedge", "C11", "internal/client/multiplexer.go", "\tcase h.ch <- rpc:\n\tcase <-h.gone:\n", "\tcase h.ch <- rpc:\n\tcase <-make(chan struct{}):\n", "dispatch ignores the gone signal")
mut("rev-d1-eof-canceled", "C02", "internal/client/stream.go", "\t\tif done, err := cs.readErrorIfDone(); done {\n\t\t\treturn err\n\t\t}\n\t\treturn toStatusError(cs.ctx.Err())", "\t\treturn toStatusError(cs.ctx.Err())", "ctx branch does not re-check the terminal state")
mut("rev-d3-reset-eof", "C03", "internal/client/stream.go", "\tif rpc.GetReset_() != nil {\n\t\t// The peer has torn the stream down; that is never a clean end.\n\t\treturn true, status.Error(codes.Unavailable, \"stream reset by peer\")\n\t}\n", "", "reset read as trailer")
mut("rev-d4-reset-overtake", "C03", "server.go", "\tselect {\n\tcase h.writeChan <- reset:\n\t\treturn nil\n\tcase <-h.ctx.Done():\n\t\treturn context.Cause(h.ctx)\n\t}\n", "\treturn h.rw.Write(h.ctx, reset)\n", "reset written directly")
mut("rev-d4-reset-overtake-c06", "C06", "server.go", "\tselect {\n\tcase h.writeChan <- reset:\n\t\treturn nil\n\tcase <-h.ctx.Done():\n\t\treturn context.Cause(h.ctx)\n\t}\n", "\treturn h.rw.Write(h.ctx, reset)\n", "reset written directly (wire monitor)")
mut("rev-d2-ok-status", "C03", "internal/client/multiplexer.go", "if resp.Status != nil && resp.Status.Code != int32(codes.OK) {", "if resp.Status != nil && resp.Status.Code != int32(codes.OK)-1000 {", "explicit OK status is an error again", suite=True)
mut("rev-d5-timeout-wrap", "C08", "server.go", "\tif val > uint64(math.MaxInt64/int64(unit)) {\n", "\tif false && val > uint64(math.MaxInt64/int64(unit)) {\n", "no saturation")
mut("rev-d6-register-window", "C09", "internal/client/multiplexer.go", "\tif rm.rErr != nil {\n\t\treturn nil, rm.rErr\n\t}\n\n\tgone := make", "\tgone := make", "registration does not check the read error")
mut("rev-d7-unary-ctx", "C10", "server.go", "\tdefer unaryHandlerCtxCancel()\n\tdefer context.AfterFunc(ctx, unaryHandlerCtxCancel)()\n", "\t_ = unaryHandlerCtxCancel\n", "unary handler ctx not tied to the connection")
mut("rev-d7-worker-leak", "C10", "server.go", "\t\t\t\t\tselect {\n\t\t\t\t\tcase h.writeChan <- resp:\n\t\t\t\t\tcase <-ctx.Done():\n\t\t\t\t\t\t// the writer has gone; nobody is left to take the reply\n\t\t\t\t\t}\n", "\t\t\t\t\th.writeChan <- resp\n", "worker hand-off blocks forever")
mut("rev-d10-unary-badmd", "C12", "server.go", "\t\tlog.Warn().Err(err).Msg(\"Server: failed to get context from headers\")\n", "\t\tlog.Panic().Err(err).Msg(\"Server: failed to get context from headers\")\n", "panic on undecodable metadata")
mut("rev-d11-trailer-panic", "C13", "internal/client/stream.go", "\t\tlog.Error().Err(err).Msg(\"Trailer err\")\n\t\treturn nil\n", "\t\tlog.Panic().Err(err).Msg(\"Trailer err\")\n", "Trailer panics")
mut("rev-d11-header-hang", "C13", "internal/client/stream.go", "\t\t\t\trErr = status.Error(codes.Internal, \"malformed header metadata: \"+err.Error())\n\t\t\t\tonReady(rErr, nil)\n\t\t\t\treturn rErr\n", "\t\t\t\treturn err\n", "bad header metadata not recorded")
mut("rev-d12-noheader-stats", "C13", "internal/client/multiplexer.go", "internal.ToMetadata(resp.GetHeader().GetHeaders())", "internal.ToMetadata(resp.GetHeader().Headers)", "nil header dereference")
mut("rev-d13-open-leak", "C14", "client.go", "\t\tteardown()\n\t\treturn nil, err\n", "\t\treturn nil, err\n", "failed open not torn down")
mut("rev-d20-halfclose", "C11", "server.go", "\t\t} else if handler.halfClosed {", "\t\t} else if false && handler.halfClosed {", "envelopes after half-close queued again")
mut("rev-respchan-closed-ctx", "C07", "internal/client/multiplexer.go", "\t\t\t\t\tif err := ctx.Err(); err != nil {\n\t\t\t\t\t\treturn nil, err\n\t\t\t\t\t}\n\t\t\t\t\tif err := rm.readErrorIfDone(); err != nil {", "\t\t\t\t\tif err := rm.readErrorIfDone(); err != nil {", "closed response channel no longer yields the context's error")
mut("rev-drop-then-deliver", "C09", "internal/client/multiplexer.go", "\tselect {\n\tcase <-h.gone:\n\t\t// Once one Rpc", "\tselect {\n\tcase <-make(chan struct{}):\n\t\t// Once one Rpc", "read loop may deliver after having dropped again")
mut("rev-empty-return-route", "C17", "proxy.go", "\t\tif len(rpc.Header.ProxyNext) > 0 {", "\t\tif rpc.Header.ProxyNext != nil {", "empty non-nil return route indexed again")
mut("rev-send-fail-mutex", "C09", "internal/client/multiplexer.go", "func (rm *RpcMultiplexer) readErrorIfDone() error {\n\trm.rErrMutex.Lock()\n\tdefer rm.rErrMutex.Unlock()", "func (rm *RpcMultiplexer) readErrorIfDone() error {\n\trm.mutex.Lock()\n\tdefer rm.mutex.Unlock()", "read error queried under the registry mutex again")
mut("rev-trailer-after-deadline", "C06", "server.go", "\t\tif r.GetTrailer() != nil {\n\t\t\t// The trailer carries", "\t\tif false && r.GetTrailer() != nil {\n\t\t\t// The trailer carries", "trailer hand-off races with the done stream context again")
mut("rev-stats-end-eof", "C20", "internal/util.go", "\t\tif appErr != nil {\n\t\t\tend.Error = appErr", "\t\tif appErr != nil && appErr.Error() != \"EOF\" && !strings.HasSuffix(appErr.Error(), \": EOF\") {\n\t\t\tend.Error = appErr", "End.Error nil again for errors that are or wrap io.EOF")
mut("rev-teardown-order", "C13", "internal/client/stream.go", "\t\tteardown()\n\n\t\tif sendRst {", "\t\tif sendRst {", "teardown no longer unregisters first (and never unregisters)", suite=False)

# ---- classic semantic mutants from DESIGN §7 ----
mut("stale-id", "C01", "server.go", "\t\tId:      rpc.GetId(),\n\t\tHeader:  respHeader,", "\t\tId:      rpc.GetId() ^ 1,\n\t\tHeader:  respHeader,", "unary reply echoes a wrong id", suite=False)
mut("b64-std", "C04", "internal/util.go", "v = base64.URLEncoding.EncodeToString([]byte(v))", "v = base64.StdEncoding.EncodeToString([]byte(v))", "std alphabet on encode")
mut("no-lowercase", "C04", "internal/util.go", "\t\tk := strings.ToLower(h.Key)\n", "\t\tk := h.Key\n", "keys not lower-cased on decode")
mut("unary-hdr-order", "C04", "internal/server/transport_stream.go", "sts.headers = metadata.Join(sts.headers, md)", "sts.headers = metadata.Join(md, sts.headers)", "unary header sets joined in reverse")
mut("hdr-every-body", "C06", "internal/server/stream.go", "\tif !ss.protected.headersSent {\n\t\trpc.Header.Headers = internal.ToKeyValue(ss.protected.headers...)\n\t\tss.protected.headersSent = true\n", "\tif true {\n\t\trpc.Header.Headers = internal.ToKeyValue(ss.protected.headers...)\n\t\tss.protected.headersSent = true\n", "headers re-sent on every body", suite=False)
mut("trailer-code-dropped", "C03", "internal/server/stream.go", "\t\ttr.Status.Code = sp.GetCode()\n", "", "trailer status code dropped")
mut("details-dropped", "C03", "internal/server/stream.go", "\t\ttr.Status.Details = sp.GetDetails()\n", "", "details not copied")
mut("no-src-dst-swap", "C06", "server.go", "\t\tSource:      rpc.Header.Destination,\n\t\tDestination: rpc.Header.Source,\n\t}\n\tif len(rpc.Header.ProxyRecord) > 1 {\n\t\trespHeader", "\t\tSource:      rpc.Header.Source,\n\t\tDestination: rpc.Header.Destination,\n\t}\n\tif len(rpc.Header.ProxyRecord) > 1 {\n\t\trespHeader", "unary response does not swap source/destination", suite=False)
mut("timeout-unit-swap", "C08", "server.go", "\t\tcase 'm':\n\t\t\treturn time.Millisecond\n\t\tcase 'u':\n\t\t\treturn time.Microsecond", "\t\tcase 'm':\n\t\t\treturn time.Microsecond\n\t\tcase 'u':\n\t\t\treturn time.Millisecond", "m and u swapped", suite=False)
mut("client-floor-seconds", "C08", "client.go", "\t\tms := int64(timeout / time.Millisecond)\n", "\t\tms := int64(timeout/time.Second) * 1000\n", "client floors to seconds")
mut("unary-no-unregister", "C14", "internal/client/multiplexer.go", "\tdefer rm.unregisterHandler(streamId, gone)\n", "\t_ = gone\n", "unary call never unregisters")
mut("chain-off-by-one", "C20", "chained.go", "func getChainUnaryHandler(interceptors []grpc.UnaryServerInterceptor, curr int, info *grpc.UnaryServerInfo, finalHandler grpc.UnaryHandler) grpc.UnaryHandler {\n\tif curr == len(interceptors)-1 {", "func getChainUnaryHandler(interceptors []grpc.UnaryServerInterceptor, curr int, info *grpc.UnaryServerInfo, finalHandler grpc.UnaryHandler) grpc.UnaryHandler {\n\tif curr >= len(interceptors)-2 && len(interceptors) > 2 {\n\t\treturn finalHandler\n\t}\n\tif curr == len(interceptors)-1 {", "chains longer than two skip the last interceptor")
mut("stats-end-twice", "C20", "internal/util.go", "\t\tsh.HandleRPC(ctx, end)\n\t}\n}", "\t\tsh.HandleRPC(ctx, end)\n\t\tif appErr != nil {\n\t\t\tsh.HandleRPC(ctx, end)\n\t\t}\n\t}\n}", "End emitted twice on error")
mut("stream-no-cancel-on-reset", "C07", "server.go", "\t\tif resetStream {\n\t\t\thandler.cancel()\n", "\t\tif resetStream {\n", "reset does not cancel the handler", suite=False)
mut("no-rst-on-cancel", "C07", "internal/client/stream.go", "sendRst := trailer == nil && cs.ctx.Err() != nil", "sendRst := false && trailer == nil", "no reset sent on cancel", suite=False)
mut("resp-chan-dispatch-wrong", "C05", "internal/client/multiplexer.go", "\th, ok := rm.handlers[rpc.GetId()]\n", "\th, ok := rm.handlers[rpc.GetId()|1]\n", "even ids dispatched to the odd neighbour", suite=False)
mut("cancel-wait-skipped", "C10", "server.go", "\terr := h.serve(ctx)\n\th.cancelAndWaitForStreams()\n", "\terr := h.serve(ctx)\n", "Serve does not wait for streams", suite=False)


# ---- data races (C15) ----
mut("race-id-counter", "C15", "internal/client/multiplexer.go", "\tstreamId := atomic.AddUint64(&rm.streamCounter, 1)\n\n\trespChan := make(chan *goatorepo.Rpc, 1)\n\n\tgone, err := rm.registerHandler(streamId, respChan)\n\tif err != nil {\n\t\treturn nil, err\n\t}", "\trm.streamCounter++\n\tstreamId := rm.streamCounter + atomic.AddUint64(new(uint64), 0)\n\n\trespChan := make(chan *goatorepo.Rpc, 1)\n\n\tgone, err := rm.registerHandler(streamId, respChan)\n\tif err != nil {\n\t\treturn nil, err\n\t}", "unary id counter incremented without atomics", suite=False)
mut("race-stream-done-unlocked", "C15", "internal/client/stream.go", "func (cs *clientStream) readErrorIfDone() (bool, error) {\n\tcs.protected.Lock()\n\tdefer cs.protected.Unlock()\n", "func (cs *clientStream) readErrorIfDone() (bool, error) {\n", "stream terminal state read without the lock")
mut("race-server-headers-unlocked", "C15", "internal/server/stream.go", "func (ss *serverStream) setHeader(md metadata.MD, send bool) error {\n\tss.protected.Lock()\n\tdefer ss.protected.Unlock()\n", "func (ss *serverStream) setHeader(md metadata.MD, send bool) error {\n", "SetHeader/SendHeader without the lock (concurrent with SendMsg)", suite=True)
mut("race-proxy-clients-unlocked", "C15", "proxy.go", "\tp.mutex.Lock()\n\tp.clients[id] = client\n\tp.mutex.Unlock()\n", "\tp.clients[id] = client\n", "AddClient writes the table without the lock")


def sh(cmd, **kw):
    return subprocess.run(cmd, shell=True, stdout=subprocess.PIPE, stderr=subprocess.STDOUT, text=True, **kw)


def run(m):
    res = dict(id=m["id"], prop=m["prop"], note=m["note"])
    wt = "/tmp/verif-mut-%d" % os.getpid()
    sh("git -C %s worktree remove --force %s" % (REPO, wt))
    rc = sh("git -C %s worktree add -q --detach %s HEAD" % (REPO, wt))
    try:
        path = os.path.join(wt, m["file"])
        src = open(path).read()
        if src.count(m["old"]) != 1:
            res["outcome"] = "STALE: pattern occurs %d times" % src.count(m["old"])
            return res
        open(path, "w").write(src.replace(m["old"], m["new"]))
        b = sh("cd %s && go build ./... && go build -tags verif ./..." % wt)
        if b.returncode != 0:
            res["outcome"] = "DOES-NOT-BUILD: " + b.stdout[-300:]
            return res
        if m["suite"]:
            t = sh("cd %s && go test -vet=off -count=1 ./... 2>&1 | grep -E '^(--- FAIL|FAIL|ok)'" % wt)
            fails = [l for l in t.stdout.splitlines() if l.startswith("--- FAIL") and "TestClientResetStream" not in l]
            res["suite"] = "pass" if not fails else "FAILS: " + ";".join(fails)[:300]
        t0 = time.time()
        cmd = "cd %s && VERIF_NO_EVIDENCE=1 VERIF_REPO=%s ./check %s --tier quick" % (ROOT, wt, m["prop"])
        if m.get("only"):
            cmd += " --only " + m["only"]
        c = sh(cmd, timeout=1500)
        res["check_exit"] = c.returncode
        res["secs"] = round(time.time() - t0, 1)
        res["outcome"] = "DETECTED" if c.returncode == 1 and "VIOLATION property=%s" % m["prop"] in c.stdout else "MISSED (exit %d)" % c.returncode
        res["tail"] = [l for l in c.stdout.splitlines() if "rapid] failed" in l or "VERIF-FAIL" in l or "panic:" in l or "WEDGE" in l][:2]
    finally:
        sh("git -C %s worktree remove --force %s" % (REPO, wt))
    return res


def main():
    args = sys.argv[1:]
    if args == ["--list"]:
        for m in M:
            print(m["id"], m["prop"], m["note"])
        return
    sel = [m for m in M if not args or m["id"] in args]
    out = []
    for m in sel:
        r = run(m)
        print(json.dumps(r), flush=True)
        out.append(r)
    p = os.path.join(ROOT, "mutants_results.json")
    old = {}
    if os.path.exists(p):
        old = {r["id"]: r for r in json.load(open(p))}
    for r in out:
        old[r["id"]] = r
    json.dump(list(old.values()), open(p, "w"), indent=1)
    missed = [r["id"] for r in out if not r["outcome"].startswith("DETECTED")]
    print("missed/other:", missed)


if __name__ == "__main__":
    main()
