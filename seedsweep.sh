#!/bin/sh
# development aid: re-run every seeded change against the quick check of its own property, P at a time, each in its own
# scratch worktree (seedcheck.py run); prints one line per seed and a summary.  ./seedsweep.sh [P] [name-glob]
P=${1:-4}; G=${2:-C*}
cd "$(dirname "$0")"
ls -d seeded/$G/ | xargs -n1 basename | xargs -P "$P" -I{} sh -c './seedcheck.py run {} 2>&1 | tail -1 | cut -c1-160 | sed "s/^/{} /"'
python3 - <<'PY'
import json,glob,os
miss=[]; n=0
for f in sorted(glob.glob('seeded/C*/meta.json')):
    m=json.load(open(f)); p=m['property']; c=m.get('checks',{}).get(p)
    if not c: continue
    n+=1
    if c['outcome']!='DETECTED': miss.append((os.path.basename(os.path.dirname(f)), c['outcome']))
print("own-property quick check: %d of %d detected; others: %s" % (n-len(miss), n, miss))
PY
