#!/usr/bin/env python3
"""Pretty-print a wedge.json / replay file: case summary + bubble goroutines with goat/harness frames."""
import json,sys
d=json.load(open(sys.argv[1]))
print(d.get('message'))
print(json.dumps(d['case'])[:int(sys.argv[2]) if len(sys.argv)>2 else 1200])
det=d.get('detail')
if isinstance(det,list):
    dump="\n".join(det)
    for b in dump.split("\n\n"):
        lines=b.split('\n')
        if 'synctest bubble' not in lines[0]: continue
        fr=[]
        for i in range(1,len(lines)-1,2):
            if 'goat' in lines[i] or 'verifharness' in lines[i]:
                fr.append(lines[i].strip().split('(')[0].split('/')[-1]+' '+lines[i+1].strip().split(' ')[0].split('/')[-1])
        print(lines[0][:70], '|', ' < '.join(fr[:4]))
