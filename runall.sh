#!/bin/sh
# development aid: run every property's check at the given tier and seed, print one line each
tier=${1:-quick}
for p in C01 C02 C03 C04 C05 C06 C07 C08 C09 C10 C11 C12 C13 C14 C15 C16 C17 C18 C19 C20; do
  out=$(./check $p --tier $tier 2>&1); rc=$?
  echo "$p rc=$rc $(echo "$out" | grep -E '^(OK|VIOLATION|INCONCLUSIVE|KNOWN)' | head -3 | tr '\n' ' ')"
  if [ $rc -ne 0 ]; then echo "$out" | tail -15; fi
done
