#!/bin/sh
# development aid: collect and run every finished seed of a round:  ./seedround.sh /tmp/seed3 c
src=$1; suf=$2
for i in 01 02 03 04 05 06 07 08 09 10 11 12 13 14 15 16 17 18 19 20; do
  p=C$i; n=${p}${suf}
  [ -f $src/$p/SEEDED.md ] || { echo "$n not ready"; continue; }
  [ -f seeded/$n/meta.json ] && grep -q '"checks"' seeded/$n/meta.json && { echo "$n already run"; continue; }
  ./seedcheck.py collect $p --name $n --src $src 2>&1 | python3 -c "
import sys,json
t=sys.stdin.read(); i=t.find('{'); d=json.loads(t[i:]); print(d['name'], d['files_changed'], d['confirmed'], '' if d['confirmed'] else d['confirmation'])"
  ./seedcheck.py run $n 2>&1 | tail -1 | cut -c1-260
done
