#!/usr/bin/env python3
"""Regenerates the table at the end of seeded/README.md from the meta.json files (the prose above the table is kept)."""
import glob, json, os, re
ROOT = os.path.dirname(os.path.abspath(__file__))
p = os.path.join(ROOT, "seeded", "README.md")
head = open(p).read().split("| id | what the change needs")[0]
rows = []
def key(n):
    m = re.match(r"(C\d\d)(.*)", n)
    return (m.group(1), m.group(2))
for f in sorted(glob.glob(os.path.join(ROOT, "seeded", "C*", "meta.json")), key=lambda f: key(os.path.basename(os.path.dirname(f)))):
    m = json.load(open(f))
    n = m["name"]
    res = "; ".join("%s: %s" % (k, v["outcome"]) for k, v in sorted(m.get("checks", {}).items()))
    how = (m.get("notes") or "").replace("|", "/").replace("\n", " ")
    if m.get("neutralised_by"):
        res = "no longer a violation at HEAD"
        how += " **Neutralised later by " + m["neutralised_by"].replace("|", "/") + ".**"
    rows.append("| %s | %s | %s | %s |" % (n, (m.get("needs") or "").replace("|", "/").replace("\n", " "), res, how))
open(p, "w").write(head + "| id | what the change needs in order to manifest | quick check result | how it was caught |\n|---|---|---|---|\n" + "\n".join(rows) + "\n")
print("seeded/README.md: %d rows" % len(rows))
