#!/usr/bin/env python3
"""Regenerates MANIFEST.json from checkcfg.py (run after editing checkcfg)."""
import json, os, subprocess
import checkcfg

ROOT = os.path.dirname(os.path.abspath(__file__))
ids = [json.loads(l)["id"] for l in open(os.path.join(ROOT, "properties.jsonl"))]

def hook_commits():
    try:
        out = subprocess.run(["git", "-C", "/repo", "log", "--format=%H %s"], stdout=subprocess.PIPE, text=True).stdout
        return [l.split()[0] for l in out.splitlines() if " verif-hook:" in l or l.split(" ", 1)[1].startswith("verif:")]
    except Exception:
        return []

checks, na = [], []
for i in ids:
    c = checkcfg.CHECKS.get(i)
    if not c or c.get("disabled"):
        na.append(dict(property_id=i, reason=(c or {}).get("na_reason", "check not built yet (in progress; see DESIGN.md)")))
        continue
    checks.append(dict(
        property_id=i,
        quick_cmd="./check %s --tier quick" % i,
        thorough_cmd="./check %s --tier thorough" % i,
        evidence_file="/verif/evidence/%s.json" % i,
        replay_cmd_template="./check %s --replay {path}" % i,
        engine="harness",
        level_claimed=dict(category=c["level"], text=c.get("level_text", c["rule"]), design_ref=c.get("design_ref", "DESIGN.md §5 " + i)),
        level_note=c.get("level_note", "; ".join(c.get("assumptions", []))),
        technique=c.get("technique", "property-based testing (rapid) with shrinking, inside a synctest bubble over an instrumented transport"),
    ))
m = dict(
    version=1,
    setup_cmd="./setup.sh",
    hooks=dict(guard="verif", enable="go1.26.8 test -tags verif (the harness module replaces github.com/avos-io/goat with /repo)",
               baseline_off_cmd="cd /repo && go test -vet=off -count=1 ./...",
               source_commits=hook_commits(), add_only=True),
    engines=[dict(name="harness", path="/verif/harness", serves_properties=[c["property_id"] for c in checks],
                  kind_free_text="Go module: rapid v1.3.0 generators + bounded enumerators + native fuzz targets, run inside testing/synctest bubbles over an instrumented in-memory transport; python driver ./check shards, merges evidence and maps outcomes to exit codes")],
    checks=checks,
    not_applicable=na,
    notes="All 20 given properties are claimed or in progress; see DESIGN.md. Known genuine defects that are not repaired are listed in known_findings.json.",
)
json.dump(m, open(os.path.join(ROOT, "MANIFEST.json"), "w"), indent=1)
print("MANIFEST.json: %d checks, %d not_applicable" % (len(checks), len(na)))
