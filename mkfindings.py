#!/usr/bin/env python3
"""Regenerates known_findings.json: 'fixed' entries come from the fix: commits in /repo (documentation only, they
suppress nothing); 'known' entries are maintained by hand in KNOWN below."""
import json, subprocess
log = subprocess.run(['git', '-C', '/repo', 'log', '--reverse', '--format=%h\t%s'], stdout=subprocess.PIPE, text=True).stdout.splitlines()
FIXED = {  # commit subject prefix -> (property, key, what failed)
 "fix: server read loop no longer blocks": ("C11", "server-wedge-early-return", "handler returns while >=2 unread bodies are queued: read loop parked on the stream queue under the registry lock, unregisterStream can never run, connection deadlocked (found by C02 and C11)"),
 "fix: a unary reply carrying an explicit OK": ("C03", "unary-ok-status-body", "unary reply with explicit OK status and a body: nil pointer dereference in ClientConn.invoke (also C13)"),
 "fix: a unary handler error whose status code is OK": ("C03", "unary-ok-coded-error", "unary handler returns a non-nil error whose GRPCStatus has code OK: caller saw success with an empty reply"),
 "fix: client dispatch no longer deadlocks": ("C11", "client-wedge-dispatch", "envelopes for a call that stopped reading (after its trailer, cancel with >=3 unread responses, second unary reply after the caller left) park the mux dispatch under the registry mutex that teardown needs (also C13)"),
 "fix: RecvMsg reports the stream's real outcome": ("C02", "eof-vs-canceled-window", "RecvMsg that passed the done-check just before stream teardown picks the cancelled stream context: successful stream reported as Canceled"),
 "fix: a stream reset by the peer ends": ("C03", "reset-read-as-eof", "reset envelope (empty trailer, no status) read as a clean io.EOF; reset without trailer ignored"),
 "fix: the server's reset for an unknown stream no longer overtakes": ("C03", "reset-overtakes-trailer", "server reset for a late body written straight to the transport while the stream's trailer was still in the writer goroutine: handler error seen as reset/EOF (also C06)"),
 "fix: grpc-timeout values saturate": ("C08", "timeout-wrap-and-signs", "99999999H wrapped to a negative timeout; -5S and +5S accepted"),
 "fix: envelopes that follow a caller's trailer": ("C11", "server-wedge-after-halfclose", "two envelopes after the caller's half-close to a handler that lingers: read loop blocked until the handler returns"),
 "fix: unary handlers are cancelled": ("C10", "unary-ctx-and-worker-leak", "connection ends while a unary handler runs: its context is never cancelled and its worker blocks forever on the reply hand-off"),
 "fix: a call that registers after": ("C09", "check-then-register-window", "call passes the failure check, read loop fails, call registers and waits forever (write side still writable)"),
 "fix: a unary request with undecodable metadata": ("C12", "unary-badmd-panic", "unary request with undecodable -bin metadata: log.Panic kills the server process"),
 "fix: Trailer() no longer panics": ("C13", "trailer-badmd-panic", "trailer with undecodable -bin metadata: Trailer() panics"),
 "fix: undecodable response header metadata": ("C13", "header-badmd-hang", "first response with undecodable -bin metadata: Header() blocks forever, RecvMsg returns nil without data"),
 "fix: a unary reply without a header": ("C13", "unary-noheader-stats-nil", "unary reply without a header with a stats handler installed: nil dereference"),
 "fix: a stream whose opening write fails": ("C14", "failed-open-leaks-registration", "NewStream whose open envelope fails in the transport write never unregisters: one registry entry leaked per failed open"),
 "fix: the proxy ignores envelopes without a header": ("C17", "proxy-spoof-panic", "envelope without header or with a source other than the sender's attached name: log.Panic kills the proxy"),
 "fix: proxy peer loops no longer block forever": ("C17", "proxy-cancel-leak", "after the proxy context is cancelled every peer read loop (and failing write loops/dials) stays blocked sending its error to the exited forwarding loop"),
 "fix: a failing old connection no longer removes": ("C17", "proxy-reattach-forgets-new", "peer re-attaches under its name, the old connection fails, the proxy deletes the new registration"),
 "fix: Demux.Cancel and Stop no longer panic": ("C18", "demux-cancel-close", "Cancel(key) while the run loop is parked handing an envelope to that key (or a writer is parked / writes afterwards): send on closed channel; Stop with the run loop parked on a hand-off never returns"),
 "fix: the HTTP transport's idle cleanup no longer panics": ("C19", "http-cleaner-vs-sender-and-read-ctx", "idle cleaner closes the delivery channel while ServeHTTP is parked sending on it: send on closed channel; httpReadWriter.Read ignores its context"),
 "fix: the HTTP transport's Write honours": ("C19", "http-write-ctx", "httpReadWriter.Write ignores its context: blocked POST does not return on cancel"),
 "fix: once the client read loop has dropped an Rpc of a departing call": ("C09", "drop-then-deliver-hole", "a stream whose caller gives up after a failed send (teardown closes the call's gone channel, then queues for the registry mutex) while the read loop is just handing it a message and then the trailer: per Rpc the read loop chose at random between delivering and dropping, so the message could be dropped and the trailer delivered - RecvMsg then reported io.EOF with the message missing (found by the lazy, send-first callers added to TestC09 for seeded change C09j; about one case in a thousand)"),
 "fix: an envelope with an empty return route no longer crashes the proxy": ("C17", "proxy-empty-return-route", "an attached peer sends, over a by-reference (in-process) transport, an envelope with its true source whose ProxyNext is an empty non-nil list (what a previous proxy leaves after consuming the last element of a return route): forwardRpc indexes element -1 and panics Proxy.Serve (found by the odd-route mode added to TestC17 for seeded change C17j)"),
 "fix: a send whose transport write failed no longer deadlocks": ("C09", "send-fail-vs-parked-dispatch", "a bidirectional stream whose caller is three response envelopes behind (one handed to the stream, one queued, the connection's read loop parked on the third, holding the registry mutex); the transport breaks (reads and writes fail); the caller sends before it receives: the failed write asks for the read loop's error under that same mutex, so SendMsg hangs forever and with it every other call in flight on the connection (found when lazy receivers were added to TestC09 for seeded change C09j)"),
 "fix: a receive on a stream torn down by a failed send reports the context's status": ("C07", "recv-respchan-closed-on-cancel", "a second goroutine of the caller is sending when the context is cancelled: its SendMsg fails, tears the stream down and closes the response channel; the read loop's select then has the closed channel and ctx.Done() ready and picks at random, so the pending receive reports Unknown 'respChan closed' instead of Canceled (found by TestC07SendRace, written for seeded change C07i)"),
 "fix: a stream's trailer is written even when the stream's own context is already done": ("C06", "trailer-dropped-after-deadline", "a streaming handler that returns after its stream's grpc-timeout deadline has passed (caller has not reset, connection alive): the trailer with the final status is written only about half the time, because the per-stream writer selects at random between the done stream context and the ready connection writer (found by TestC06Deadline, written for seeded change C06f)"),
 "fix: stats End reports the error of an RPC that failed with io.EOF": ("C20", "stats-end-eof-nil", "a unary RPC refused or failed because the transport's Read returned io.EOF (or an error wrapping it), or a handler error wrapping io.EOF: the caller gets an error but every stats handler's End.Error is nil (found when the fault-error-kind dimension was added after seeded round 4)"),
 "fix: a receive that fails to decode a message aborts": ("C13", "decode-error-keeps-stream", "garbage body to stream B (its caller stops receiving after the decode error), three more bodies for B: dispatch parked on B forever, call A hangs even after the connection is closed (found by the native fuzz target FuzzC13)"),
 "fix: stream teardown unregisters before": ("C13", "teardown-rst-vs-dispatch", "transport failed, dispatch parked on the stream's full channel holds the mutex, teardown's reset write needs it: deadlock"),
}
KNOWN = [
 dict(property="C16", key="proxy-drop", status="known",
      what="proxy silently drops envelopes when a destination's 16-slot buffer is full (proxy.go forwardRpc: non-blocking enqueue, 'Dropping packet'): >=18 envelopes outstanding to one slow destination lose all but 17, and a relayed stream then ends in a clean io.EOF with messages missing",
      matcher="burst sub-check only: number of lost envelopes == proxy.drop counter > 0 with >16 envelopes outstanding to one destination whose writes are parked; any loss with a zero drop counter, any duplicate or reordering, and any drop in the <=12-outstanding workloads is still a VIOLATION",
      why_not_fixed="the repair is a flow-control design decision (back-pressure on the source, which gives up the proxy's isolation between peers that C17 demands, versus failing/resetting the affected stream, which needs protocol support in the proxy), not a small safe patch"),
]
findings = list(KNOWN)
for l in log:
    h, subj = l.split('\t', 1)
    for prefix, (prop, key, what) in FIXED.items():
        if subj.startswith(prefix):
            findings.append(dict(property=prop, key=key, status="fixed", commit=h, what=what, line="fixed: property=%s %s %s" % (prop, h, what)))
unmatched = [l for l in log if l.split('\t',1)[1].startswith('fix:') and not any(l.split('\t',1)[1].startswith(p) for p in FIXED)]
doc = dict(comment="Genuine defects of avos-io/goat found by the checks. status=known entries are reported as KNOWN-FINDING and do not fail a run; "
           "status=fixed entries are documentation only (they suppress nothing: the check reports the violation again if it returns). Never written at run time.",
           findings=findings)
json.dump(doc, open('/verif/known_findings.json', 'w'), indent=1)
print(len(findings), "findings;", "UNMATCHED fix commits:" if unmatched else "", unmatched)
