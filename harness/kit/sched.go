package kit

import (
	"context"
	"fmt"
	"sort"
	"sync"
	"time"
)

// Gate is a named parking spot for a harness actor (handler or client script).
type Gate struct {
	Name     string
	ch       chan struct{}
	parked   bool
	released bool
}

// Sched is the step scheduler: actors park at gates, transport writes park at
// link gates; Run settles the bubble, lists what is parked in a canonical
// order and releases one item per step according to a pre-drawn tape.
type Sched struct {
	mu    sync.Mutex
	gates map[string]*Gate
	links []*Link
	Steps int
	Trace []string // what was released, in order
	// Tick, if positive, is slept (virtual time) at every quiescent point before the next release.
	Tick time.Duration
}

func NewSched(links ...*Link) *Sched {
	return &Sched{gates: map[string]*Gate{}, links: links}
}

func (s *Sched) AddLink(l *Link) { s.links = append(s.links, l) }

func (s *Sched) gate(name string) *Gate {
	g, ok := s.gates[name]
	if !ok {
		g = &Gate{Name: name, ch: make(chan struct{})}
		s.gates[name] = g
	}
	return g
}

// Park blocks the calling actor at the named gate until it is released or ctx
// is done (ctx may be nil). Returns false if it left because of ctx.
func (s *Sched) Park(ctx context.Context, name string) bool {
	s.mu.Lock()
	g := s.gate(name)
	g.parked = true
	s.mu.Unlock()
	var done <-chan struct{}
	if ctx != nil {
		done = ctx.Done()
	}
	ok := true
	select {
	case <-g.ch:
	case <-done:
		ok = false
	}
	s.mu.Lock()
	g.parked = false
	s.mu.Unlock()
	return ok
}

// ReleaseGate opens a gate (now or for a future Park).
func (s *Sched) ReleaseGate(name string) {
	s.mu.Lock()
	g := s.gate(name)
	if !g.released {
		g.released = true
		close(g.ch)
	}
	s.mu.Unlock()
}

// item is something the scheduler can release.
type item struct {
	key string
	hw  *HeldWrite
	g   *Gate
	fl  *Link
	dir int
}

// Enabled lists parked items in canonical order.
func (s *Sched) enabled() []item {
	var out []item
	for _, l := range s.links {
		for _, h := range l.Held() {
			out = append(out, item{key: fmt.Sprintf("w/%s/%d/%020d/%09d", l.Name, h.End.dir, h.Rpc.GetId(), h.seq), hw: h})
		}
	}
	for _, l := range s.links {
		for d := 0; d < 2; d++ {
			if l.InFlight(d) > 0 {
				out = append(out, item{key: fmt.Sprintf("d/%s/%d", l.Name, d), fl: l, dir: d})
			}
		}
	}
	s.mu.Lock()
	for _, g := range s.gates {
		if g.parked && !g.released {
			out = append(out, item{key: "g/" + g.Name, g: g})
		}
	}
	s.mu.Unlock()
	sort.Slice(out, func(i, j int) bool { return out[i].key < out[j].key })
	return out
}

// Run drives the system until nothing is parked (after a settle) or done()
// reports true, or maxSteps is reached. tape[i] selects which parked item the
// i-th step releases; an exhausted tape releases the first item.
func (s *Sched) Run(tape []byte, maxSteps int, done func() bool) {
	for s.Steps < maxSteps {
		Settle()
		if s.Tick > 0 {
			// let virtual time pass at the quiescent point: timers inside the code under test fire
			time.Sleep(s.Tick)
			Settle()
		}
		if done != nil && done() {
			return
		}
		en := s.enabled()
		if len(en) == 0 {
			return
		}
		k := 0
		if s.Steps < len(tape) {
			k = int(tape[s.Steps]) % len(en)
		}
		it := en[k]
		if it.fl != nil {
			if r := it.fl.PeekFlight(it.dir); r != nil {
				s.Trace = append(s.Trace, fmt.Sprintf("d:%s:%d:%d", it.fl.Name, it.dir, r.GetId()))
			}
			it.fl.ReleaseNext(it.dir)
		} else if it.hw != nil {
			s.Trace = append(s.Trace, fmt.Sprintf("w:%s:%d:%d", it.hw.End.link.Name, it.hw.End.dir, it.hw.Rpc.GetId()))
			it.hw.Release()
		} else {
			s.Trace = append(s.Trace, "g:"+it.g.Name)
			s.ReleaseGate(it.g.Name)
		}
		s.Steps++
	}
}

// Drain releases everything and removes all link gates.
func (s *Sched) Drain() {
	for _, l := range s.links {
		l.ReleaseAll()
	}
	s.ReleaseGates()
}

// ReleaseGates opens every gate (handlers parked in one go on) but leaves the links as they are: writes that are
// parked inside the transport stay parked.
func (s *Sched) ReleaseGates() {
	s.mu.Lock()
	for _, g := range s.gates {
		if !g.released {
			g.released = true
			close(g.ch)
		}
	}
	s.mu.Unlock()
}
