package kit

import (
	"context"
	"encoding/base64"
	"strings"

	goat "github.com/avos-io/goat"
	"github.com/avos-io/goat/gen/goatorepo"
	"google.golang.org/protobuf/proto"
	"google.golang.org/protobuf/types/known/anypb"
	"google.golang.org/protobuf/types/known/wrapperspb"
)

// RawKV is a key/value exactly as it appears on the wire (no base64 applied by the builder).
type RawKV struct {
	K string `json:"k"`
	V string `json:"v"`
}

// WireKV encodes user metadata the way the wire format prescribes
// (URL-safe base64 for -bin keys), independently of goat's own code.
func WireKV(kvs []KV) []RawKV {
	var out []RawKV
	for _, kv := range kvs {
		v := string(kv.V)
		if strings.HasSuffix(strings.ToLower(kv.K), "-bin") {
			v = base64.URLEncoding.EncodeToString(kv.V)
		}
		out = append(out, RawKV{K: kv.K, V: v})
	}
	return out
}

// DecodeWireKV is the reference decoder for wire metadata: lower-case keys,
// base64 for -bin, per-key order. ok=false if a -bin value is undecodable.
func DecodeWireKV(kvs []*goatorepo.KeyValue) (map[string][]string, bool) {
	out := map[string][]string{}
	for _, kv := range kvs {
		k := strings.ToLower(kv.GetKey())
		v := kv.GetValue()
		if strings.HasSuffix(k, "-bin") {
			b, err := base64.URLEncoding.DecodeString(v)
			if err != nil {
				return nil, false
			}
			v = string(b)
		}
		out[k] = append(out[k], v)
	}
	return out, true
}

// StatusSpec is a serialisable ResponseStatus.
type StatusSpec struct {
	Code    int32    `json:"code"`
	Msg     string   `json:"msg,omitempty"`
	Details []Detail `json:"details,omitempty"`
}

// EnvSpec is a serialisable description of one envelope; Build fills in id and routing.
type EnvSpec struct {
	Name     string      `json:"name,omitempty"` // shape name, for reports
	NoHeader bool        `json:"no_header,omitempty"`
	Method   *string     `json:"method,omitempty"` // override
	Src      *string     `json:"src,omitempty"`
	Dst      *string     `json:"dst,omitempty"`
	HdrMD    []RawKV     `json:"hdr_md,omitempty"`
	Body     *Payload    `json:"body,omitempty"`
	Wrap     bool        `json:"wrap,omitempty"` // body is the protobuf encoding of BytesValue{Body} (a decodable message) rather than raw bytes
	Status   *StatusSpec `json:"status,omitempty"`
	Trailer  bool        `json:"trailer,omitempty"`
	TrlMD    []RawKV     `json:"trl_md,omitempty"`
	Reset    string      `json:"reset,omitempty"`
	Record   []string    `json:"record,omitempty"` // proxy route record
	Next     []string    `json:"next,omitempty"`
	Target   int         `json:"target,omitempty"`    // which call/stream id slot this envelope addresses
	IDOffset uint64      `json:"id_offset,omitempty"` // added to the resolved id (to hit unknown ids)
	Empty    bool        `json:"empty,omitempty"`     // completely empty envelope (only id)
}

// Build materialises the envelope.
func (e EnvSpec) Build(id uint64, method, src, dst string) *goat.Rpc {
	r := &goat.Rpc{Id: id + e.IDOffset}
	if e.Empty {
		return r
	}
	if !e.NoHeader {
		h := &goatorepo.RequestHeader{Method: method, Source: src, Destination: dst}
		if e.Method != nil {
			h.Method = *e.Method
		}
		if e.Src != nil {
			h.Source = *e.Src
		}
		if e.Dst != nil {
			h.Destination = *e.Dst
		}
		for _, kv := range e.HdrMD {
			h.Headers = append(h.Headers, &goatorepo.KeyValue{Key: kv.K, Value: kv.V})
		}
		h.ProxyRecord = e.Record
		h.ProxyNext = e.Next
		r.Header = h
	}
	if e.Body != nil {
		data := e.Body.Bytes()
		if e.Wrap {
			data, _ = proto.Marshal(&wrapperspb.BytesValue{Value: data})
		}
		r.Body = &goatorepo.Body{Data: data}
	}
	if e.Status != nil {
		st := &goatorepo.ResponseStatus{Code: e.Status.Code, Message: e.Status.Msg}
		for _, d := range e.Status.Details {
			a, _ := anypb.New(d.Msg())
			st.Details = append(st.Details, a)
		}
		r.Status = st
	}
	if e.Trailer {
		t := &goatorepo.Trailer{}
		for _, kv := range e.TrlMD {
			t.Metadata = append(t.Metadata, &goatorepo.KeyValue{Key: kv.K, Value: kv.V})
		}
		r.Trailer = t
	}
	if e.Reset != "" {
		r.Reset_ = &goatorepo.Reset{Type: e.Reset}
	}
	return r
}

// ReadAvailable drains what is currently queued on an end without blocking.
func (e *End) ReadAvailable() []*goat.Rpc {
	var out []*goat.Rpc
	for e.Pending() > 0 {
		r, err := e.Read(context.Background())
		if err != nil {
			break
		}
		out = append(out, r)
	}
	return out
}
