package kit

import (
	"context"
	"fmt"
	"sync"
	"testing"
	"time"

	goat "github.com/avos-io/goat"
	"google.golang.org/grpc"
	"google.golang.org/grpc/metadata"
)

// Conv is one RPC of a case: the caller's program and the handler's program.
type Conv struct {
	Kind      int   `json:"kind"` // KindUnary..KindBidi
	Client    int   `json:"client"`
	MD        []KV  `json:"md,omitempty"`         // outgoing metadata
	TimeoutMs int64 `json:"timeout_ms,omitempty"` // caller deadline (0 = none)

	// streaming
	COps       []COp `json:"cops,omitempty"`
	Concurrent bool  `json:"concurrent,omitempty"` // separate sender and receiver goroutines
	H          HProg `json:"h,omitempty"`

	// unary
	Req   Payload `json:"req,omitempty"`
	Reply Payload `json:"reply,omitempty"`
	UErr  ErrSpec `json:"uerr,omitempty"`
	// unary handlers may call grpc.SetHeader/SendHeader/SetTrailer
	UOps []HOp `json:"uops,omitempty"`
}

// UHLog is what a unary handler observed.
type UHLog struct {
	Reqs        [][]byte
	MD          map[string][]string
	HasDeadline bool
	Deadline    time.Time
	StartAt     time.Time
	HdrErrs     []ErrObs
	Ctx         context.Context
}

// ConvOut is everything observed about one Conv.
type ConvOut struct {
	Conv *Conv
	Name string // method name (m<i>)
	Conn string // client link name
	ID   uint64 // stream id seen on the wire (0 = never appeared)

	C *CLog // streaming caller
	H *HLog // streaming handler

	UDone          bool
	UReply         []byte
	UErr           ErrObs
	UH             *UHLog
	StartAt, EndAt time.Time
}

// RunOpts configures RunConvs.
type RunOpts struct {
	Topo         Topo
	GateA, GateB bool   // scheduler-controlled release of client-side / server-side writes
	Tape         []byte // scheduler choices
	SOpts        []goat.ServerOption
	DOpts        []goat.DialOption
	// Setup runs after the world is built and before any call starts.
	Setup func(w *World, s *Sched)
	// Ctx lets a property decorate the caller's context of conv i.
	Ctx func(i int, ctx context.Context) context.Context
	// AfterRun runs after all calls completed (or the scheduler stopped) and before shutdown.
	AfterRun func(w *World, outs []*ConvOut)
	// OnOuts receives the (live) observation records before any call starts.
	OnOuts func(outs []*ConvOut)
	// MaxSteps bounds the scheduler (default 200000).
	MaxSteps int
	// Tick: virtual time that passes at every quiescent point of the schedule (0 = none)
	Tick time.Duration
	// DeadCalls: before the conversations start, this many calls are made on every client connection with a context
	// that is already cancelled (alternately a stream open and a unary call)
	DeadCalls int
}

// RunConvs executes all conversations concurrently in one bubble.
func RunConvs(t *testing.T, convs []Conv, o RunOpts) (outs []*ConvOut, tap []Ev, res RunResult, sched *Sched) {
	outs = make([]*ConvOut, len(convs))
	for i := range convs {
		outs[i] = &ConvOut{Conv: &convs[i], Name: fmt.Sprintf("m%d", i), Conn: ClientName(convs[i].Client % max(1, o.Topo.Clients)),
			C: &CLog{}, H: &HLog{}, UH: &UHLog{}}
	}
	var umu sync.Mutex
	if o.OnOuts != nil {
		o.OnOuts(outs)
	}
	res = Bubble(t, func() {
		svc := NewSvc()
		for i := range convs {
			i := i
			cv := &convs[i]
			out := outs[i]
			if cv.Kind == KindUnary {
				svc.Unary(out.Name, func(ctx context.Context, req []byte) ([]byte, error) {
					umu.Lock()
					out.UH.Reqs = append(out.UH.Reqs, append([]byte{}, req...))
					if md, ok := metadata.FromIncomingContext(ctx); ok {
						out.UH.MD = map[string][]string(md.Copy())
					}
					out.UH.Deadline, out.UH.HasDeadline = ctx.Deadline()
					out.UH.StartAt = time.Now()
					out.UH.Ctx = ctx
					umu.Unlock()
					for _, op := range cv.UOps {
						var err error
						switch op.Op {
						case "sethdr":
							err = grpc.SetHeader(ctx, MDOfOp(op))
						case "sendhdr":
							err = grpc.SendHeader(ctx, MDOfOp(op))
						case "settrl":
							err = grpc.SetTrailer(ctx, MDOfOp(op))
						}
						if err != nil {
							umu.Lock()
							out.UH.HdrErrs = append(out.UH.HdrErrs, Observe(err))
							umu.Unlock()
						}
					}
					if e := cv.UErr.Build(); e != nil {
						return nil, e
					}
					return cv.Reply.Bytes(), nil
				})
			} else {
				svc.Stream(out.Name, cv.Kind == KindClient || cv.Kind == KindBidi, cv.Kind == KindServer || cv.Kind == KindBidi,
					func(stream grpc.ServerStream) error { return RunHandler(cv.H, stream, out.H) })
			}
		}
		w := NewWorld(o.Topo, svc, o.SOpts, o.DOpts)
		sched = NewSched()
		sched.Tick = o.Tick
		for _, l := range w.Links {
			sched.AddLink(l)
			// delayed delivery (not blocked Write calls): goat holds mutexes
			// across some writes, and a goroutine waiting for such a mutex is
			// not durably blocked, so the bubble could never settle.
			if o.GateA {
				l.A.Delay(func(*Rpc) bool { return true })
			}
			if o.GateB {
				l.B.Delay(func(*Rpc) bool { return true })
			}
		}
		if o.Setup != nil {
			o.Setup(w, sched)
		}
		// calls made earlier on the same connections with a context that had already ended: they fail, and must leave
		// the connection as good as new for everything that follows
		for k := 0; k < o.DeadCalls && !o.Topo.Raw; k++ {
			for ci := 0; ci < max(1, o.Topo.Clients); ci++ {
				dctx, dcancel := context.WithCancel(context.Background())
				dcancel()
				if k%2 == 0 {
					if cs, err := w.Conn(ci).NewStream(dctx, StreamDescFor(KindBidi), FullMethod("dead")); err == nil {
						_ = cs.CloseSend()
					}
				} else {
					_, _ = Invoke(dctx, w.Conn(ci), "dead", []byte("x"))
				}
			}
			Settle()
		}
		var wg sync.WaitGroup
		// all conversations leave one gate in the same instant, so that their opening steps (id allocation,
		// registration, header write) really run concurrently
		start := make(chan struct{})
		for i := range convs {
			i := i
			cv := &convs[i]
			out := outs[i]
			wg.Add(1)
			go func() {
				defer wg.Done()
				<-start
				ctx := context.Background()
				var cancel context.CancelFunc
				if cv.TimeoutMs != 0 {
					ctx, cancel = context.WithTimeout(ctx, time.Duration(cv.TimeoutMs)*time.Millisecond)
				} else {
					ctx, cancel = context.WithCancel(ctx)
				}
				defer cancel()
				if len(cv.MD) > 0 {
					ctx = metadata.NewOutgoingContext(ctx, MDOf(cv.MD))
				}
				if o.Ctx != nil {
					ctx = o.Ctx(i, ctx)
				}
				out.StartAt = time.Now()
				cc := w.Conn(cv.Client)
				if cv.Kind == KindUnary {
					r, err := Invoke(ctx, cc, out.Name, cv.Req.Bytes())
					umu.Lock()
					out.UReply, out.UErr, out.UDone = r, Observe(err), true
					out.EndAt = time.Now()
					umu.Unlock()
					return
				}
				cs, err := cc.NewStream(ctx, StreamDescFor(cv.Kind), FullMethod(out.Name))
				if err != nil {
					oe := Observe(err)
					out.C.mu.Lock()
					out.C.OpenErr = &oe
					out.C.Done = true
					out.C.mu.Unlock()
					return
				}
				if cv.Concurrent {
					snd, rcv := SplitOps(cv.COps)
					var w2 sync.WaitGroup
					w2.Add(1)
					sl := &CLog{}
					go func() {
						defer w2.Done()
						RunClientOps(snd, cs, cancel, sl)
					}()
					RunClientOps(rcv, cs, cancel, out.C)
					w2.Wait()
					out.C.mu.Lock()
					out.C.Sends = sl.Sends
					out.C.CloseErr = sl.CloseErr
					out.C.mu.Unlock()
				} else {
					RunClientOps(cv.COps, cs, cancel, out.C)
				}
				out.EndAt = time.Now()
			}()
		}
		Settle()
		close(start)
		alldone := make(chan struct{})
		go func() { wg.Wait(); close(alldone) }()
		isDone := func() bool {
			select {
			case <-alldone:
				return true
			default:
				return false
			}
		}
		ms := o.MaxSteps
		if ms == 0 {
			ms = 200000
		}
		sched.Run(o.Tape, ms, isDone)
		sched.Drain()
		Settle()
		if o.AfterRun != nil {
			o.AfterRun(w, outs)
		}
		tap = w.Tap.Snapshot()
		w.Shutdown()
		sched.Drain()
		Settle()
		for _, out := range outs {
			out.C = out.C.Snapshot()
			out.H = out.H.SnapshotInBubble()
		}
	})
	// recover stream ids from the tap
	for _, out := range outs {
		full := FullMethod(out.Name)
		for _, e := range tap {
			if e.Conn == out.Conn && e.Dir == AtoB && e.Rpc.GetHeader().GetMethod() == full {
				out.ID = e.Rpc.GetId()
				break
			}
		}
	}
	return
}
