package kit

import (
	"context"
	"errors"
	"fmt"
	"io"
	"reflect"
	"sort"
	"strings"
	"sync"
	"time"

	"google.golang.org/grpc"
	"google.golang.org/grpc/codes"
	"google.golang.org/grpc/metadata"
	"google.golang.org/grpc/status"
	"google.golang.org/protobuf/proto"
	"google.golang.org/protobuf/protoadapt"
	"google.golang.org/protobuf/types/known/anypb"
	"google.golang.org/protobuf/types/known/durationpb"
	"google.golang.org/protobuf/types/known/wrapperspb"
)

// KV is one metadata pair as the user supplied it (key in any letter case).
type KV struct {
	K string `json:"k"`
	V []byte `json:"v"`
}

// MDOf builds metadata the way an application does (metadata.Pairs/Append lower-case keys).
func MDOf(kvs []KV) metadata.MD {
	md := metadata.MD{}
	for _, kv := range kvs {
		md.Append(kv.K, string(kv.V))
	}
	return md
}

// MDOfOp builds the metadata of a header/trailer op.
func MDOfOp(op HOp) metadata.MD {
	if !op.Raw {
		return MDOf(op.MD)
	}
	md := metadata.MD{}
	for _, kv := range op.MD {
		md[kv.K] = append(md[kv.K], string(kv.V))
	}
	return md
}

// ModelMD is the reference model of what the peer must observe for a list of
// metadata sets joined in call order: lower-cased keys, per-key value order.
func ModelMD(sets ...[]KV) map[string][]string {
	out := map[string][]string{}
	for _, s := range sets {
		for _, kv := range s {
			k := strings.ToLower(kv.K)
			out[k] = append(out[k], string(kv.V))
		}
	}
	return out
}

// MDEqual compares observed metadata with the model, ignoring the keys in skip.
func MDEqual(got metadata.MD, want map[string][]string, skip ...string) string {
	sk := map[string]bool{}
	for _, s := range skip {
		sk[s] = true
	}
	for k, wv := range want {
		if sk[k] {
			continue
		}
		gv := got[k]
		if len(gv) != len(wv) {
			return fmt.Sprintf("key %q: got %d values %q, want %d %q", k, len(gv), gv, len(wv), wv)
		}
		for i := range wv {
			if gv[i] != wv[i] {
				return fmt.Sprintf("key %q value %d: got %q want %q", k, i, gv[i], wv[i])
			}
		}
	}
	for k, gv := range got {
		if sk[k] {
			continue
		}
		if _, ok := want[k]; !ok {
			return fmt.Sprintf("unexpected key %q = %q", k, gv)
		}
	}
	return ""
}

// Detail is a serialisable status detail.
type Detail struct {
	Kind string `json:"kind"` // str | int | dur | nested
	S    string `json:"s,omitempty"`
	N    int64  `json:"n,omitempty"`
	Rep  int    `json:"rep,omitempty"` // str/nested: S repeated Rep times (details of several KiB)
}

func (d Detail) Msg() proto.Message {
	if d.Rep > 1 {
		d.S = strings.Repeat(d.S, d.Rep)
	}
	switch d.Kind {
	case "int":
		return wrapperspb.Int64(d.N)
	case "dur":
		return durationpb.New(time.Duration(d.N))
	case "nested":
		a, _ := anypb.New(wrapperspb.String(d.S))
		return a
	default:
		return wrapperspb.String(d.S)
	}
}

// ErrSpec describes what a handler returns.
type ErrSpec struct {
	Kind    string   `json:"kind"` // nil | status | wrapped | plain | canceled | deadline
	Code    uint32   `json:"code,omitempty"`
	Msg     string   `json:"msg,omitempty"`
	Rep     int      `json:"rep,omitempty"` // the message is Msg repeated this many times (0 = once): long messages stay short in case files
	Details []Detail `json:"details,omitempty"`
}

// Message is the status/error message the spec stands for.
func (e ErrSpec) Message() string {
	if e.Rep > 1 {
		return strings.Repeat(e.Msg, e.Rep)
	}
	return e.Msg
}

// Build materialises the error value.
func (e ErrSpec) Build() error {
	switch e.Kind {
	case "", "nil":
		return nil
	case "plain":
		return errors.New(e.Message())
	case "canceled":
		return context.Canceled
	case "deadline":
		return context.DeadlineExceeded
	case "okstatus":
		return okStatusErr{e.Message()}
	case "eof":
		return io.EOF // e.g. a handler that returns the io.EOF its own RecvMsg gave it: a failure all the same
	case "wrapped-eof":
		return fmt.Errorf("reading request: %w", io.EOF)
	}
	st := status.New(codes.Code(e.Code), e.Message())
	if len(e.Details) > 0 && codes.Code(e.Code) != codes.OK {
		var ms []protoadapt.MessageV1
		for _, d := range e.Details {
			ms = append(ms, d.Msg().(protoadapt.MessageV1))
		}
		if s2, err := st.WithDetails(ms...); err == nil {
			st = s2
		}
	}
	if e.Kind == "wrapped" {
		return fmt.Errorf("outer context: %w", st.Err())
	}
	return st.Err()
}

// okStatusErr is a non-nil error whose gRPC status has code OK (a handler
// failure all the same).
type okStatusErr struct{ msg string }

func (e okStatusErr) Error() string              { return "ok-coded failure: " + e.msg }
func (e okStatusErr) GRPCStatus() *status.Status { return status.New(codes.OK, e.msg) }

// HOp is one step of a handler program.
type HOp struct {
	Op string   `json:"op"` // recv | send | sethdr | sendhdr | settrl | waitctx | sleep
	P  *Payload `json:"p,omitempty"`
	MD []KV     `json:"md,omitempty"`
	N  int64    `json:"n,omitempty"` // sleep: virtual ms
	// Raw: build the metadata.MD with the keys exactly as given (a hand-built
	// map) instead of through metadata.Append, which lower-cases them.
	Raw bool `json:"raw,omitempty"`
}

// HProg is a streaming handler program: the ops, then return Ret.
type HProg struct {
	Ops []HOp   `json:"ops"`
	Ret ErrSpec `json:"ret"`
	// StopOnCtx: skip the remaining ops as soon as the handler's context is
	// done or a receive fails (a well-behaved, cancellation-aware handler).
	StopOnCtx bool `json:"stop_on_ctx,omitempty"`
	// WaitCtx: after the ops, wait for the context to end and return its
	// error as a status (status.FromContextError).
	WaitCtx bool `json:"wait_ctx,omitempty"`
	// ConcurrentMD runs the header/trailer ops in a second goroutine, concurrently with the
	// sends and receives (race-detector workloads only: what the caller then observes as
	// headers depends on the schedule).
	ConcurrentMD bool `json:"concurrent_md,omitempty"`
}

// ErrObs is a printable, comparable record of an error value.
type ErrObs struct {
	Nil  bool   `json:"nil,omitempty"`
	EOF  bool   `json:"eof,omitempty"`
	Code string `json:"code,omitempty"` // status code name if the error carries a status
	Msg  string `json:"msg,omitempty"`
	Raw  string `json:"raw,omitempty"`
	err  error
}

func (e ErrObs) Err() error { return e.err }

// Observe classifies an error.
func Observe(err error) ErrObs {
	if err == nil {
		return ErrObs{Nil: true}
	}
	o := ErrObs{err: err, Raw: trunc(err.Error(), 200)}
	if err == io.EOF {
		o.EOF = true
		return o
	}
	if st, ok := status.FromError(err); ok {
		o.Code = st.Code().String()
		o.Msg = trunc(st.Message(), 200)
	}
	return o
}

func trunc(s string, n int) string {
	if len(s) > n {
		return s[:n] + "…"
	}
	return s
}

// HLog is what a handler observed.
type HLog struct {
	mu          sync.Mutex
	Started     bool                `json:"started"`
	StartedN    int                 `json:"started_n"`
	MD          map[string][]string `json:"md,omitempty"`
	HasDeadline bool                `json:"has_deadline"`
	Deadline    time.Time           `json:"deadline"`
	StartAt     time.Time           `json:"start_at"`
	Recv        [][]byte            `json:"-"`
	RecvD       []string            `json:"recv"`
	RecvEnd     *ErrObs             `json:"recv_end,omitempty"` // first non-nil RecvMsg error
	SendErrs    []ErrObs            `json:"send_errs,omitempty"`
	Sent        [][]byte            `json:"-"`
	SentD       []string            `json:"sent"`
	HdrErrs     []ErrObs            `json:"hdr_errs,omitempty"`
	CtxDone     bool                `json:"ctx_done"`
	Returned    bool                `json:"returned"`
	ReturnedAt  time.Time           `json:"returned_at"`
	Ctx         context.Context     `json:"-"`
}

// RunHandler interprets prog on stream and returns the handler's return value.
func RunHandler(prog HProg, stream grpc.ServerStream, log *HLog) error {
	ctx := stream.Context()
	log.mu.Lock()
	log.Started = true
	log.StartedN++
	log.Ctx = ctx
	log.StartAt = time.Now()
	if md, ok := metadata.FromIncomingContext(ctx); ok {
		log.MD = map[string][]string(md.Copy())
	}
	log.Deadline, log.HasDeadline = ctx.Deadline()
	log.mu.Unlock()
	stop := false
	var mdDone chan struct{}
	if prog.ConcurrentMD {
		mdDone = make(chan struct{})
		go func() {
			defer close(mdDone)
			for _, op := range prog.Ops {
				switch op.Op {
				case "sethdr":
					_ = stream.SetHeader(MDOfOp(op))
				case "sendhdr":
					_ = stream.SendHeader(MDOfOp(op))
				case "settrl":
					stream.SetTrailer(MDOfOp(op))
				}
			}
		}()
		defer func() { <-mdDone }()
	}
	for _, op := range prog.Ops {
		if prog.StopOnCtx && (stop || ctx.Err() != nil) {
			break
		}
		if prog.ConcurrentMD && (op.Op == "sethdr" || op.Op == "sendhdr" || op.Op == "settrl") {
			continue
		}
		switch op.Op {
		case "recv":
			b, err := RecvBytes(stream)
			log.mu.Lock()
			if err != nil {
				if err != io.EOF {
					stop = true
				}
				if log.RecvEnd == nil {
					o := Observe(err)
					log.RecvEnd = &o
				}
			} else {
				log.Recv = append(log.Recv, b)
				log.RecvD = append(log.RecvD, Digest(b))
			}
			log.mu.Unlock()
		case "send":
			b := op.P.Bytes()
			err := SendBytes(stream, b)
			log.mu.Lock()
			if err != nil {
				log.SendErrs = append(log.SendErrs, Observe(err))
			} else {
				log.Sent = append(log.Sent, b)
				log.SentD = append(log.SentD, Digest(b))
			}
			log.mu.Unlock()
		case "sethdr":
			if err := stream.SetHeader(MDOfOp(op)); err != nil {
				log.mu.Lock()
				log.HdrErrs = append(log.HdrErrs, Observe(err))
				log.mu.Unlock()
			}
		case "sendhdr":
			if err := stream.SendHeader(MDOfOp(op)); err != nil {
				log.mu.Lock()
				log.HdrErrs = append(log.HdrErrs, Observe(err))
				log.mu.Unlock()
			}
		case "settrl":
			stream.SetTrailer(MDOfOp(op))
		case "waitctx":
			<-ctx.Done()
			log.mu.Lock()
			log.CtxDone = true
			log.mu.Unlock()
		case "sleep":
			select {
			case <-time.After(time.Duration(op.N) * time.Millisecond):
			case <-ctx.Done():
			}
		}
	}
	var ret error
	if prog.WaitCtx {
		<-ctx.Done()
		ret = status.FromContextError(ctx.Err()).Err()
	} else if prog.StopOnCtx && ctx.Err() != nil {
		ret = status.FromContextError(ctx.Err()).Err()
	} else {
		ret = prog.Ret.Build()
	}
	log.mu.Lock()
	log.Returned = true
	log.ReturnedAt = time.Now()
	log.CtxDone = ctx.Err() != nil
	log.mu.Unlock()
	return ret
}

// Snapshot returns a copy safe to read while the handler may still run.
// MarkReturned records that a handler which does not run a program (a unary handler) has finished.
func (l *HLog) MarkReturned() {
	l.mu.Lock()
	l.Returned = true
	l.ReturnedAt = time.Now()
	l.mu.Unlock()
}

func (l *HLog) Snapshot() *HLog {
	l.mu.Lock()
	defer l.mu.Unlock()
	c := &HLog{Started: l.Started, StartedN: l.StartedN, MD: l.MD, HasDeadline: l.HasDeadline, Deadline: l.Deadline, StartAt: l.StartAt,
		Recv: append([][]byte{}, l.Recv...), RecvD: append([]string{}, l.RecvD...), RecvEnd: l.RecvEnd,
		SendErrs: append([]ErrObs{}, l.SendErrs...), Sent: append([][]byte{}, l.Sent...), SentD: append([]string{}, l.SentD...),
		HdrErrs: append([]ErrObs{}, l.HdrErrs...), CtxDone: l.CtxDone, Returned: l.Returned, ReturnedAt: l.ReturnedAt, Ctx: l.Ctx}
	return c
}

// SnapshotInBubble is Snapshot plus a fresh look at the handler's context
// (contexts created in a bubble may only be inspected from inside it).
func (l *HLog) SnapshotInBubble() *HLog {
	c := l.Snapshot()
	if c.Ctx != nil && c.Ctx.Err() != nil {
		c.CtxDone = true
	}
	return c
}

// COp is one step of a client stream program.
type COp struct {
	Op string   `json:"op"` // send | close | recv | recvall | header | trailer | cancel | sleep
	P  *Payload `json:"p,omitempty"`
	N  int64    `json:"n,omitempty"`
}

// SendObs records one SendMsg.
type SendObs struct {
	D   string `json:"d"`
	Err ErrObs `json:"err"`
	b   []byte
}

func (s SendObs) Bytes() []byte { return s.b }

// CLog is what a streaming caller observed.
type CLog struct {
	mu         sync.Mutex
	OpenErr    *ErrObs             `json:"open_err,omitempty"`
	Sends      []SendObs           `json:"sends,omitempty"`
	CloseErr   *ErrObs             `json:"close_err,omitempty"`
	Recv       [][]byte            `json:"-"`
	RecvD      []string            `json:"recv"`
	RecvEnd    *ErrObs             `json:"recv_end,omitempty"`   // first RecvMsg error
	RecvAfter  []ErrObs            `json:"recv_after,omitempty"` // results of RecvMsg calls after the first error
	HeaderMD   map[string][]string `json:"header,omitempty"`
	HeaderErr  *ErrObs             `json:"header_err,omitempty"`
	HeaderDone bool                `json:"header_done"`
	TrailerMD  map[string][]string `json:"trailer,omitempty"`
	// TrailerAgainDiffers: a second Trailer() call right after the first returned something else
	TrailerAgainDiffers string    `json:"trailer_again_differs,omitempty"`
	TrailerGot          bool      `json:"trailer_got"`
	Done                bool      `json:"done"`
	DoneAt              time.Time `json:"done_at"`
}

func (l *CLog) Snapshot() *CLog {
	l.mu.Lock()
	defer l.mu.Unlock()
	return &CLog{OpenErr: l.OpenErr, Sends: append([]SendObs{}, l.Sends...), CloseErr: l.CloseErr,
		Recv: append([][]byte{}, l.Recv...), RecvD: append([]string{}, l.RecvD...), RecvEnd: l.RecvEnd,
		RecvAfter: append([]ErrObs{}, l.RecvAfter...), HeaderMD: l.HeaderMD, HeaderErr: l.HeaderErr, HeaderDone: l.HeaderDone,
		TrailerMD: l.TrailerMD, TrailerGot: l.TrailerGot, TrailerAgainDiffers: l.TrailerAgainDiffers, Done: l.Done, DoneAt: l.DoneAt}
}

// RunClientOps interprets ops on an open stream. cancel is the caller's
// context cancel function (used by the "cancel" op).
func RunClientOps(ops []COp, cs grpc.ClientStream, cancel context.CancelFunc, log *CLog) {
	for _, op := range ops {
		switch op.Op {
		case "send":
			b := op.P.Bytes()
			err := SendBytes(cs, b)
			log.mu.Lock()
			log.Sends = append(log.Sends, SendObs{D: Digest(b), Err: Observe(err), b: b})
			log.mu.Unlock()
		case "close":
			err := cs.CloseSend()
			o := Observe(err)
			log.mu.Lock()
			log.CloseErr = &o
			log.mu.Unlock()
		case "recv":
			recvOne(cs, log)
		case "recvall":
			for i := 0; i < 100000; i++ {
				if !recvOne(cs, log) {
					break
				}
			}
		case "header":
			md, err := cs.Header()
			log.mu.Lock()
			log.HeaderDone = true
			if err != nil {
				o := Observe(err)
				log.HeaderErr = &o
			} else {
				log.HeaderMD = map[string][]string(md.Copy())
			}
			log.mu.Unlock()
		case "trailer":
			md := cs.Trailer()
			again := cs.Trailer() // asking twice is legal; the answer must be the same
			log.mu.Lock()
			log.TrailerGot = true
			log.TrailerMD = map[string][]string(md.Copy())
			if !reflect.DeepEqual(map[string][]string(md), map[string][]string(again)) && !(len(md) == 0 && len(again) == 0) {
				log.TrailerAgainDiffers = fmt.Sprintf("first %v, second %v", md, again)
			}
			log.mu.Unlock()
		case "cancel":
			cancel()
		case "sleep":
			time.Sleep(time.Duration(op.N) * time.Millisecond)
		}
	}
	log.mu.Lock()
	log.Done = true
	log.DoneAt = time.Now()
	log.mu.Unlock()
}

// recvOne performs one RecvMsg; returns false once an error was seen.
func recvOne(cs grpc.ClientStream, log *CLog) bool {
	b, err := RecvBytes(cs)
	log.mu.Lock()
	defer log.mu.Unlock()
	if err != nil {
		o := Observe(err)
		if log.RecvEnd == nil {
			log.RecvEnd = &o
		} else {
			log.RecvAfter = append(log.RecvAfter, o)
		}
		return false
	}
	if log.RecvEnd != nil {
		// data after an error: record as anomaly
		log.RecvAfter = append(log.RecvAfter, ErrObs{Nil: true, Raw: "DATA-AFTER-ERROR " + Digest(b)})
		return true
	}
	log.Recv = append(log.Recv, b)
	log.RecvD = append(log.RecvD, Digest(b))
	return true
}

// SplitOps separates a program into its sending half (send/close/cancel/sleep)
// and its receiving half (recv/recvall/header/trailer), for the
// one-sender-one-receiver concurrency the gRPC API permits.
func SplitOps(ops []COp) (snd, rcv []COp) {
	for _, o := range ops {
		switch o.Op {
		case "send", "close":
			snd = append(snd, o)
		default:
			rcv = append(rcv, o)
		}
	}
	return
}

// SortedKeys helps printing maps deterministically.
func SortedKeys[V any](m map[string]V) []string {
	ks := make([]string, 0, len(m))
	for k := range m {
		ks = append(ks, k)
	}
	sort.Strings(ks)
	return ks
}

// BytesEq compares two lists of byte strings.
func BytesEq(a, b [][]byte) bool {
	if len(a) != len(b) {
		return false
	}
	for i := range a {
		if string(a[i]) != string(b[i]) {
			return false
		}
	}
	return true
}

// IsPrefix reports whether a is a prefix of b.
func IsPrefix(a, b [][]byte) bool {
	if len(a) > len(b) {
		return false
	}
	for i := range a {
		if string(a[i]) != string(b[i]) {
			return false
		}
	}
	return true
}
