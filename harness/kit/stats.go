package kit

import (
	"encoding/json"
	"os"
	"sort"
	"sync"
)

// Stats is what one shard process reports to the driver.
type Stats struct {
	mu sync.Mutex

	Property    string         `json:"property"`
	Evaluations int            `json:"evaluations"`
	Labels      map[string]int `json:"labels"`
	// NonTrivial holds the 64-bit hashes of distinct non-trivial cases.
	NonTrivial map[uint64]struct{} `json:"-"`
	NTList     []uint64            `json:"nontrivial_hashes"`
	Samples    []any               `json:"samples"`
	Exhaustive []string            `json:"exhaustive,omitempty"` // names of sub-spaces enumerated completely
	Extra      map[string]int      `json:"extra,omitempty"`
	Known      []string            `json:"known_findings,omitempty"`
	maxSamples int
}

// CaseInfo is returned by each execution for bookkeeping.
type CaseInfo struct {
	Labels     []string
	NonTrivial bool
	Key        string // canonical identity of the case (hashed)
	Sample     any    // printable form (kept for a few cases)
}

var global = &Stats{Labels: map[string]int{}, NonTrivial: map[uint64]struct{}{}, Extra: map[string]int{}, maxSamples: 6}

// G returns the process-wide stats collector.
func G() *Stats { return global }

// Record adds one executed case.
func (s *Stats) Record(ci CaseInfo) {
	s.mu.Lock()
	defer s.mu.Unlock()
	s.Evaluations++
	for _, l := range ci.Labels {
		s.Labels[l]++
	}
	if ci.NonTrivial {
		h := Hash64(ci.Key)
		if _, ok := s.NonTrivial[h]; !ok {
			s.NonTrivial[h] = struct{}{}
			// keep the first few non-trivial cases as samples, plus a sparse selection later
			if ci.Sample != nil && (len(s.Samples) < s.maxSamples/2 || (len(s.Samples) < s.maxSamples && h%97 == 0)) {
				s.Samples = append(s.Samples, ci.Sample)
			}
		}
	}
}

// Count bumps a free-form counter.
func (s *Stats) Count(name string, n int) {
	s.mu.Lock()
	s.Extra[name] += n
	s.mu.Unlock()
}

// MarkExhaustive records that a finite sub-space was enumerated completely.
func (s *Stats) MarkExhaustive(name string) {
	s.mu.Lock()
	s.Exhaustive = append(s.Exhaustive, name)
	s.mu.Unlock()
}

// KnownFinding records that a listed known finding reproduced.
func (s *Stats) KnownFinding(key string) {
	s.mu.Lock()
	for _, k := range s.Known {
		if k == key {
			s.mu.Unlock()
			return
		}
	}
	s.Known = append(s.Known, key)
	s.mu.Unlock()
}

// Flush writes the stats to $VERIF_STATS (if set).
func (s *Stats) Flush(property string) {
	path := os.Getenv("VERIF_STATS")
	if path == "" {
		return
	}
	s.mu.Lock()
	defer s.mu.Unlock()
	s.Property = property
	s.NTList = s.NTList[:0]
	for h := range s.NonTrivial {
		s.NTList = append(s.NTList, h)
	}
	sort.Slice(s.NTList, func(i, j int) bool { return s.NTList[i] < s.NTList[j] })
	data, err := json.Marshal(s)
	if err != nil {
		return
	}
	tmp := path + ".tmp"
	if os.WriteFile(tmp, data, 0o644) == nil {
		os.Rename(tmp, path)
	}
}

// WriteJSON writes v to path atomically.
func WriteJSON(path string, v any) error {
	data, err := json.MarshalIndent(v, "", " ")
	if err != nil {
		return err
	}
	tmp := path + ".tmp"
	if err := os.WriteFile(tmp, data, 0o644); err != nil {
		return err
	}
	return os.Rename(tmp, path)
}
