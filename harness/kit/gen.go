package kit

import (
	"strings"

	"pgregory.net/rapid"
)

// GenKey draws a metadata key from the gRPC key alphabet, in random letter
// case, never reserved ("grpc-" prefix / pseudo headers). bin selects a "-bin" key.
func GenKey(t *rapid.T, bin bool) string {
	k := rapid.StringMatching(`[a-zA-Z0-9_.][a-zA-Z0-9_.-]{0,7}`).Draw(t, "key")
	if strings.HasPrefix(strings.ToLower(k), "grpc-") {
		k = "x" + k
	}
	if bin {
		suf := rapid.SampledFrom([]string{"-bin", "-bin", "-BIN", "-Bin"}).Draw(t, "binsuffix")
		k += suf
	} else if strings.HasSuffix(strings.ToLower(k), "-bin") {
		k += "x"
	}
	return k
}

// GenMD draws 0..maxKeys keys with 1..4 values each, as a flat pair list in
// a drawn order (pairs of one key keep their relative order by construction
// of the model, which joins in list order).
func GenMD(t *rapid.T, maxKeys int) []KV { return GenMDPool(t, nil, maxKeys) }

// GenMDPool is GenMD with a per-RPC key pool: keys are reused across the
// metadata sets of one RPC (several SetHeader calls, request vs response), so
// that the order in which sets are joined becomes observable.
func GenMDPool(t *rapid.T, pool *[]string, maxKeys int) []KV {
	return genMDPool(t, pool, maxKeys, true)
}

// GenMDPoolFixedCase is GenMDPool with every key spelled the same way each
// time it is used: for hand-built metadata.MD maps, where two spellings of one
// key would be two map entries whose relative order is undefined.
func GenMDPoolFixedCase(t *rapid.T, pool *[]string, maxKeys int) []KV {
	return genMDPool(t, pool, maxKeys, false)
}

func genMDPool(t *rapid.T, pool *[]string, maxKeys int, recase bool) []KV {
	nk := rapid.IntRange(0, maxKeys).Draw(t, "nkeys")
	// now and then a wide set (dozens of values): nothing in gRPC bounds the number of entries, and a stage that
	// keeps only the first N of them would go unnoticed with a handful of keys
	wide := maxKeys >= 3 && rapid.IntRange(0, 15).Draw(t, "widemd") == 0
	if wide {
		nk = rapid.IntRange(9, 14).Draw(t, "nkeyswide")
	}
	var out []KV
	for i := 0; i < nk; i++ {
		var k string
		var bin bool
		if pool != nil && len(*pool) > 0 && rapid.Bool().Draw(t, "reusekey") {
			k = rapid.SampledFrom(*pool).Draw(t, "poolkey")
			bin = strings.HasSuffix(strings.ToLower(k), "-bin")
			if recase && rapid.Bool().Draw(t, "recasepool") {
				k = swapCase(k)
			}
		} else {
			bin = rapid.Bool().Draw(t, "bin")
			k = GenKey(t, bin)
			if !recase && pool != nil {
				// one spelling per key: reuse an existing spelling of the same lower-cased key
				for _, e := range *pool {
					if strings.EqualFold(e, k) {
						k = e
					}
				}
			}
			if pool != nil {
				*pool = append(*pool, k)
			}
		}
		nv := rapid.SampledFrom([]int{1, 1, 1, 2, 3, 4}).Draw(t, "nvals")
		if wide {
			nv = rapid.IntRange(3, 4).Draw(t, "nvalswide")
		}
		for j := 0; j < nv; j++ {
			var v []byte
			if bin {
				switch rapid.IntRange(0, 5).Draw(t, "binclass") {
				case 0:
					v = []byte{}
				case 1:
					v = []byte{0}
				case 2:
					v = []byte{0xff, 0xfe, 0x00, 0x80}
				case 3:
					v = Payload{Class: "rand", Len: rapid.IntRange(1, 1024).Draw(t, "binlen"), Seed: rapid.Uint64().Draw(t, "binseed")}.Bytes()
				default:
					v = rapid.SliceOfN(rapid.Byte(), 0, 12).Draw(t, "binval")
				}
			} else {
				v = []byte(rapid.StringMatching(`[ -~]{0,12}`).Draw(t, "val"))
			}
			// a repeated key in different letter case exercises lower-casing + per-key order
			kk := k
			if recase && j > 0 && rapid.Bool().Draw(t, "recase") {
				kk = swapCase(k)
			}
			out = append(out, KV{K: kk, V: v})
		}
	}
	return out
}

func swapCase(s string) string {
	b := []byte(s)
	for i, c := range b {
		switch {
		case c >= 'a' && c <= 'z':
			b[i] = c - 32
		case c >= 'A' && c <= 'Z':
			b[i] = c + 32
		}
	}
	return string(b)
}

// MDNonTrivial reports whether a metadata list exercises the interesting
// classes: non-UTF-8/NUL binary values, multi-valued keys.
func MDNonTrivial(kvs []KV) bool {
	seen := map[string]int{}
	for _, kv := range kvs {
		k := strings.ToLower(kv.K)
		seen[k]++
		if seen[k] >= 2 {
			return true
		}
		if strings.HasSuffix(k, "-bin") {
			for _, c := range kv.V {
				if c == 0 || c >= 0x80 {
					return true
				}
			}
		}
	}
	return false
}

// GenErrSpec draws a handler return value. okBias in [0,100] is the
// percentage of nil returns.
func GenErrSpec(t *rapid.T, okBias int) ErrSpec {
	if rapid.IntRange(0, 99).Draw(t, "ok") < okBias {
		return ErrSpec{Kind: "nil"}
	}
	kind := rapid.SampledFrom([]string{"status", "status", "status", "wrapped", "plain", "canceled", "deadline", "okstatus", "eof", "wrapped-eof"}).Draw(t, "errkind")
	e := ErrSpec{Kind: kind}
	switch kind {
	case "okstatus":
		e.Msg = "weird " + rapid.StringMatching(`[a-z]{1,8}`).Draw(t, "msg")
	case "plain":
		e.Msg = "plain failure " + rapid.StringMatching(`[a-z]{1,8}`).Draw(t, "msg")
	case "status", "wrapped":
		e.Code = uint32(rapid.SampledFrom([]int{1, 2, 3, 4, 5, 6, 7, 8, 9, 10, 11, 12, 13, 14, 15, 16, 0, 99}).Draw(t, "code"))
		if kind == "wrapped" && e.Code == 0 {
			e.Code = 13
		}
		switch rapid.IntRange(0, 4).Draw(t, "msgclass") {
		case 0:
			e.Msg = ""
		case 1:
			e.Msg = rapid.StringMatching(`[ -~]{1,20}`).Draw(t, "msg")
		case 2:
			e.Msg = "ünïcödé ✓ 世界 " + rapid.StringMatching(`[a-z]{0,5}`).Draw(t, "msg")
		case 3:
			e.Msg, e.Rep = rapid.StringMatching(`[a-z]{4}`).Draw(t, "msg"), 1024
		default:
			// long messages, around and beyond 16 KiB and 64 KiB, ASCII or multi-byte
			e.Msg = rapid.SampledFrom([]string{"abcd", "wxyz", "世é✓a"}).Draw(t, "msg")
			e.Rep = rapid.SampledFrom([]int{4095, 4096, 4097, 16384, 70000}).Draw(t, "rep")
		}
		nd := rapid.IntRange(0, 3).Draw(t, "ndetails")
		for i := 0; i < nd; i++ {
			d := Detail{Kind: rapid.SampledFrom([]string{"str", "int", "dur", "nested"}).Draw(t, "dkind")}
			d.S = rapid.StringMatching(`[a-zé]{0,10}`).Draw(t, "ds")
			d.N = rapid.Int64Range(-1000000, 1000000).Draw(t, "dn")
			if rapid.IntRange(0, 7).Draw(t, "dbig") == 0 {
				// a detail of several KiB (nothing bounds the size of a status detail)
				d.S, d.Rep = d.S+"d", rapid.SampledFrom([]int{700, 3000, 9000, 40000}).Draw(t, "drep")
			}
			e.Details = append(e.Details, d)
		}
	}
	return e
}

// GenOpts shapes GenStreamConv.
type GenOpts struct {
	MaxMsgs    int  // upper bound for message counts per direction (<= 200)
	MaxPayload int  // bytes
	WithMD     bool // generate request metadata, headers and trailers
	OKBias     int  // percent of handlers returning nil
	Clients    int
}

func genCount(t *rapid.T, label string, max int) int {
	hi := rapid.SampledFrom([]int{0, 1, 2, 10, 10, 200}).Draw(t, label+"class")
	if hi > max {
		hi = max
	}
	lo := 0
	switch hi {
	case 10:
		lo = 3
	case 200:
		lo = 11
	default:
		lo = hi
	}
	if lo > hi {
		lo = hi
	}
	return rapid.IntRange(lo, hi).Draw(t, label)
}

// merge interleaves na 'a' items and nb 'b' items according to a template.
func merge(t *rapid.T, tmpl string, na, nb int, a, b byte) []byte {
	out := make([]byte, 0, na+nb)
	switch tmpl {
	case "afirst":
		for i := 0; i < na; i++ {
			out = append(out, a)
		}
		for i := 0; i < nb; i++ {
			out = append(out, b)
		}
	case "bfirst":
		for i := 0; i < nb; i++ {
			out = append(out, b)
		}
		for i := 0; i < na; i++ {
			out = append(out, a)
		}
	case "alt":
		i, j := 0, 0
		for i < na || j < nb {
			if i < na {
				out = append(out, a)
				i++
			}
			if j < nb {
				out = append(out, b)
				j++
			}
		}
	default: // random
		i, j := 0, 0
		for i < na || j < nb {
			pickA := j >= nb || (i < na && rapid.Bool().Draw(t, "merge"))
			if pickA {
				out = append(out, a)
				i++
			} else {
				out = append(out, b)
				j++
			}
		}
	}
	return out
}

// handlerAvail simulates the handler program on unbounded queues: given how
// many messages the caller has sent and whether it half-closed, how many
// responses exist, whether response headers are out, and whether the handler returned.
func handlerAvail(ops []HOp, sent int, closed bool) (msgs int, hdr bool, returned bool) {
	consumed := 0
	for _, op := range ops {
		switch op.Op {
		case "send":
			msgs++
			hdr = true
		case "sendhdr":
			hdr = true
		case "recv":
			if consumed < sent {
				consumed++
			} else if closed {
				// observes EOF
			} else {
				return msgs, hdr, false
			}
		}
	}
	return msgs, true, true
}

// GenStreamConv draws one fault-free streaming conversation. The two programs
// are projections of a joint schedule in which every blocking receive has a
// message (or end-of-stream) to receive, so on FIFO transports the pair cannot
// deadlock by construction (Kahn network argument).
func GenStreamConv(t *rapid.T, kind int, o GenOpts) Conv {
	cv := Conv{Kind: kind}
	if o.Clients > 1 {
		cv.Client = rapid.IntRange(0, o.Clients-1).Draw(t, "client")
	}
	nc := genCount(t, "nc", o.MaxMsgs)
	nh := genCount(t, "nh", o.MaxMsgs)
	if kind == KindServer {
		nc = 1 // generated code sends exactly one request, then half-closes
	}
	if kind == KindClient && nh > 1 {
		nh = 1 // SendAndClose
	}
	// how many receives the handler performs: nc+1 = reads until end-of-stream
	hr := nc + 1
	if rapid.IntRange(0, 3).Draw(t, "early") == 0 {
		hr = rapid.IntRange(0, nc).Draw(t, "hr") // returns before end-of-stream
	}
	htmpl := rapid.SampledFrom([]string{"alt", "bfirst", "afirst", "rand"}).Draw(t, "htmpl") // echo | burst | reply-after-EOF | random
	plan := merge(t, htmpl, hr, nh, 'r', 's')
	var hops []HOp
	for _, p := range plan {
		if p == 'r' {
			hops = append(hops, HOp{Op: "recv"})
		} else {
			pl := GenPayload(o.MaxPayload).Draw(t, "hmsg")
			hops = append(hops, HOp{Op: "send", P: &pl})
		}
	}
	if o.WithMD {
		pool := &[]string{}
		raw := rapid.IntRange(0, 3).Draw(t, "rawmd") == 0 // the handler builds its metadata.MD maps by hand, keys in any case
		GenMD := func(t *rapid.T, n int) []KV {
			if raw {
				return GenMDPoolFixedCase(t, pool, n)
			}
			return GenMDPool(t, pool, n)
		}
		cv.MD = GenMD(t, 6)
		defer func() {
			for i := range cv.H.Ops {
				if cv.H.Ops[i].MD != nil {
					cv.H.Ops[i].Raw = raw
				}
			}
		}()
		// header ops before the first send; optional explicit SendHeader; optional late SetHeader (must fail)
		firstSend := len(hops)
		for i, op := range hops {
			if op.Op == "send" {
				firstSend = i
				break
			}
		}
		nset := rapid.IntRange(0, 3).Draw(t, "nsethdr")
		var ins []struct {
			pos int
			op  HOp
		}
		for i := 0; i < nset; i++ {
			ins = append(ins, struct {
				pos int
				op  HOp
			}{rapid.IntRange(0, firstSend).Draw(t, "hdrpos"), HOp{Op: "sethdr", MD: GenMD(t, 4)}})
		}
		explicit := rapid.IntRange(0, 2).Draw(t, "sendhdr") == 0
		// insert in descending position order to keep indices valid; sendhdr goes last among header ops at its position
		for pos := firstSend; pos >= 0; pos-- {
			var here []HOp
			for _, x := range ins {
				if x.pos == pos {
					here = append(here, x.op)
				}
			}
			if pos == firstSend && explicit {
				here = append(here, HOp{Op: "sendhdr", MD: GenMD(t, 4)})
			}
			if len(here) > 0 {
				hops = append(hops[:pos], append(here, hops[pos:]...)...)
			}
		}
		if rapid.IntRange(0, 4).Draw(t, "latehdr") == 0 {
			hops = append(hops, HOp{Op: "sethdr", MD: []KV{{K: "late", V: []byte("x")}}})
		}
		ntrl := rapid.IntRange(0, 3).Draw(t, "nsettrl")
		for i := 0; i < ntrl; i++ {
			pos := rapid.IntRange(0, len(hops)).Draw(t, "trlpos")
			hops = append(hops[:pos], append([]HOp{{Op: "settrl", MD: GenMD(t, 4)}}, hops[pos:]...)...)
		}
	}
	cv.H = HProg{Ops: hops, Ret: GenErrSpec(t, o.OKBias)}

	// caller program by joint simulation
	ctmpl := rapid.SampledFrom([]string{"sendall", "pingpong", "rand", "lateclose"}).Draw(t, "ctmpl")
	cv.Concurrent = rapid.IntRange(0, 3).Draw(t, "concurrent") == 0
	wantHeader := rapid.Bool().Draw(t, "callheader")
	sent, recvd, closed, headerDone := 0, 0, false, false
	var cops []COp
	for !closed {
		msgs, hdr, _ := handlerAvail(hops, sent, closed)
		canRecv := msgs > recvd
		if wantHeader && !headerDone && hdr && rapid.Bool().Draw(t, "hdrnow") {
			cops = append(cops, COp{Op: "header"})
			headerDone = true
			continue
		}
		doRecv := false
		switch ctmpl {
		case "sendall":
			doRecv = false
		case "pingpong":
			doRecv = canRecv
		case "lateclose":
			doRecv = canRecv && sent == nc
		default:
			doRecv = canRecv && rapid.Bool().Draw(t, "recvnow")
		}
		if doRecv {
			cops = append(cops, COp{Op: "recv"})
			recvd++
			continue
		}
		if sent < nc {
			pl := GenPayload(o.MaxPayload).Draw(t, "cmsg")
			cops = append(cops, COp{Op: "send", P: &pl})
			sent++
		} else {
			cops = append(cops, COp{Op: "close"})
			closed = true
		}
	}
	if wantHeader && !headerDone {
		cops = append(cops, COp{Op: "header"})
	}
	cops = append(cops, COp{Op: "recvall"}, COp{Op: "trailer"})
	if rapid.IntRange(0, 4).Draw(t, "recvagain") == 0 {
		cops = append(cops, COp{Op: "recv"}) // a receive after the end must report the same end, not block
	}
	cv.COps = cops
	return cv
}

// GenUnaryConv draws a unary conversation.
func GenUnaryConv(t *rapid.T, o GenOpts) Conv {
	cv := Conv{Kind: KindUnary}
	if o.Clients > 1 {
		cv.Client = rapid.IntRange(0, o.Clients-1).Draw(t, "client")
	}
	cv.Req = GenPayload(o.MaxPayload).Draw(t, "req")
	cv.Reply = GenPayload(o.MaxPayload).Draw(t, "reply")
	cv.UErr = GenErrSpec(t, o.OKBias)
	if o.WithMD {
		pool := &[]string{}
		raw := rapid.IntRange(0, 3).Draw(t, "rawmd") == 0
		GenMD := func(t *rapid.T, n int) []KV {
			if raw {
				return GenMDPoolFixedCase(t, pool, n)
			}
			return GenMDPool(t, pool, n)
		}
		cv.MD = GenMD(t, 6)
		n := rapid.IntRange(0, 3).Draw(t, "nuops")
		for i := 0; i < n; i++ {
			op := rapid.SampledFrom([]string{"sethdr", "sethdr", "settrl", "settrl", "sendhdr"}).Draw(t, "uop")
			cv.UOps = append(cv.UOps, HOp{Op: op, MD: GenMD(t, 4), Raw: raw})
		}
	}
	return cv
}

// GenConvs draws 1..maxConvs conversations of mixed kinds.
func GenConvs(t *rapid.T, maxConvs int, kinds []int, o GenOpts) []Conv {
	nclass := rapid.SampledFrom([]int{1, 2, 4, 8, maxConvs}).Draw(t, "nconvclass")
	if nclass > maxConvs {
		nclass = maxConvs
	}
	n := rapid.IntRange(1, nclass).Draw(t, "nconvs")
	// bound the total work of a case: many streams => fewer messages each
	if n > 8 && o.MaxMsgs > 10 {
		o.MaxMsgs = 10
	}
	if n > 4 && o.MaxPayload > 4096 {
		o.MaxPayload = 4096
	}
	var out []Conv
	for i := 0; i < n; i++ {
		k := rapid.SampledFrom(kinds).Draw(t, "kind")
		if k == KindUnary {
			out = append(out, GenUnaryConv(t, o))
		} else {
			out = append(out, GenStreamConv(t, k, o))
		}
	}
	return out
}
