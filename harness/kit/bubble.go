package kit

import (
	"fmt"
	"os"
	"regexp"
	"runtime"
	"strings"
	"testing"
	"testing/synctest"
	"time"

	"github.com/rs/zerolog"
)

func init() {
	// goat logs every stream at Info; silence it (log.Panic still panics).
	zerolog.SetGlobalLevel(zerolog.Disabled)
}

// WedgeExitCode is the process exit status used when the real-time watchdog
// finds a case that neither finishes nor becomes durably blocked.
const WedgeExitCode = 3

// RunResult describes how a bubble ended.
type RunResult struct {
	// Leaked holds the stacks of goroutines that were still alive in the
	// bubble when its main function returned (empty = clean).
	Leaked []string
	// Panic is a panic raised on the bubble's main goroutine (harness or goat
	// code called synchronously); nil if none.
	Panic any
	Stack string
}

// WatchdogSeconds is the real-time budget of one case.
var WatchdogSeconds = 20

// Journal, if set, is called with the goroutine dump when the watchdog fires,
// before the process exits.
var Journal func(dump string)

// Bubble runs f inside a synctest bubble with a real-time watchdog.
// f must do all of its work through channels/timers created inside.
func Bubble(t *testing.T, f func()) (res RunResult) {
	wd := time.AfterFunc(time.Duration(WatchdogSeconds)*time.Second, func() {
		buf := make([]byte, 8<<20)
		n := runtime.Stack(buf, true)
		dump := string(buf[:n])
		time.Sleep(time.Second)
		buf2 := make([]byte, 8<<20)
		n2 := runtime.Stack(buf2, true)
		sig1, idle1 := bubbleSignature(dump)
		sig2, idle2 := bubbleSignature(string(buf2[:n2]))
		definitive := sig1 == sig2 && idle1 && idle2
		if Journal != nil {
			Journal(dump)
		}
		if definitive && clockStalledIn(dump) {
			// A goroutine queueing for a mutex is not "durably blocked", so the bubble's clock stands still while it
			// waits - and with it every sleeper and timer of the case. In real time those would fire and the mutex
			// might well be released: the case shows nothing about the library, the bubble simply cannot run it.
			definitive = false
			fmt.Fprintf(os.Stdout, "\nVERIF-CLOCK-STALL: a goroutine queues for a mutex while others sleep: virtual time cannot pass; no verdict\n")
		}
		if definitive {
			// two identical dumps one second apart, every bubble goroutine parked
			// on a channel, select or mutex: a deadlock, not a slow machine
			fmt.Fprintf(os.Stdout, "\nVERIF-WEDGE-DEFINITIVE: all goroutines of the case are blocked (channel/select/mutex) and nothing changed within 1s\n")
		}
		fmt.Fprintf(os.Stdout, "\nVERIF-WEDGE: case did not finish or quiesce within %ds of real time\n", WatchdogSeconds)
		os.Exit(WedgeExitCode)
	})
	defer wd.Stop()
	var cands []string
	defer func() {
		if r := recover(); r != nil {
			if s := fmt.Sprint(r); strings.Contains(s, "blocked goroutines remain") {
				res.Leaked = cands
				if len(res.Leaked) == 0 {
					res.Leaked = []string{s}
				}
				return
			}
			res.Panic = r
			buf := make([]byte, 64<<10)
			res.Stack = string(buf[:runtime.Stack(buf, false)])
			if strings.Contains(fmt.Sprint(r), "all goroutines in bubble are blocked") {
				// a durable deadlock of the case: say who waits where
				res.Stack = strings.Join(StackSites(allBubbleStacks()), "\n")
			}
		}
	}()
	synctest.Test(t, func(*testing.T) {
		defer func() {
			if r := recover(); r != nil {
				res.Panic = r
				buf := make([]byte, 64<<10)
				res.Stack = string(buf[:runtime.Stack(buf, false)])
			}
		}()
		f()
		synctest.Wait()
		cands = LiveInBubble()
	})
	return res
}

// Settle waits until every goroutine of the bubble is durably blocked.
func Settle() { synctest.Wait() }

// Sleep advances virtual time (only moves when everything else is idle).
func Sleep(d time.Duration) { time.Sleep(d) }

var hdrRe = regexp.MustCompile(`^goroutine (\d+) \[([^\]]*)\]`)
var bubbleRe = regexp.MustCompile(`synctest bubble (\d+)`)

// LiveInBubble returns the stacks of all goroutines, other than the caller,
// that belong to the caller's synctest bubble.
func LiveInBubble() []string {
	buf := make([]byte, 4<<20)
	n := runtime.Stack(buf, true)
	blocks := strings.Split(string(buf[:n]), "\n\n")
	if len(blocks) == 0 {
		return nil
	}
	// first block is the calling goroutine
	m := hdrRe.FindStringSubmatch(blocks[0])
	if m == nil {
		return nil
	}
	bm := bubbleRe.FindStringSubmatch(m[2])
	if bm == nil {
		return nil
	}
	mine := bm[1]
	var out []string
	for _, b := range blocks[1:] {
		h := hdrRe.FindStringSubmatch(b)
		if h == nil {
			continue
		}
		x := bubbleRe.FindStringSubmatch(h[2])
		if x != nil && x[1] == mine {
			out = append(out, b)
		}
	}
	return out
}

// StackSites reduces goroutine stacks to "top goat/harness frame" strings,
// for compact reports.
func StackSites(stacks []string) []string {
	var out []string
	for _, s := range stacks {
		lines := strings.Split(s, "\n")
		site := lines[0]
		for i := 1; i+1 < len(lines); i += 2 {
			fn := lines[i]
			if strings.Contains(fn, "avos-io/goat") || strings.Contains(fn, "verifharness") {
				site += " @ " + strings.TrimSpace(fn) + " " + strings.TrimSpace(lines[i+1])
				break
			}
		}
		out = append(out, site)
	}
	return out
}

// clockStalledIn reports whether, in the goroutine dump, some bubble goroutine waits non-durably (for a sync.Mutex or
// sync.RWMutex) while another one of the same bubble sleeps on the virtual clock.
func clockStalledIn(dump string) bool {
	waiter, sleeper := map[string]bool{}, map[string]bool{}
	for _, b := range strings.Split(dump, "\n\n") {
		h := hdrRe.FindStringSubmatch(b)
		if h == nil {
			continue
		}
		x := bubbleRe.FindStringSubmatch(h[2])
		if x == nil {
			continue
		}
		st := h[2]
		switch {
		case strings.HasPrefix(st, "sync.Mutex.Lock"), strings.HasPrefix(st, "sync.RWMutex"), strings.HasPrefix(st, "semacquire"):
			waiter[x[1]] = true
		case strings.HasPrefix(st, "sleep"):
			sleeper[x[1]] = true
		}
	}
	for id := range waiter {
		if sleeper[id] {
			return true
		}
	}
	return false
}

// MutexWaiters reports whether some other goroutine of the caller's bubble is queueing for a mutex right now (call it
// after Settle). While that lasts, virtual time cannot pass: a harness that wants to let time go by must not sleep then.
func MutexWaiters() bool {
	for _, b := range LiveInBubble() {
		h := hdrRe.FindStringSubmatch(b)
		if h == nil {
			continue
		}
		st := h[2]
		if strings.HasPrefix(st, "sync.Mutex.Lock") || strings.HasPrefix(st, "sync.RWMutex") || strings.HasPrefix(st, "semacquire") {
			return true
		}
	}
	return false
}

// bubbleSignature summarises the goroutines that belong to synctest bubbles:
// a string of (id, state, top frames) and whether all of them are blocked.
func bubbleSignature(dump string) (string, bool) {
	var sb strings.Builder
	idle := true
	for _, b := range strings.Split(dump, "\n\n") {
		h := hdrRe.FindStringSubmatch(b)
		if h == nil || !strings.Contains(h[2], "synctest bubble") {
			continue
		}
		st := h[2]
		if strings.HasPrefix(st, "running") || strings.HasPrefix(st, "runnable") || strings.HasPrefix(st, "syscall") {
			idle = false
		}
		lines := strings.Split(b, "\n")
		if len(lines) > 5 {
			lines = lines[:5]
		}
		// drop the "N minutes" wait-time decoration
		sb.WriteString(h[1] + "|" + strings.SplitN(st, ",", 2)[0] + "|" + strings.Join(lines[1:], "|") + "\n")
	}
	return sb.String(), idle
}

// allBubbleStacks returns the stacks of every goroutine that belongs to any synctest bubble.
func allBubbleStacks() []string {
	buf := make([]byte, 8<<20)
	n := runtime.Stack(buf, true)
	var out []string
	for _, b := range strings.Split(string(buf[:n]), "\n\n") {
		h := hdrRe.FindStringSubmatch(b)
		if h != nil && strings.Contains(h[2], "synctest bubble") {
			out = append(out, b)
		}
	}
	return out
}
