package kit

import (
	"crypto/sha256"
	"encoding/binary"
	"encoding/hex"
	"fmt"
	"hash/fnv"

	"pgregory.net/rapid"
)

// Payload is a compact, serialisable description of a byte string. Large
// payloads are expanded deterministically from Seed, so a case stays small
// when journalled and rapid does not have to draw every byte.
type Payload struct {
	Class string `json:"c"`           // empty | zero | ff | rand | proto | lit
	Len   int    `json:"n,omitempty"` // for zero/ff/rand/proto
	Seed  uint64 `json:"s,omitempty"`
	Lit   []byte `json:"l,omitempty"` // for lit
}

func splitmix(x *uint64) uint64 {
	*x += 0x9e3779b97f4a7c15
	z := *x
	z = (z ^ (z >> 30)) * 0xbf58476d1ce4e5b9
	z = (z ^ (z >> 27)) * 0x94d049bb133111eb
	return z ^ (z >> 31)
}

// Bytes expands the payload.
func (p Payload) Bytes() []byte {
	switch p.Class {
	case "", "empty":
		return []byte{}
	case "lit":
		return append([]byte{}, p.Lit...)
	case "zero":
		return make([]byte, p.Len)
	case "ff":
		b := make([]byte, p.Len)
		for i := range b {
			b[i] = 0xff
		}
		return b
	case "proto":
		// looks like a protobuf message: field 1 length-delimited, nested
		b := make([]byte, 0, p.Len+4)
		s := p.Seed
		for len(b) < p.Len {
			b = append(b, 0x0a, 0x02, byte(splitmix(&s)), byte(splitmix(&s)))
		}
		return b[:p.Len]
	default: // rand
		b := make([]byte, p.Len)
		s := p.Seed
		for i := 0; i < len(b); i += 8 {
			var w [8]byte
			binary.LittleEndian.PutUint64(w[:], splitmix(&s))
			copy(b[i:], w[:])
		}
		return b
	}
}

func (p Payload) String() string {
	if p.Class == "lit" {
		return fmt.Sprintf("lit(%x)", p.Lit)
	}
	return fmt.Sprintf("%s(%d,%d)", p.Class, p.Len, p.Seed)
}

// SizeClass buckets a length for label histograms.
func SizeClass(n int) string {
	switch {
	case n == 0:
		return "0"
	case n == 1:
		return "1"
	case n <= 64:
		return "<=64"
	case n <= 4096:
		return "<=4K"
	case n < 16384:
		return "<16K"
	default:
		return ">=16K"
	}
}

// GenPayload draws a payload up to maxLen bytes (maxLen >= 0).
func GenPayload(maxLen int) *rapid.Generator[Payload] {
	return rapid.Custom(func(t *rapid.T) Payload {
		class := rapid.SampledFrom([]string{"empty", "lit", "lit", "rand", "rand", "rand", "zero", "ff", "proto", "big"}).Draw(t, "class")
		if maxLen == 0 {
			class = "empty"
		}
		switch class {
		case "empty":
			return Payload{Class: "empty"}
		case "lit":
			n := 8
			if maxLen < n {
				n = maxLen
			}
			return Payload{Class: "lit", Lit: rapid.SliceOfN(rapid.Byte(), 0, n).Draw(t, "lit")}
		case "big":
			lo := 16384
			if maxLen < lo {
				lo = maxLen
			}
			return Payload{Class: "rand", Len: rapid.IntRange(lo, maxLen).Draw(t, "len"), Seed: rapid.Uint64().Draw(t, "seed")}
		default:
			// lengths biased to small, with the documented class boundaries
			hi := rapid.SampledFrom([]int{1, 64, 64, 4096, 4096, 65536}).Draw(t, "hi")
			if hi > maxLen {
				hi = maxLen
			}
			return Payload{Class: class, Len: rapid.IntRange(0, hi).Draw(t, "len"), Seed: rapid.Uint64().Draw(t, "seed")}
		}
	})
}

// Digest is a short printable fingerprint of a byte string.
func Digest(b []byte) string {
	h := sha256.Sum256(b)
	return fmt.Sprintf("%d:%s", len(b), hex.EncodeToString(h[:6]))
}

// Hash64 hashes a canonical string (case identity for distinct counting).
func Hash64(s string) uint64 {
	h := fnv.New64a()
	h.Write([]byte(s))
	return h.Sum64()
}
