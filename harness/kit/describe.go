package kit

import (
	"fmt"
	"strings"

	goat "github.com/avos-io/goat"
)

// Rpc is goat's envelope type.
type Rpc = goat.Rpc

// Shape renders which parts of an envelope are present, e.g. "H B(12) T S(5)".
func Shape(r *Rpc) string {
	var p []string
	if r.GetHeader() != nil {
		h := "H"
		if n := len(r.GetHeader().GetHeaders()); n > 0 {
			h += fmt.Sprintf("[%dkv]", n)
		}
		p = append(p, h)
	}
	if r.GetBody() != nil {
		p = append(p, fmt.Sprintf("B(%d)", len(r.GetBody().GetData())))
	}
	if r.GetStatus() != nil {
		p = append(p, fmt.Sprintf("S(%d)", r.GetStatus().GetCode()))
	}
	if r.GetTrailer() != nil {
		t := "T"
		if n := len(r.GetTrailer().GetMetadata()); n > 0 {
			t += fmt.Sprintf("[%dkv]", n)
		}
		p = append(p, t)
	}
	if r.GetReset_() != nil {
		p = append(p, "RST("+r.GetReset_().GetType()+")")
	}
	return strings.Join(p, " ")
}

// DescribeEv renders one tap event.
func DescribeEv(e Ev) string {
	d := "->"
	if e.Dir == BtoA {
		d = "<-"
	}
	return fmt.Sprintf("#%d %s %s id=%d %s m=%s %s>%s", e.Seq, e.Conn, d, e.Rpc.GetId(), Shape(e.Rpc),
		e.Rpc.GetHeader().GetMethod(), e.Rpc.GetHeader().GetSource(), e.Rpc.GetHeader().GetDestination())
}
