package kit

import (
	"context"

	goat "github.com/avos-io/goat"
	"google.golang.org/grpc"
	"google.golang.org/protobuf/types/known/wrapperspb"
)

// SvcName is the gRPC service every harness server registers.
const SvcName = "verif.Svc"

// FullMethod returns "/verif.Svc/<name>".
func FullMethod(name string) string { return "/" + SvcName + "/" + name }

// UnaryFn is a unary handler over raw bytes. A nil reply with a nil error
// means "empty message".
type UnaryFn func(ctx context.Context, req []byte) ([]byte, error)

// StreamFn is a streaming handler.
type StreamFn func(stream grpc.ServerStream) error

type streamDef struct {
	cs, ss bool
	fn     StreamFn
}

// Svc collects per-case handlers; every call of a case gets its own method
// name, so a handler knows which script it is running without relying on
// metadata or payload contents.
type Svc struct {
	unary   map[string]UnaryFn
	order   []string
	streams map[string]streamDef
	sorder  []string
}

func NewSvc() *Svc {
	return &Svc{unary: map[string]UnaryFn{}, streams: map[string]streamDef{}}
}

func (s *Svc) Unary(name string, f UnaryFn) {
	if _, ok := s.unary[name]; !ok {
		s.order = append(s.order, name)
	}
	s.unary[name] = f
}

func (s *Svc) Stream(name string, clientStreams, serverStreams bool, f StreamFn) {
	if _, ok := s.streams[name]; !ok {
		s.sorder = append(s.sorder, name)
	}
	s.streams[name] = streamDef{clientStreams, serverStreams, f}
}

// Desc builds the grpc.ServiceDesc, shaped exactly like protoc-gen-go-grpc output.
func (s *Svc) Desc() *grpc.ServiceDesc {
	sd := &grpc.ServiceDesc{ServiceName: SvcName, HandlerType: (*any)(nil), Metadata: "verif"}
	for _, name := range s.order {
		fn := s.unary[name]
		full := FullMethod(name)
		sd.Methods = append(sd.Methods, grpc.MethodDesc{
			MethodName: name,
			Handler: func(srv any, ctx context.Context, dec func(any) error, interceptor grpc.UnaryServerInterceptor) (any, error) {
				in := new(wrapperspb.BytesValue)
				if err := dec(in); err != nil {
					return nil, err
				}
				call := func(ctx context.Context, req any) (any, error) {
					out, err := fn(ctx, req.(*wrapperspb.BytesValue).GetValue())
					var reply *wrapperspb.BytesValue
					if err == nil || out != nil {
						reply = &wrapperspb.BytesValue{Value: out}
					}
					return reply, err
				}
				if interceptor == nil {
					return call(ctx, in)
				}
				info := &grpc.UnaryServerInfo{Server: srv, FullMethod: full}
				return interceptor(ctx, in, info, call)
			},
		})
	}
	for _, name := range s.sorder {
		d := s.streams[name]
		fn := d.fn
		sd.Streams = append(sd.Streams, grpc.StreamDesc{
			StreamName:    name,
			ClientStreams: d.cs,
			ServerStreams: d.ss,
			Handler:       func(srv any, stream grpc.ServerStream) error { return fn(stream) },
		})
	}
	return sd
}

// Register installs the service on a goat server.
func (s *Svc) Register(srv *goat.Server) { srv.RegisterService(s.Desc(), nil) }

// Invoke performs a unary call over raw bytes.
func Invoke(ctx context.Context, cc grpc.ClientConnInterface, name string, req []byte, opts ...grpc.CallOption) ([]byte, error) {
	out := new(wrapperspb.BytesValue)
	err := cc.Invoke(ctx, FullMethod(name), &wrapperspb.BytesValue{Value: req}, out, opts...)
	if err != nil {
		return nil, err
	}
	return out.GetValue(), nil
}

// InvokeInto is Invoke with a reply object supplied by the caller (an application may reuse one across calls).
func InvokeInto(ctx context.Context, cc grpc.ClientConnInterface, name string, req []byte, out *wrapperspb.BytesValue) ([]byte, error) {
	if err := cc.Invoke(ctx, FullMethod(name), &wrapperspb.BytesValue{Value: req}, out); err != nil {
		return nil, err
	}
	return out.GetValue(), nil
}

// StreamKind enumerates the three streaming shapes.
const (
	KindUnary  = 0
	KindClient = 1
	KindServer = 2
	KindBidi   = 3
)

var KindNames = []string{"unary", "client", "server", "bidi"}

// StreamDescFor returns the client-side descriptor for a kind.
func StreamDescFor(kind int) *grpc.StreamDesc {
	return &grpc.StreamDesc{
		StreamName:    "x",
		ClientStreams: kind == KindClient || kind == KindBidi,
		ServerStreams: kind == KindServer || kind == KindBidi,
	}
}

// SendBytes / RecvBytes wrap SendMsg/RecvMsg for raw byte payloads.
func SendBytes(s interface{ SendMsg(any) error }, b []byte) error {
	return s.SendMsg(&wrapperspb.BytesValue{Value: b})
}

func RecvBytes(s interface{ RecvMsg(any) error }) ([]byte, error) {
	m := new(wrapperspb.BytesValue)
	if err := s.RecvMsg(m); err != nil {
		return nil, err
	}
	return m.GetValue(), nil
}
