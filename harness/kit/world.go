package kit

import (
	"context"
	"fmt"
	"google.golang.org/grpc/stats"
	"sync"

	goat "github.com/avos-io/goat"
	"github.com/avos-io/goat/gen/goatorepo"
	"google.golang.org/grpc"
)

// Topo selects how clients reach the server.
type Topo struct {
	Kind      string `json:"kind"` // direct | demux | proxy
	Serialize bool   `json:"ser"`  // serialising transport (marshal/unmarshal) vs by-reference hand-over
	Clients   int    `json:"clients"`
	// Raw: do not attach goat ClientConns; the test drives end A of each link by hand (scripted caller).
	Raw bool `json:"raw,omitempty"`
	// Stats: a do-nothing stats.Handler is installed on the server and on every client connection (configuration
	// dimension: several code paths in goat only run when a stats handler is present)
	Stats bool `json:"stats,omitempty"`
	// Intercept: pass-through unary and stream interceptors are installed on the server and on every client connection
	// (only for tests that install none of their own)
	Intercept bool `json:"intercept,omitempty"`
	// Alias (proxy topology): the clients address the server under the name ServerAlias and the proxy's address-rewriting
	// callback turns that into ServerName (the "NAT or DNS like functionality" the proxy documents)
	Alias bool `json:"alias,omitempty"`
}

// ServerAlias is the name under which clients address the server when Topo.Alias is set.
const ServerAlias = "srv-alias"

func (t Topo) String() string {
	s := "byref"
	if t.Serialize {
		s = "ser"
	}
	return fmt.Sprintf("%s/%s/%d", t.Kind, s, t.Clients)
}

const ServerName = "srv"

func ClientName(i int) string { return fmt.Sprintf("c%d", i) }

// World is one assembled system under test.
type World struct {
	Topo   Topo
	Tap    *Tap
	Server *goat.Server
	// CC[i] is the i-th client connection; Links[i] its transport (end A is the client's).
	CC    []*goat.ClientConn
	Links []*Link
	// Shared is the server-side link in demux/proxy topologies (end B is the server side).
	Shared *Link
	Proxy  *goat.Proxy
	Demux  *goat.Demux

	ctx    context.Context
	cancel context.CancelFunc
	// serveCancels: per connection, the cancel function of the context handed to that connection's Server.Serve call
	serveCancels map[string]context.CancelFunc
	// serveCtx is the parent of those contexts (a child of ctx).
	serveCtx    context.Context
	serveCancel context.CancelFunc
	wg          sync.WaitGroup
	mu          sync.Mutex
	// ServeErrs collects the return values of Server.Serve, by connection name.
	ServeErrs map[string]error
	ServeDone map[string]bool
	// Disconnects are the proxy's disconnect callbacks.
	Disconnects []string
}

// NewWorld builds the topology. Must be called inside a bubble.
func NewWorld(topo Topo, svc *Svc, sopts []goat.ServerOption, dopts []goat.DialOption) *World {
	if topo.Clients < 1 {
		topo.Clients = 1
	}
	if topo.Stats {
		sopts = append(append([]goat.ServerOption{}, sopts...), goat.StatsHandler(NopStats{}))
		dopts = append(append([]goat.DialOption{}, dopts...), goat.WithStatsHandler(NopStats{}))
	}
	if topo.Intercept {
		so, do := PassThroughInterceptors()
		sopts = append(append([]goat.ServerOption{}, sopts...), so...)
		dopts = append(append([]goat.DialOption{}, dopts...), do...)
	}
	w := &World{Topo: topo, Tap: NewTap(), ServeErrs: map[string]error{}, ServeDone: map[string]bool{}}
	w.ctx, w.cancel = context.WithCancel(context.Background())
	w.serveCtx, w.serveCancel = context.WithCancel(w.ctx)
	w.Server = goat.NewServer(ServerName, sopts...)
	svc.Register(w.Server)

	serve := func(name string, rw goat.RpcReadWriter) {
		w.wg.Add(1)
		cctx, ccancel := context.WithCancel(w.serveCtx) // every Serve call gets a context of its own
		w.mu.Lock()
		if w.serveCancels == nil {
			w.serveCancels = map[string]context.CancelFunc{}
		}
		w.serveCancels[name] = ccancel
		w.mu.Unlock()
		go func() {
			defer w.wg.Done()
			// (cctx is NOT cancelled when Serve returns: whether the handlers' contexts end with the connection is the
			// library's business - C10 - and must not be done for it by the harness; Shutdown cancels the parent)
			err := w.Server.Serve(cctx, rw)
			w.mu.Lock()
			w.ServeErrs[name] = err
			w.ServeDone[name] = true
			w.mu.Unlock()
		}()
	}

	for i := 0; i < topo.Clients; i++ {
		l := NewLink(ClientName(i), w.Tap, topo.Serialize)
		w.Links = append(w.Links, l)
	}

	switch topo.Kind {
	case "direct":
		for i, l := range w.Links {
			serve(ClientName(i), l.B)
		}
	case "demux":
		w.Shared = NewLink("shared", w.Tap, topo.Serialize)
		// harness fan-in: client links -> shared link, and back by destination
		for _, l := range w.Links {
			l := l
			go func() {
				for {
					rpc, err := l.B.Read(w.ctx)
					if err != nil {
						return
					}
					if w.Shared.A.Write(w.ctx, rpc) != nil {
						return
					}
				}
			}()
		}
		go func() {
			for {
				rpc, err := w.Shared.A.Read(w.ctx)
				if err != nil {
					return
				}
				for i, l := range w.Links {
					if rpc.GetHeader().GetDestination() == ClientName(i) {
						_ = l.B.Write(w.ctx, rpc)
					}
				}
			}
		}()
		w.startDemux(serve)
	case "proxy":
		var rewrite goat.RpcIntercepter
		if topo.Alias {
			rewrite = func(h *goatorepo.RequestHeader) error {
				if h.Destination == ServerAlias {
					h.Destination = ServerName
				}
				return nil
			}
		}
		w.Shared = NewLink("shared", w.Tap, topo.Serialize)
		w.Proxy = goat.NewProxy(w.ctx, "px",
			func(id string) (goat.RpcReadWriter, error) {
				if id == ServerName {
					return w.Shared.A, nil
				}
				return nil, fmt.Errorf("unknown peer %q", id)
			},
			rewrite,
			func(id string, reason error) {
				w.mu.Lock()
				w.Disconnects = append(w.Disconnects, id)
				w.mu.Unlock()
			})
		for i, l := range w.Links {
			w.Proxy.AddClient(ClientName(i), l.B)
		}
		go w.Proxy.Serve()
		w.startDemux(serve)
	default:
		panic("unknown topology " + topo.Kind)
	}

	if !topo.Raw {
		for i, l := range w.Links {
			dest := ServerName
			if topo.Alias && topo.Kind == "proxy" {
				dest = ServerAlias
			}
			w.CC = append(w.CC, goat.NewClientConn(l.A, ClientName(i), dest, dopts...))
		}
	}
	return w
}

func (w *World) startDemux(serve func(string, goat.RpcReadWriter)) {
	n := 0
	w.Demux = goat.NewDemux(w.ctx, w.Shared.B,
		func(rpc *goat.Rpc) string { return rpc.GetHeader().GetSource() },
		func(rw goat.RpcReadWriter) {
			w.mu.Lock()
			n++
			name := fmt.Sprintf("demux%d", n)
			w.mu.Unlock()
			serve(name, rw)
		})
	go w.Demux.Run()
}

// Conn returns the i-th client connection as the gRPC interface.
func (w *World) Conn(i int) grpc.ClientConnInterface { return w.CC[i%len(w.CC)] }

// Shutdown stops everything: server, proxy/demux contexts and all links.
func (w *World) Shutdown() {
	w.Server.Stop()
	if w.Demux != nil {
		w.Demux.Stop()
	}
	w.cancel()
	for _, l := range w.Links {
		l.Close()
	}
	if w.Shared != nil {
		w.Shared.Close()
	}
}

// ServeResult reports whether Serve for a connection has returned.
func (w *World) ServeResult(name string) (bool, error) {
	w.mu.Lock()
	defer w.mu.Unlock()
	return w.ServeDone[name], w.ServeErrs[name]
}

// CancelServeCtx cancels the contexts that were passed to Server.Serve (all connections).
func (w *World) CancelServeCtx() { w.serveCancel() }

// CancelServeCtxOf cancels the context that was passed to Server.Serve for one connection only.
func (w *World) CancelServeCtxOf(name string) {
	w.mu.Lock()
	f := w.serveCancels[name]
	w.mu.Unlock()
	if f != nil {
		f()
	}
}

// NopStats is a stats.Handler that does nothing.
type NopStats struct{}

func (NopStats) TagRPC(ctx context.Context, _ *stats.RPCTagInfo) context.Context   { return ctx }
func (NopStats) HandleRPC(context.Context, stats.RPCStats)                         {}
func (NopStats) TagConn(ctx context.Context, _ *stats.ConnTagInfo) context.Context { return ctx }
func (NopStats) HandleConn(context.Context, stats.ConnStats)                       {}

// PassThroughInterceptors returns server and client options installing interceptors that change nothing.
func PassThroughInterceptors() ([]goat.ServerOption, []goat.DialOption) {
	so := []goat.ServerOption{
		goat.UnaryInterceptor(func(ctx context.Context, req any, _ *grpc.UnaryServerInfo, h grpc.UnaryHandler) (any, error) {
			return h(ctx, req)
		}),
		goat.StreamInterceptor(func(srv any, ss grpc.ServerStream, _ *grpc.StreamServerInfo, h grpc.StreamHandler) error {
			return h(srv, ss)
		}),
	}
	do := []goat.DialOption{
		goat.WithUnaryInterceptor(func(ctx context.Context, m string, req, reply any, cc *grpc.ClientConn, inv grpc.UnaryInvoker, opts ...grpc.CallOption) error {
			return inv(ctx, m, req, reply, cc, opts...)
		}),
		goat.WithStreamInterceptor(func(ctx context.Context, d *grpc.StreamDesc, cc *grpc.ClientConn, m string, st grpc.Streamer, opts ...grpc.CallOption) (grpc.ClientStream, error) {
			return st(ctx, d, cc, m, opts...)
		}),
	}
	return so, do
}
