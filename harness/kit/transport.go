// Package kit is the shared machinery of the goat verification harness:
// an instrumented in-memory transport (wire tap, write gates, fault
// injection), a synctest bubble runner, payload/metadata/script data types,
// generators and evidence bookkeeping.
package kit

import (
	"context"
	"errors"
	"fmt"
	"io"
	"net"
	"os"
	"sync"
	"sync/atomic"
	"time"

	goat "github.com/avos-io/goat"
	"google.golang.org/protobuf/proto"
)

// Dir of an envelope on a Link.
const (
	AtoB = 0 // written on end A, read on end B (client -> server by convention)
	BtoA = 1
)

// Ev is one envelope that was put on the wire (i.e. left a Write call and was
// queued for the peer's Read).
type Ev struct {
	Seq  int
	Conn string
	Dir  int
	Rpc  *goat.Rpc // private clone
	At   time.Duration
}

// Tap is a totally ordered log of all envelopes of all links that share it.
type Tap struct {
	mu    sync.Mutex
	start time.Time
	evs   []Ev
}

func NewTap() *Tap { return &Tap{start: time.Now()} }

func (t *Tap) add(conn string, dir int, rpc *goat.Rpc) {
	c := proto.Clone(rpc).(*goat.Rpc)
	t.mu.Lock()
	t.evs = append(t.evs, Ev{Seq: len(t.evs), Conn: conn, Dir: dir, Rpc: c, At: time.Since(t.start)})
	t.mu.Unlock()
}

// Snapshot returns a copy of the log so far.
func (t *Tap) Snapshot() []Ev {
	t.mu.Lock()
	defer t.mu.Unlock()
	out := make([]Ev, len(t.evs))
	copy(out, t.evs)
	return out
}

func (t *Tap) Len() int {
	t.mu.Lock()
	defer t.mu.Unlock()
	return len(t.evs)
}

// Filter returns the events of one connection and direction.
func Filter(evs []Ev, conn string, dir int) []Ev {
	var out []Ev
	for _, e := range evs {
		if e.Conn == conn && e.Dir == dir {
			out = append(out, e)
		}
	}
	return out
}

// FaultErrKinds are the error values a failing transport may plausibly return; injected faults use ErrInjected unless
// SetFaultErr chose another one. io.EOF and friends matter because goat uses io.EOF as its own "clean end" signal.
var FaultErrKinds = []string{"injected", "injected", "eof", "wrapped-eof", "unexpected-eof", "closed-pipe", "net-closed", "canceled", "deadline"}

// FaultErr returns the error value for a kind of FaultErrKinds.
func FaultErr(kind string) error {
	switch kind {
	case "eof":
		return io.EOF
	case "wrapped-eof":
		return fmt.Errorf("read tcp 10.0.0.1:443: %w", io.EOF)
	case "unexpected-eof":
		return io.ErrUnexpectedEOF
	case "closed-pipe":
		return io.ErrClosedPipe
	case "net-closed":
		return net.ErrClosed
	case "canceled":
		return context.Canceled
	case "deadline":
		return os.ErrDeadlineExceeded
	}
	return ErrInjected
}

// SetFaultErr chooses the error value of every fault injected on this end from now on (nil = ErrInjected).
func (e *End) SetFaultErr(err error) {
	e.mu.Lock()
	e.faultErr = err
	e.mu.Unlock()
}

func (e *End) faultErrLocked() error {
	if e.faultErr != nil {
		return e.faultErr
	}
	return ErrInjected
}

// ErrInjected is the error returned by injected transport faults.
var ErrInjected = errors.New("verif: injected transport failure")

// HeldWrite is a Write call parked at a gate.
type HeldWrite struct {
	End     *End
	Rpc     *goat.Rpc // the envelope being written (do not mutate)
	release chan struct{}
	once    sync.Once
	seq     int
}

// Release lets the held write proceed (idempotent).
func (h *HeldWrite) Release() { h.once.Do(func() { close(h.release) }) }

// Link is a reliable, ordered, unbounded in-memory duplex connection.
type Link struct {
	Name      string
	Tap       *Tap
	Serialize bool // marshal/unmarshal each envelope (like websocket/pipe transports) instead of handing over the pointer
	A, B      *End

	mu      sync.Mutex
	held    []*HeldWrite
	heldSeq int
	// inflight[dir] holds envelopes whose Write has returned but whose
	// delivery the scheduler has not released yet (FIFO per direction).
	inflight [2][]flight
}

type flight struct {
	orig *goat.Rpc // as written (for the tap)
	out  *goat.Rpc // as delivered
}

// End is one side of a Link and implements goat.RpcReadWriter.
type End struct {
	link *Link
	dir  int // direction of this end's writes
	peer *End

	mu      sync.Mutex
	inbox   []*goat.Rpc
	notify  chan struct{}
	readErr error
	// faultErr, if set, replaces ErrInjected as the value of injected faults
	faultErr error
	// failReadAfter >= 0: once that many envelopes have been returned by
	// Read, every further Read fails.
	failReadAfter int
	reads         int
	// failWriteAt >= 0: the Write with that index (0-based) and all later
	// ones fail.
	failWriteAt int
	writes      int
	writeErr    error
	// hold decides which writes park at the gate.
	hold func(*goat.Rpc) bool
	// delay decides which writes return at once but are delivered only when
	// the scheduler releases them (per-direction FIFO order is preserved).
	delay func(*goat.Rpc) bool
	// failIf makes matching writes fail (the transport stays usable otherwise).
	failIf func(*goat.Rpc) bool
	// failAfter: see FailAfterDeliverIf
	failAfter func(*goat.Rpc) bool
	// IgnoreWriteCtx makes Write succeed even if ctx is already done.
	IgnoreWriteCtx bool
	// IgnoreReadCtx makes Read deaf to its context: it returns only with an envelope or a failure of the link.
	// Set it before the end is handed to the code under test.
	IgnoreReadCtx bool
}

// NewLink must be called inside the bubble that uses it.
func NewLink(name string, tap *Tap, serialize bool) *Link {
	l := &Link{Name: name, Tap: tap, Serialize: serialize}
	l.A = &End{link: l, dir: AtoB, notify: make(chan struct{}, 1), failReadAfter: -1, failWriteAt: -1}
	l.B = &End{link: l, dir: BtoA, notify: make(chan struct{}, 1), failReadAfter: -1, failWriteAt: -1}
	l.A.peer, l.B.peer = l.B, l.A
	if k := defaultFaultKind.Load(); k != nil && *k != "" {
		l.A.faultErr, l.B.faultErr = FaultErr(*k), FaultErr(*k)
	}
	return l
}

var defaultFaultKind atomic.Pointer[string]

// UseFaultKind makes every Link created from now on report its injected faults with the error value of that kind
// (kit.FaultErrKinds); the returned function restores the default. The kind is part of the case (a drawn value).
func UseFaultKind(kind string) (restore func()) {
	defaultFaultKind.Store(&kind)
	return func() { defaultFaultKind.Store(nil) }
}

func (e *End) wake() {
	select {
	case e.notify <- struct{}{}:
	default:
	}
}

// Read implements goat.RpcReadWriter.
func (e *End) Read(ctx context.Context) (*goat.Rpc, error) {
	for {
		e.mu.Lock()
		if e.readErr != nil {
			err := e.readErr
			e.mu.Unlock()
			e.wake() // let other parked readers see it too
			return nil, err
		}
		if e.failReadAfter >= 0 && e.reads >= e.failReadAfter {
			e.readErr = e.faultErrLocked()
			e.mu.Unlock()
			continue
		}
		if len(e.inbox) > 0 {
			r := e.inbox[0]
			e.inbox = e.inbox[1:]
			e.reads++
			more := len(e.inbox) > 0
			e.mu.Unlock()
			if more {
				e.wake()
			}
			return r, nil
		}
		e.mu.Unlock()
		if e.IgnoreReadCtx {
			// a transport whose Read only ends when data arrives or the connection fails (net.Conn without deadlines)
			<-e.notify
			continue
		}
		select {
		case <-e.notify:
		case <-ctx.Done():
			return nil, ctx.Err()
		}
	}
}

// Write implements goat.RpcReadWriter.
func (e *End) Write(ctx context.Context, rpc *goat.Rpc) error {
	if !e.IgnoreWriteCtx {
		if err := ctx.Err(); err != nil {
			return err
		}
	}
	e.mu.Lock()
	idx := e.writes
	e.writes++
	if e.writeErr != nil || (e.failWriteAt >= 0 && idx >= e.failWriteAt) {
		err := e.writeErr
		if err == nil {
			err = e.faultErrLocked()
		}
		e.mu.Unlock()
		return err
	}
	hold := e.hold
	failIf := e.failIf
	ferr := e.faultErrLocked()
	e.mu.Unlock()

	if failIf != nil && failIf(rpc) {
		return ferr
	}
	if hold != nil && hold(rpc) {
		hw := &HeldWrite{End: e, Rpc: rpc, release: make(chan struct{})}
		e.link.mu.Lock()
		e.link.heldSeq++
		hw.seq = e.link.heldSeq
		e.link.held = append(e.link.held, hw)
		e.link.mu.Unlock()
		var cerr error
		if e.IgnoreWriteCtx {
			<-hw.release
		} else {
			select {
			case <-hw.release:
			case <-ctx.Done():
				cerr = ctx.Err()
			}
		}
		e.link.mu.Lock()
		for i, h := range e.link.held {
			if h == hw {
				e.link.held = append(e.link.held[:i], e.link.held[i+1:]...)
				break
			}
		}
		e.link.mu.Unlock()
		if cerr != nil {
			return cerr
		}
		// a fault may have been armed while parked
		e.mu.Lock()
		werr := e.writeErr
		e.mu.Unlock()
		if werr != nil {
			return werr
		}
	}

	out := rpc
	if e.link.Serialize {
		data, err := proto.Marshal(rpc)
		if err != nil {
			return fmt.Errorf("verif transport: marshal: %w", err)
		}
		out = &goat.Rpc{}
		if err := proto.Unmarshal(data, out); err != nil {
			return fmt.Errorf("verif transport: unmarshal: %w", err)
		}
	}
	e.mu.Lock()
	delay := e.delay
	failAfter := e.failAfter
	ferr2 := e.faultErrLocked()
	e.mu.Unlock()
	var after error
	if failAfter != nil && failAfter(rpc) {
		after = ferr2
	}
	l := e.link
	l.mu.Lock()
	if (delay != nil && delay(rpc)) || len(l.inflight[e.dir]) > 0 {
		l.inflight[e.dir] = append(l.inflight[e.dir], flight{orig: proto.Clone(rpc).(*goat.Rpc), out: out})
		l.mu.Unlock()
		return after
	}
	e.deliver(rpc, out)
	l.mu.Unlock()
	return after
}

// deliver queues out for the peer's Read and records it on the tap (call with link.mu held).
func (e *End) deliver(orig, out *goat.Rpc) {
	p := e.peer
	p.mu.Lock()
	// tap under the receiver lock so tap order == delivery order
	if e.link.Tap != nil {
		e.link.Tap.add(e.link.Name, e.dir, orig)
	}
	p.inbox = append(p.inbox, out)
	p.mu.Unlock()
	p.wake()
}

// Delay installs the delayed-delivery predicate (nil removes it).
func (e *End) Delay(pred func(*goat.Rpc) bool) {
	e.mu.Lock()
	e.delay = pred
	e.mu.Unlock()
}

// InFlight returns how many envelopes written on end `dir` await release.
func (l *Link) InFlight(dir int) int {
	l.mu.Lock()
	defer l.mu.Unlock()
	return len(l.inflight[dir])
}

// PeekFlight returns the oldest undelivered envelope of a direction (nil if none).
func (l *Link) PeekFlight(dir int) *goat.Rpc {
	l.mu.Lock()
	defer l.mu.Unlock()
	if len(l.inflight[dir]) == 0 {
		return nil
	}
	return l.inflight[dir][0].orig
}

// ReleaseNext delivers the oldest delayed envelope of a direction.
func (l *Link) ReleaseNext(dir int) bool {
	l.mu.Lock()
	defer l.mu.Unlock()
	if len(l.inflight[dir]) == 0 {
		return false
	}
	f := l.inflight[dir][0]
	l.inflight[dir] = l.inflight[dir][1:]
	end := l.A
	if dir == BtoA {
		end = l.B
	}
	end.deliver(f.orig, f.out)
	return true
}

// Inject queues an envelope for this end's Read as if the peer had written it
// (used by scripted peers that do not go through Write gates).
func (e *End) Inject(rpc *goat.Rpc) { _ = e.peer.Write(context.Background(), rpc) }

// FailReads makes the current and all future Reads on this end fail.
func (e *End) FailReads(err error) {
	e.mu.Lock()
	if err == nil {
		err = e.faultErrLocked()
	}
	e.mu.Unlock()
	e.mu.Lock()
	if e.readErr == nil {
		e.readErr = err
	}
	e.mu.Unlock()
	e.wake()
}

// FailReadAfter arms a read failure after k delivered envelopes.
func (e *End) FailReadAfter(k int) {
	e.mu.Lock()
	e.failReadAfter = k
	e.mu.Unlock()
	e.wake()
}

// FailWrites makes all future Writes on this end fail.
func (e *End) FailWrites(err error) {
	e.mu.Lock()
	if err == nil {
		err = e.faultErrLocked()
	}
	e.mu.Unlock()
	e.mu.Lock()
	e.writeErr = err
	e.mu.Unlock()
}

// FailWriteAt arms a failure of the j-th (0-based) and later Writes.
func (e *End) FailWriteAt(j int) {
	e.mu.Lock()
	e.failWriteAt = j
	e.mu.Unlock()
}

// FailWriteIf makes every write matching pred fail (nil removes it).
func (e *End) FailWriteIf(pred func(*goat.Rpc) bool) {
	e.mu.Lock()
	e.failIf = pred
	e.mu.Unlock()
}

// FailAfterDeliverIf makes Write deliver a matching envelope to the peer and then report a failure all the same (a
// transport whose write went out but whose completion could not be confirmed); nil removes it.
func (e *End) FailAfterDeliverIf(pred func(*goat.Rpc) bool) {
	e.mu.Lock()
	e.failAfter = pred
	e.mu.Unlock()
}

// Hold installs the gate predicate (nil removes it; already parked writes stay parked).
func (e *End) Hold(pred func(*goat.Rpc) bool) {
	e.mu.Lock()
	e.hold = pred
	e.mu.Unlock()
}

// Reads returns how many envelopes Read has returned.
func (e *End) Reads() int {
	e.mu.Lock()
	defer e.mu.Unlock()
	return e.reads
}

// Pending returns how many envelopes are queued for Read.
func (e *End) Pending() int {
	e.mu.Lock()
	defer e.mu.Unlock()
	return len(e.inbox)
}

// Held returns the writes currently parked on this link (both ends), in arrival order.
func (l *Link) Held() []*HeldWrite {
	l.mu.Lock()
	defer l.mu.Unlock()
	out := make([]*HeldWrite, len(l.held))
	copy(out, l.held)
	return out
}

// HoldAll gates every write on both ends.
func (l *Link) HoldAll() {
	all := func(*goat.Rpc) bool { return true }
	l.A.Hold(all)
	l.B.Hold(all)
}

// DelayAll delays every write on both ends.
func (l *Link) DelayAll() {
	all := func(*goat.Rpc) bool { return true }
	l.A.Delay(all)
	l.B.Delay(all)
}

// ReleaseAll removes the gates and releases everything parked or in flight.
func (l *Link) ReleaseAll() {
	l.A.Hold(nil)
	l.B.Hold(nil)
	l.A.Delay(nil)
	l.B.Delay(nil)
	for l.ReleaseNext(AtoB) || l.ReleaseNext(BtoA) {
	}
	for _, h := range l.Held() {
		h.Release()
	}
}

// Close fails both directions (reads and writes) of the link.
func (l *Link) Close() {
	l.A.FailWrites(nil)
	l.B.FailWrites(nil)
	l.A.FailReads(nil)
	l.B.FailReads(nil)
	for _, h := range l.Held() {
		h.Release()
	}
}
