package kit

import "fmt"

// StreamFacts is what the protocol monitor needs to know about one RPC in
// addition to the tap: facts the history establishes and the wire cannot show.
type StreamFacts struct {
	Conn   string // client link name
	Client string // caller's name (source of requests)
	Server string // destination of requests
	// ReqDest, if set, is the name under which the client addresses the server on this connection (a proxy rewrites it
	// to Server on the way); responses still carry Server as their source
	ReqDest string
	ID      uint64
	Method  string
	Unary   bool
	// HandlerReturned: the handler ran and returned while the connection was alive.
	HandlerReturned bool
	// CallerReset: the caller's context ended (cancel/deadline) before the RPC completed.
	CallerReset bool
	// AllowLateClientEnvs: bodies/trailers of API calls racing with the cancel may
	// follow the reset (soundness rule of DESIGN §C06).
	AllowLateClientEnvs bool
	// ConnFailed: the connection was failed/stopped during the RPC (then a trailer may be missing).
	ConnFailed bool
}

func envParts(r *Rpc) (hdr, body, status, trailer, reset bool) {
	return r.GetHeader() != nil, r.GetBody() != nil, r.GetStatus() != nil, r.GetTrailer() != nil, r.GetReset_() != nil
}

// CheckWire runs the protocol automaton of property C06 over every
// per-(connection, id, direction) projection of the tap. It returns the list
// of violations (empty = conforming) and the number of projections checked
// and how many of them were non-trivial (>=4 envelopes, or a reset, or an early handler return).
func CheckWire(tap []Ev, facts []StreamFacts) (viol []string, projections int, nontrivial int) {
	bad := func(f string, a ...any) { viol = append(viol, fmt.Sprintf(f, a...)) }
	byKey := map[string]*StreamFacts{}
	for i := range facts {
		f := &facts[i]
		byKey[fmt.Sprintf("%s/%d", f.Conn, f.ID)] = f
	}
	// ids the server has received so far, per connection
	seenReq := map[string]bool{}
	type proj struct{ c2s, s2c []Ev }
	projs := map[string]*proj{}
	var order []string
	for _, e := range tap {
		k := fmt.Sprintf("%s/%d", e.Conn, e.Rpc.GetId())
		if _, known := byKey[k]; !known {
			// envelopes on links we have no facts for (shared/proxy links) are not projected
			if e.Dir == BtoA {
				if _, isClientLink := connHasFacts(byKey, e.Conn); isClientLink {
					bad("%s: server emitted an envelope for id %d which no call on this connection uses: %s", e.Conn, e.Rpc.GetId(), Shape(e.Rpc))
				}
			}
			continue
		}
		p := projs[k]
		if p == nil {
			p = &proj{}
			projs[k] = p
			order = append(order, k)
		}
		if e.Dir == AtoB {
			seenReq[k] = true
			p.c2s = append(p.c2s, e)
		} else {
			if !seenReq[k] {
				bad("%s: server emitted id %d before receiving it", e.Conn, e.Rpc.GetId())
			}
			p.s2c = append(p.s2c, e)
		}
	}
	for _, k := range order {
		f := byKey[k]
		p := projs[k]
		projections += 2
		nt := len(p.c2s) >= 4 || len(p.s2c) >= 4
		// ---- common header rules ----
		for _, e := range p.c2s {
			h := e.Rpc.GetHeader()
			if h == nil {
				bad("%s id %d c->s #%d: no header", f.Conn, f.ID, e.Seq)
				continue
			}
			reqDest := f.Server
			if f.ReqDest != "" {
				reqDest = f.ReqDest
			}
			if h.GetMethod() != f.Method || h.GetSource() != f.Client || h.GetDestination() != reqDest {
				bad("%s id %d c->s #%d: header (%s,%s>%s) differs from the stream's (%s,%s>%s)", f.Conn, f.ID, e.Seq, h.GetMethod(), h.GetSource(), h.GetDestination(), f.Method, f.Client, reqDest)
			}
		}
		for i, e := range p.s2c {
			h := e.Rpc.GetHeader()
			if h == nil {
				bad("%s id %d s->c #%d: no header", f.Conn, f.ID, e.Seq)
				continue
			}
			if h.GetMethod() != f.Method || h.GetSource() != f.Server || h.GetDestination() != f.Client {
				bad("%s id %d s->c #%d: header (%s,%s>%s) is not the request's with source and destination swapped (%s,%s>%s)", f.Conn, f.ID, e.Seq, h.GetMethod(), h.GetSource(), h.GetDestination(), f.Method, f.Server, f.Client)
			}
			if i > 0 && len(h.GetHeaders()) > 0 {
				bad("%s id %d s->c #%d: response metadata on a non-first response envelope", f.Conn, f.ID, e.Seq)
			}
		}
		if f.Unary {
			// exactly one request: header + body
			if len(p.c2s) != 1 {
				bad("%s id %d: unary call put %d request envelopes on the wire", f.Conn, f.ID, len(p.c2s))
			} else {
				_, b, s, t, r := envParts(p.c2s[0].Rpc)
				if !b || s || t || r {
					bad("%s id %d: unary request shape is %q, want header+body only", f.Conn, f.ID, Shape(p.c2s[0].Rpc))
				}
			}
			if f.HandlerReturned && !f.ConnFailed {
				if len(p.s2c) != 1 {
					bad("%s id %d: unary call got %d response envelopes", f.Conn, f.ID, len(p.s2c))
				}
			}
			for _, e := range p.s2c {
				_, b, s, t, r := envParts(e.Rpc)
				nonOK := s && e.Rpc.GetStatus().GetCode() != 0
				if r || !t || !(b || nonOK) {
					bad("%s id %d: unary response shape is %q, want header+trailer+(body|non-OK status)", f.Conn, f.ID, Shape(e.Rpc))
				}
			}
			if nt {
				nontrivial++
			}
			continue
		}
		// ---- client -> server stream: OPEN BODY* TRAILER? RESET? ----
		state := "start"
		for i, e := range p.c2s {
			_, b, s, t, r := envParts(e.Rpc)
			switch {
			case r:
				nt = true
				if state == "reset" {
					bad("%s id %d c->s #%d: second reset", f.Conn, f.ID, e.Seq)
				}
				if i == 0 {
					bad("%s id %d c->s #%d: reset for a stream that was never opened on the wire (a stream opens with one header-only envelope)", f.Conn, f.ID, e.Seq)
				}
				if !f.CallerReset {
					bad("%s id %d c->s #%d: caller reset a stream whose context never ended", f.Conn, f.ID, e.Seq)
				}
				state = "reset"
			case state == "reset":
				if !f.AllowLateClientEnvs {
					bad("%s id %d c->s #%d: %q after the caller's reset", f.Conn, f.ID, e.Seq, Shape(e.Rpc))
				}
			case i == 0:
				if b || s || t {
					bad("%s id %d c->s #%d: stream must open with a header-only envelope, got %q", f.Conn, f.ID, e.Seq, Shape(e.Rpc))
				}
				state = "open"
			case t:
				if state == "closed" {
					bad("%s id %d c->s #%d: second trailer", f.Conn, f.ID, e.Seq)
				}
				if b {
					bad("%s id %d c->s #%d: caller trailer carries a body", f.Conn, f.ID, e.Seq)
				}
				state = "closed"
			case b:
				if state == "closed" {
					bad("%s id %d c->s #%d: body after the caller's trailer", f.Conn, f.ID, e.Seq)
				}
				if s {
					bad("%s id %d c->s #%d: body envelope carries a status", f.Conn, f.ID, e.Seq)
				}
			default:
				bad("%s id %d c->s #%d: header-only envelope in mid-stream (%q)", f.Conn, f.ID, e.Seq, Shape(e.Rpc))
			}
		}
		// ---- server -> client stream: HEADER? BODY* TRAILER(status), then only resets ----
		sstate := "start"
		trailers := 0
		firstServerResetSeq := -1
		resetBeforeTrailer := -1
		for i, e := range p.s2c {
			_, b, s, t, r := envParts(e.Rpc)
			switch {
			case r:
				nt = true
				if firstServerResetSeq < 0 {
					firstServerResetSeq = e.Seq
				}
				if sstate != "closed" {
					if f.HandlerReturned && !f.CallerReset && !f.ConnFailed {
						// here a trailer is owed, so a reset that comes first has overtaken it
						bad("%s id %d s->c #%d: server reset overtakes the trailer of the handler that ran for this stream", f.Conn, f.ID, e.Seq)
					}
					resetBeforeTrailer = e.Seq
				}
				// a server reset answers a body for a stream it does not (any longer) know
				if !bodyBefore(p.c2s, e.Seq) {
					bad("%s id %d s->c #%d: server reset without a preceding body from the caller", f.Conn, f.ID, e.Seq)
				}
			case sstate == "closed":
				bad("%s id %d s->c #%d: %q after the stream's trailer", f.Conn, f.ID, e.Seq, Shape(e.Rpc))
			case t:
				trailers++
				if resetBeforeTrailer >= 0 {
					bad("%s id %d s->c #%d: this trailer was overtaken by the server's reset #%d", f.Conn, f.ID, e.Seq, resetBeforeTrailer)
				}
				if !s {
					bad("%s id %d s->c #%d: trailer without a status", f.Conn, f.ID, e.Seq)
				}
				if b {
					bad("%s id %d s->c #%d: trailer envelope carries a body", f.Conn, f.ID, e.Seq)
				}
				sstate = "closed"
			case b:
				if s {
					bad("%s id %d s->c #%d: body envelope carries a status", f.Conn, f.ID, e.Seq)
				}
				sstate = "body"
			default: // header only
				if i != 0 {
					bad("%s id %d s->c #%d: header-only envelope after the first response envelope", f.Conn, f.ID, e.Seq)
				}
				sstate = "header"
			}
		}
		if f.HandlerReturned && !f.CallerReset && !f.ConnFailed && trailers != 1 {
			bad("%s id %d: handler returned on a live, un-reset stream but %d trailers were emitted", f.Conn, f.ID, trailers)
		}
		if trailers > 1 {
			bad("%s id %d: %d trailers", f.Conn, f.ID, trailers)
		}
		if nt {
			nontrivial++
		}
	}
	return
}

func connHasFacts(byKey map[string]*StreamFacts, conn string) (*StreamFacts, bool) {
	for _, f := range byKey {
		if f.Conn == conn {
			return f, true
		}
	}
	return nil, false
}

// bodyBefore reports whether the caller put a body for this id on the wire before tap position seq.
func bodyBefore(c2s []Ev, seq int) bool {
	for _, e := range c2s {
		if e.Seq < seq && e.Rpc.GetBody() != nil {
			return true
		}
	}
	return false
}
