package props

import (
	"context"
	"encoding/json"
	"fmt"
	"os"
	"path/filepath"
	"runtime"
	"strconv"
	"strings"
	"sync/atomic"
	"testing"

	goat "github.com/avos-io/goat"
	"google.golang.org/grpc"
	"google.golang.org/grpc/metadata"
	"google.golang.org/grpc/stats"
	"google.golang.org/protobuf/proto"
	"google.golang.org/protobuf/types/known/wrapperspb"
	"pgregory.net/rapid"
	"verifharness/kit"
)

// Verdict is the outcome of executing one case.
type Verdict struct {
	Fail   string       // empty = property held on this case
	Info   kit.CaseInfo // bookkeeping
	Detail any          // history/tap excerpt for the replay file
	Known  string       // key of a known finding this failure matches (then not a violation)
}

func (v *Verdict) failf(format string, a ...any) {
	if v.Fail == "" {
		v.Fail = fmt.Sprintf(format, a...)
	}
}

func tier() string {
	if t := os.Getenv("VERIF_TIER"); t != "" {
		return t
	}
	return "quick"
}

func thorough() bool { return tier() == "thorough" }

func workDir() string {
	d := os.Getenv("VERIF_WORK")
	if d == "" {
		d = os.TempDir()
	}
	return d
}

// shard returns (index, count) of this process among the driver's shards.
func shard() (int, int) {
	s := os.Getenv("VERIF_SHARD")
	if s == "" {
		return 0, 1
	}
	p := strings.SplitN(s, "/", 2)
	i, _ := strconv.Atoi(p[0])
	n, _ := strconv.Atoi(p[1])
	if n < 1 {
		n = 1
	}
	return i, n
}

type replayFile struct {
	Property string          `json:"property"`
	Sub      string          `json:"sub,omitempty"`
	Message  string          `json:"message"`
	Case     json.RawMessage `json:"case"`
	Detail   any             `json:"detail,omitempty"`
}

func journal(id string, sub string, c any) {
	data, err := json.Marshal(c)
	if err != nil {
		return
	}
	rf := replayFile{Property: id, Sub: sub, Message: "(journal: the case that was executing)", Case: data}
	out, _ := json.Marshal(rf)
	_ = os.WriteFile(filepath.Join(workDir(), "current_case.json"), out, 0o644)
}

func writeReplay(id, sub, msg string, c any, detail any) string {
	data, _ := json.Marshal(c)
	rf := replayFile{Property: id, Sub: sub, Message: msg, Case: data, Detail: detail}
	path := filepath.Join(workDir(), "last_failure.json")
	_ = kit.WriteJSON(path, rf)
	return path
}

// loadReplay returns the case of $VERIF_REPLAY if it is for (id, sub).
func loadReplay[C any](id, sub string) (*C, bool) {
	p := os.Getenv("VERIF_REPLAY")
	if p == "" {
		return nil, false
	}
	data, err := os.ReadFile(p)
	if err != nil {
		return nil, false
	}
	var rf replayFile
	if json.Unmarshal(data, &rf) != nil || rf.Property != id || rf.Sub != sub {
		return nil, false
	}
	var c C
	if err := json.Unmarshal(rf.Case, &c); err != nil {
		return nil, false
	}
	return &c, true
}

func replaying() bool { return os.Getenv("VERIF_REPLAY") != "" }

// runOne executes a case with journalling, bookkeeping and failure capture.
// It returns the failure message ("" if none).
func runOne[C any](t *testing.T, id, sub string, c C, exec func(*testing.T, C) Verdict) string {
	journal(id, sub, c)
	kit.Journal = func(dump string) {
		rf := replayFile{Property: id, Sub: sub, Message: "WEDGE: case neither finished nor quiesced", Detail: strings.Split(dump, "\n")}
		data, _ := json.Marshal(c)
		rf.Case = data
		_ = kit.WriteJSON(filepath.Join(workDir(), "wedge.json"), rf)
	}
	v := exec(t, c)
	kit.G().Record(v.Info)
	if v.Fail != "" && v.Known != "" {
		kit.G().KnownFinding(v.Known)
		return ""
	}
	if v.Fail != "" {
		writeReplay(id, sub, v.Fail, c, v.Detail)
	}
	return v.Fail
}

// checkProp is the standard rapid driver for one (property, sub-check).
func checkProp[C any](t *testing.T, id, sub string, gen func(*rapid.T) C, exec func(*testing.T, C) Verdict) {
	defer kit.G().Flush(id)
	if c, ok := loadReplay[C](id, sub); ok {
		if msg := runOne(t, id, sub, *c, exec); msg != "" {
			t.Fatalf("REPLAY-FAIL %s/%s: %s", id, sub, msg)
		}
		return
	}
	if replaying() {
		return // replay file is for another sub-check
	}
	rapid.Check(t, func(rt *rapid.T) {
		c := gen(rt)
		if msg := runOne(t, id, sub, c, exec); msg != "" {
			rt.Fatalf("VERIF-FAIL %s/%s: %s", id, sub, msg)
		}
	})
}

// enumProp runs deterministic cases i = shard, shard+n, ... < total.
func enumProp[C any](t *testing.T, id, sub string, total int, mk func(i int) C, exec func(*testing.T, C) Verdict) {
	defer kit.G().Flush(id)
	if c, ok := loadReplay[C](id, sub); ok {
		if msg := runOne(t, id, sub, *c, exec); msg != "" {
			t.Fatalf("REPLAY-FAIL %s/%s: %s", id, sub, msg)
		}
		return
	}
	if replaying() {
		return
	}
	si, sn := shard()
	for i := si; i < total; i += sn {
		c := mk(i)
		if msg := runOne(t, id, sub, c, exec); msg != "" {
			t.Fatalf("VERIF-FAIL %s/%s case #%d: %s", id, sub, i, msg)
		}
	}
	kit.G().Count("enum."+sub+".total", 0)
}

// scale returns q for the quick tier and th for the thorough tier.
func scale(q, th int) int {
	if thorough() {
		return th
	}
	return q
}

func tapSummary(evs []kit.Ev, max int) []string {
	var out []string
	for i, e := range evs {
		if i >= max {
			out = append(out, fmt.Sprintf("… (%d more)", len(evs)-max))
			break
		}
		out = append(out, kit.DescribeEv(e))
	}
	return out
}

type grpcServerStream = grpc.ServerStream
type metadataMD = metadata.MD

type grpcConn = grpc.ClientConnInterface

// unwrapBytes decodes the protobuf encoding of a BytesValue.
func unwrapBytes(data []byte) []byte {
	m := new(wrapperspb.BytesValue)
	if proto.Unmarshal(data, m) != nil {
		return nil
	}
	return m.GetValue()
}

func getenv(k, def string) string {
	if v := os.Getenv(k); v != "" {
		return v
	}
	return def
}

type statsRPCTagInfo = stats.RPCTagInfo
type statsRPCStats = stats.RPCStats
type statsConnTagInfo = stats.ConnTagInfo
type statsConnStats = stats.ConnStats

func metadataFromIncoming(ctx context.Context) (metadata.MD, bool) {
	return metadata.FromIncomingContext(ctx)
}

func metadataOutgoing(ctx context.Context, kv ...string) context.Context {
	return metadata.AppendToOutgoingContext(ctx, kv...)
}

// fuzzProp turns a (generator, executor) pair into a native fuzz target: the fuzzer's bytes drive rapid's
// draws (rapid.MakeFuzz), so coverage guidance steers the same generators the random jobs use.
func fuzzProp[C any](f *testing.F, id, sub string, gen func(*rapid.T) C, exec func(*testing.T, C) Verdict) {
	for i := 0; i < 8; i++ {
		b := make([]byte, 64+64*i)
		x := uint64(i)*0x9e3779b97f4a7c15 + 1
		for j := range b {
			x ^= x << 13
			x ^= x >> 7
			x ^= x << 17
			b[j] = byte(x)
		}
		f.Add(b)
	}
	f.Fuzz(func(t *testing.T, data []byte) {
		rapid.MakeFuzz(func(rt *rapid.T) {
			c := gen(rt)
			journal(id, sub, c)
			v := exec(t, c)
			if v.Fail != "" && v.Known == "" {
				writeReplay(id, sub, v.Fail, c, v.Detail)
				rt.Fatalf("VERIF-FAIL %s/%s (fuzz): %s", id, sub, v.Fail)
			}
		})(t, data)
	})
}

func FuzzC02(f *testing.F) { fuzzProp(f, "C02", "main", genC02, execC02) }
func FuzzC07(f *testing.F) { fuzzProp(f, "C07", "main", genC07, execC07) }
func FuzzC09(f *testing.F) { fuzzProp(f, "C09", "main", genC09, execC09) }
func FuzzC10(f *testing.F) { fuzzProp(f, "C10", "main", genC10, execC10) }
func FuzzC11(f *testing.F) { fuzzProp(f, "C11", "main", genC11, execC11) }
func FuzzC14(f *testing.F) { fuzzProp(f, "C14", "main", genC14, execC14) }
func FuzzC17(f *testing.F) { fuzzProp(f, "C17", "main", genC17, execC17) }
func FuzzC18(f *testing.F) { fuzzProp(f, "C18", "model", genC18, execC18) }
func FuzzC20(f *testing.F) { fuzzProp(f, "C20", "main", genC20, execC20) }
func FuzzC16(f *testing.F) { fuzzProp(f, "C16", "envelopes", genC16, execC16) }
func FuzzC03(f *testing.F) { fuzzProp(f, "C03", "main", genC03, execC03) }
func FuzzC04(f *testing.F) { fuzzProp(f, "C04", "main", genC04, execC04) }

// spinBarrier makes the goroutines that reach the named hook points leave them in groups of k at (nearly) the same
// nanosecond: each arrival spins until its group is complete. total is the number of arrivals expected (the last group
// may be smaller). The windows it targets (a non-atomic counter, a check-then-act on shared state right after the point)
// are a few instructions wide, which a channel-based gate does not hit reliably.
func spinBarrier(points []string, total, k int) (remove func()) {
	var arrived atomic.Int32
	is := map[string]bool{}
	for _, p := range points {
		is[p] = true
	}
	goat.VerifSetHook(func(ctx context.Context, name string) {
		if !is[name] {
			return
		}
		t := int(arrived.Add(1))
		target := ((t-1)/k + 1) * k
		if target > total {
			target = total
		}
		for i := 0; int(arrived.Load()) < target; i++ {
			if i > 2000 {
				runtime.Gosched()
			}
			if i > 2000000 {
				return // the rest of the group never came (a call failed earlier): give up, no verdict depends on it
			}
		}
	})
	return func() { goat.VerifSetHook(nil) }
}
