package props

import (
	"bytes"
	"context"
	"fmt"
	"net/http"
	"net/http/httptest"
	"runtime"
	"strings"
	"sync"
	"sync/atomic"
	"testing"
	"time"
	"unicode/utf8"

	goat "github.com/avos-io/goat"
	"github.com/avos-io/goat/gen/goatorepo"
	"github.com/coder/websocket"
	"github.com/jonboulle/clockwork"
	"google.golang.org/protobuf/proto"
	"google.golang.org/protobuf/types/known/anypb"
	"google.golang.org/protobuf/types/known/wrapperspb"
	"pgregory.net/rapid"
	"verifharness/kit"
)

// ---- C19: shipped transports ---------------------------------------------------

// RpcSpec is a serialisable description of an arbitrary envelope value.
type RpcSpec struct {
	ID      uint64          `json:"id"`
	Header  *HdrSpec        `json:"header,omitempty"`
	Status  *kit.StatusSpec `json:"status,omitempty"`
	Body    *kit.Payload    `json:"body,omitempty"`
	Trailer *[]kit.RawKV    `json:"trailer,omitempty"`
	Reset   *string         `json:"reset,omitempty"`
}

type HdrSpec struct {
	Method string      `json:"method"`
	Src    string      `json:"src"`
	Dst    string      `json:"dst"`
	KVs    []kit.RawKV `json:"kvs,omitempty"`
	Rec    []string    `json:"rec,omitempty"`
	Next   []string    `json:"next,omitempty"`
}

func (s RpcSpec) Build() *goat.Rpc {
	r := &goat.Rpc{Id: s.ID}
	if s.Header != nil {
		h := &goatorepo.RequestHeader{Method: s.Header.Method, Source: s.Header.Src, Destination: s.Header.Dst, ProxyRecord: s.Header.Rec, ProxyNext: s.Header.Next}
		for _, kv := range s.Header.KVs {
			h.Headers = append(h.Headers, &goatorepo.KeyValue{Key: kv.K, Value: kv.V})
		}
		r.Header = h
	}
	if s.Status != nil {
		st := &goatorepo.ResponseStatus{Code: s.Status.Code, Message: s.Status.Msg}
		for _, d := range s.Status.Details {
			a, _ := anypb.New(d.Msg())
			st.Details = append(st.Details, a)
		}
		r.Status = st
	}
	if s.Body != nil {
		r.Body = &goatorepo.Body{Data: s.Body.Bytes()}
	}
	if s.Trailer != nil {
		t := &goatorepo.Trailer{}
		for _, kv := range *s.Trailer {
			t.Metadata = append(t.Metadata, &goatorepo.KeyValue{Key: kv.K, Value: kv.V})
		}
		r.Trailer = t
	}
	if s.Reset != nil {
		r.Reset_ = &goatorepo.Reset{Type: *s.Reset}
	}
	return r
}

func genUTF8(t *rapid.T, label string) string {
	s := rapid.SampledFrom([]string{"", "a", "srv", "/pkg.Svc/Method", "ünï/cødé", "世界", "k-bin", strings.Repeat("x", 300)}).Draw(t, label+"base")
	if rapid.Bool().Draw(t, label+"rnd") {
		s = rapid.String().Draw(t, label)
		if !utf8.ValidString(s) {
			s = strings.ToValidUTF8(s, "?")
		}
	}
	return s
}

func genKVs(t *rapid.T, label string) []kit.RawKV {
	n := rapid.IntRange(0, 4).Draw(t, label+"n")
	var out []kit.RawKV
	for i := 0; i < n; i++ {
		out = append(out, kit.RawKV{K: genUTF8(t, label+"k"), V: genUTF8(t, label+"v")})
	}
	return out
}

func genRpcSpec(t *rapid.T, maxBody int, needSource bool) RpcSpec {
	s := RpcSpec{ID: rapid.SampledFrom([]uint64{0, 1, 2, 1 << 31, 1 << 32, 1<<63 - 1, 1 << 63, ^uint64(0)}).Draw(t, "idclass")}
	if rapid.Bool().Draw(t, "idrnd") {
		s.ID = rapid.Uint64().Draw(t, "id")
	}
	if needSource || rapid.IntRange(0, 4).Draw(t, "hdr") > 0 {
		h := &HdrSpec{Method: genUTF8(t, "method"), Src: genUTF8(t, "src"), Dst: genUTF8(t, "dst"), KVs: genKVs(t, "h")}
		if needSource && h.Src == "" {
			h.Src = "peer"
		}
		if rapid.Bool().Draw(t, "rec") {
			h.Rec = []string{genUTF8(t, "rec1"), "px"}
		}
		if rapid.Bool().Draw(t, "next") {
			h.Next = []string{genUTF8(t, "next1")}
		}
		s.Header = h
	}
	if rapid.Bool().Draw(t, "status") {
		st := &kit.StatusSpec{Code: int32(rapid.IntRange(-1, 20).Draw(t, "code")), Msg: genUTF8(t, "msg")}
		for i := rapid.IntRange(0, 2).Draw(t, "ndet"); i > 0; i-- {
			st.Details = append(st.Details, kit.Detail{Kind: rapid.SampledFrom([]string{"str", "int", "dur", "nested"}).Draw(t, "dk"), S: genUTF8(t, "ds"), N: rapid.Int64().Draw(t, "dn")})
		}
		s.Status = st
	}
	if rapid.Bool().Draw(t, "body") {
		p := kit.GenPayload(maxBody).Draw(t, "bodyp")
		switch rapid.IntRange(0, 19).Draw(t, "bigbody") {
		case 0, 1:
			p = kit.Payload{Class: "rand", Len: rapid.IntRange(maxBody/2, maxBody).Draw(t, "biglen"), Seed: rapid.Uint64().Draw(t, "bigseed")}
		case 2:
			// the documented upper end of the body range and its neighbours
			p = kit.Payload{Class: "rand", Len: (1 << 20) - rapid.SampledFrom([]int{0, 0, 1, 2, 16, 4096}).Draw(t, "below1MiB"), Seed: rapid.Uint64().Draw(t, "bigseed")}
		}
		s.Body = &p
	}
	if rapid.Bool().Draw(t, "trailer") {
		kvs := genKVs(t, "t")
		s.Trailer = &kvs
	}
	if rapid.IntRange(0, 3).Draw(t, "reset") == 0 {
		r := genUTF8(t, "resettype")
		s.Reset = &r
	}
	return s
}

type C19RT struct {
	Transport string    `json:"transport"` // channel | websocket | http
	Rpcs      []RpcSpec `json:"rpcs"`
}

func maxBody() int { return scale(65536, 1<<20) }

func genC19RT(t *rapid.T) C19RT {
	c := C19RT{Transport: rapid.SampledFrom([]string{"channel", "websocket", "websocket", "http", "http"}).Draw(t, "transport")}
	n := rapid.IntRange(1, 50).Draw(t, "n")
	if c.Transport == "http" && n > 12 {
		n = 12
	}
	mb := maxBody()
	for i := 0; i < n; i++ {
		c.Rpcs = append(c.Rpcs, genRpcSpec(t, mb, c.Transport == "http"))
	}
	return c
}

const netBudget = 20 * time.Second

func inconclusive(t *testing.T, format string, a ...any) {
	fmt.Printf("VERIF-INCONCLUSIVE: "+format+"\n", a...)
	t.Fatalf("VERIF-INCONCLUSIVE: "+format, a...)
}

// wsPair returns two RpcReadWriters connected by a real loopback WebSocket, plus the raw client-side socket.
func wsPair(t *testing.T) (client goat.RpcReadWriter, server goat.RpcReadWriter, rawClient *websocket.Conn, rawServer *websocket.Conn, cleanup func()) {
	srvConn := make(chan *websocket.Conn, 1)
	release := make(chan struct{})
	hs := httptest.NewServer(http.HandlerFunc(func(w http.ResponseWriter, r *http.Request) {
		c, err := websocket.Accept(w, r, nil)
		if err != nil {
			return
		}
		c.SetReadLimit(-1) // the library leaves the limit to the caller
		srvConn <- c
		<-release
	}))
	ctx, cancel := context.WithTimeout(context.Background(), netBudget)
	defer cancel()
	cc, _, err := websocket.Dial(ctx, "ws"+strings.TrimPrefix(hs.URL, "http"), nil)
	if err != nil {
		hs.Close()
		inconclusive(t, "websocket dial on loopback failed: %v", err)
	}
	cc.SetReadLimit(-1)
	var sc *websocket.Conn
	select {
	case sc = <-srvConn:
	case <-ctx.Done():
		inconclusive(t, "websocket accept timed out")
	}
	return goat.NewGoatOverWebsocket(cc), goat.NewGoatOverWebsocket(sc), cc, sc, func() {
		cc.CloseNow()
		sc.CloseNow()
		close(release)
		hs.Close()
	}
}

func execC19RT(t *testing.T, c C19RT) (v Verdict) {
	want := make([]*goat.Rpc, len(c.Rpcs))
	for i, s := range c.Rpcs {
		want[i] = s.Build()
	}
	var got []*goat.Rpc
	switch c.Transport {
	case "channel":
		res := kit.Bubble(t, func() {
			q := make(chan *goat.Rpc)
			w := goat.NewGoatOverChannel(nil, q)
			r := goat.NewGoatOverChannel(q, nil)
			go func() {
				for _, x := range want {
					if err := w.Write(context.Background(), proto.Clone(x).(*goat.Rpc)); err != nil {
						return
					}
				}
			}()
			for range want {
				x, err := r.Read(context.Background())
				if err != nil {
					v.failf("channel read: %v", err)
					return
				}
				got = append(got, x)
			}
		})
		if res.Panic != nil {
			v.failf("panic: %v", res.Panic)
		}
	case "websocket":
		cl, sv, _, _, cleanup := wsPair(t)
		defer cleanup()
		ctx, cancel := context.WithTimeout(context.Background(), netBudget)
		defer cancel()
		errc := make(chan error, 1)
		go func() {
			for _, x := range want {
				if err := cl.Write(ctx, x); err != nil {
					errc <- err
					return
				}
			}
			errc <- nil
		}()
		// reader in the background; once every Write has returned without error, whatever was written is in the
		// socket and must be readable within a generous grace period
		var rmu sync.Mutex
		rdone := make(chan error, 1)
		go func() {
			for range want {
				x, err := sv.Read(ctx)
				if err != nil {
					rdone <- err
					return
				}
				rmu.Lock()
				got = append(got, x)
				rmu.Unlock()
			}
			rdone <- nil
		}()
		werr := <-errc
		if werr != nil {
			if ctx.Err() != nil {
				inconclusive(t, "websocket round trip exceeded %v", netBudget)
			}
			v.failf("websocket write of a well-formed envelope failed: %v", werr)
		} else {
			select {
			case err := <-rdone:
				if err != nil {
					v.failf("websocket read of a well-formed envelope failed: %v", err)
				}
			case <-time.After(10 * time.Second):
				rmu.Lock()
				n := len(got)
				rmu.Unlock()
				v.failf("websocket: %d envelopes were written without error but only %d could be read", len(want), n)
				cancel()
				<-rdone
			}
		}
		rmu.Lock()
		defer rmu.Unlock()
	case "http":
		var mu sync.Mutex
		connected := make(chan goat.RpcReadWriter, 4)
		recv := goat.NewGoatOverHttp(func(id string, rw goat.RpcReadWriter) { connected <- rw }, func(src string) (string, error) { return "addr-of-" + src, nil })
		defer recv.Cancel()
		hs := httptest.NewServer(recv)
		defer hs.Close()
		send := goat.NewGoatOverHttp(func(string, goat.RpcReadWriter) {}, func(s string) (string, error) { return s, nil })
		defer send.Cancel()
		out := send.NewConnection(strings.TrimPrefix(hs.URL, "http://"))
		ctx, cancel := context.WithTimeout(context.Background(), netBudget)
		defer cancel()
		// all envelopes of one case share a source so that they arrive on one logical connection, in order
		for _, x := range want {
			x.Header.Source = "peer"
		}
		done := make(chan struct{})
		go func() {
			defer close(done)
			var rw goat.RpcReadWriter
			select {
			case rw = <-connected:
			case <-ctx.Done():
				return
			}
			for range want {
				x, err := rw.Read(ctx)
				if err != nil {
					return
				}
				mu.Lock()
				got = append(got, x)
				mu.Unlock()
			}
		}()
		for _, x := range want {
			if err := out.Write(ctx, x); err != nil {
				if ctx.Err() != nil {
					inconclusive(t, "http round trip exceeded %v", netBudget)
				}
				v.failf("http write of a well-formed envelope failed: %v", err)
				break
			}
		}
		// ServeHTTP answers only after the reader has taken the envelope, so once every Write has returned
		// without error the reader has seen everything; it only needs to finish its bookkeeping.
		select {
		case <-done:
		case <-time.After(10 * time.Second):
			mu.Lock()
			n := len(got)
			mu.Unlock()
			if v.Fail == "" {
				v.failf("http: %d envelopes were written without error but only %d were delivered to the reader", len(want), n)
			}
		}
		mu.Lock()
		defer mu.Unlock()
	}
	if v.Fail == "" {
		if len(got) != len(want) {
			v.failf("%s: %d envelopes read, %d written", c.Transport, len(got), len(want))
		}
		for i := range got {
			if i < len(want) && !proto.Equal(got[i], want[i]) {
				v.failf("%s: envelope #%d changed in transit or arrived out of order:\n got  %v\n want %v", c.Transport, i, truncStr(got[i].String()), truncStr(want[i].String()))
				break
			}
		}
	}
	big, mib := false, false
	presence := map[string]bool{}
	for _, s := range c.Rpcs {
		if s.Body != nil && s.Body.Len > 32768 {
			big = true
		}
		if s.Body != nil && s.Body.Len >= (1<<20)-4096 {
			mib = true
		}
		presence[fmt.Sprintf("%v%v%v%v%v", s.Header != nil, s.Status != nil, s.Body != nil, s.Trailer != nil, s.Reset != nil)] = true
	}
	v.Info = kit.CaseInfo{Labels: []string{"rt." + c.Transport, fmt.Sprintf("bigbody=%v", big), fmt.Sprintf("body~1MiB=%v", mib)}, NonTrivial: len(c.Rpcs) >= 2 || big, Key: fmt.Sprintf("%+v", c),
		Sample: map[string]any{"transport": c.Transport, "envelopes": len(c.Rpcs), "presence_combinations": len(presence), "first": truncStr(want[0].String())}}
	return
}

func truncStr(s string) string {
	if len(s) > 300 {
		return s[:300] + "…"
	}
	return s
}

func TestC19RoundTrip(t *testing.T) { checkProp(t, "C19", "roundtrip", genC19RT, execC19RT) }

// ---- rejection of input that is not an envelope ----------------------------------

type C19Raw struct {
	Transport string  `json:"transport"` // websocket | http
	Mode      string  `json:"mode"`      // text | random | mutated | http-nobody | http-noheader | http-nosource | http-garbage
	Data      []byte  `json:"data"`
	Base      RpcSpec `json:"base"`
	MutPos    int     `json:"mut_pos"`
	MutVal    byte    `json:"mut_val"`
	Trunc     int     `json:"trunc"`
}

func genC19Raw(t *rapid.T) C19Raw {
	c := C19Raw{Transport: rapid.SampledFrom([]string{"websocket", "http"}).Draw(t, "transport")}
	if c.Transport == "websocket" {
		c.Mode = rapid.SampledFrom([]string{"text", "random", "mutated", "mutated"}).Draw(t, "mode")
	} else {
		c.Mode = rapid.SampledFrom([]string{"http-nobody", "http-noheader", "http-nosource", "random", "mutated", "mutated"}).Draw(t, "mode")
	}
	c.Data = rapid.SliceOfN(rapid.Byte(), 0, 64).Draw(t, "data")
	c.Base = genRpcSpec(t, 256, c.Transport == "http")
	c.MutPos = rapid.IntRange(0, 4096).Draw(t, "mutpos")
	c.MutVal = rapid.Byte().Draw(t, "mutval")
	c.Trunc = rapid.IntRange(0, 4096).Draw(t, "trunc")
	return c
}

func (c C19Raw) bytes() []byte {
	switch c.Mode {
	case "random", "text":
		return c.Data
	case "http-noheader":
		b, _ := proto.Marshal(&goat.Rpc{Id: 7, Body: &goatorepo.Body{Data: []byte("x")}})
		return b
	case "http-nosource":
		b, _ := proto.Marshal(&goat.Rpc{Id: 7, Header: &goatorepo.RequestHeader{Method: "/x/y", Destination: "d"}})
		return b
	}
	b, _ := proto.Marshal(c.Base.Build())
	if len(b) > 0 {
		b[c.MutPos%len(b)] ^= c.MutVal | 1
		if c.Trunc%3 == 0 {
			b = b[:c.Trunc%(len(b)+1)]
		}
	}
	return b
}

func execC19Raw(t *testing.T, c C19Raw) (v Verdict) {
	data := c.bytes()
	var ref goat.Rpc
	refOK := proto.Unmarshal(data, &ref) == nil
	label := c.Transport + "." + c.Mode
	if c.Transport == "websocket" {
		_, sv, rawClient, _, cleanup := wsPair(t)
		defer cleanup()
		ctx, cancel := context.WithTimeout(context.Background(), netBudget)
		defer cancel()
		typ := websocket.MessageBinary
		if c.Mode == "text" {
			typ = websocket.MessageText
			data = []byte(strings.ToValidUTF8(string(data), "?"))
		}
		if err := rawClient.Write(ctx, typ, data); err != nil {
			inconclusive(t, "raw websocket write failed: %v", err)
		}
		got, err := sv.Read(ctx)
		if ctx.Err() != nil {
			inconclusive(t, "websocket read exceeded %v", netBudget)
		}
		switch {
		case c.Mode == "text":
			if err == nil {
				v.failf("a non-binary WebSocket message was delivered as an envelope")
			}
		case refOK:
			if err != nil {
				v.failf("bytes that decode as an envelope were rejected: %v", err)
			} else if !proto.Equal(got, &ref) {
				v.failf("delivered envelope differs from what the bytes decode to")
			}
		default:
			if err == nil {
				v.failf("undecodable bytes were delivered as an envelope: %v", got)
			}
		}
		label += fmt.Sprintf(".decodable=%v", refOK)
	} else {
		delivered := make(chan *goat.Rpc, 4)
		recv := goat.NewGoatOverHttp(func(id string, rw goat.RpcReadWriter) {
			go func() {
				for {
					x, err := rw.Read(context.Background())
					if err != nil {
						return
					}
					delivered <- x
				}
			}()
		}, func(src string) (string, error) {
			if src == "unmappable" {
				return "", fmt.Errorf("no")
			}
			return "addr-" + src, nil
		})
		defer recv.Cancel()
		rec := httptest.NewRecorder()
		var req *http.Request
		if c.Mode == "http-nobody" {
			req = httptest.NewRequest("POST", "/", nil)
			req.Body = nil
		} else {
			req = httptest.NewRequest("POST", "/", bytes.NewReader(data))
		}
		done := make(chan struct{})
		go func() {
			defer close(done)
			recv.ServeHTTP(rec, req)
		}()
		select {
		case <-done:
		case <-time.After(netBudget):
			inconclusive(t, "ServeHTTP did not return within %v", netBudget)
		}
		wellFormed := refOK && c.Mode != "http-nobody" && ref.GetHeader() != nil && ref.GetHeader().GetSource() != ""
		var got *goat.Rpc
		if wellFormed && rec.Code/100 == 2 {
			// ServeHTTP returns as soon as the reader has taken the envelope; give the reader time to report it
			select {
			case got = <-delivered:
			case <-time.After(netBudget):
				inconclusive(t, "reader did not report the delivered envelope within %v", netBudget)
			}
		} else {
			select {
			case got = <-delivered:
			default:
			}
		}
		if wellFormed {
			if rec.Code/100 != 2 {
				v.failf("a well-formed envelope was answered with HTTP %d", rec.Code)
			} else if got == nil || !proto.Equal(got, &ref) {
				v.failf("a well-formed envelope was not delivered unchanged")
			}
		} else {
			if rec.Code != 400 {
				v.failf("%s: input that is not a well-formed envelope was answered with HTTP %d, want 400", c.Mode, rec.Code)
			}
			if got != nil {
				v.failf("%s: input that is not a well-formed envelope was delivered", c.Mode)
			}
		}
		label += fmt.Sprintf(".wellformed=%v", wellFormed)
	}
	v.Info = kit.CaseInfo{Labels: []string{"raw." + label}, NonTrivial: true, Key: fmt.Sprintf("%s/%s/%x", c.Transport, c.Mode, data), Sample: map[string]any{"transport": c.Transport, "mode": c.Mode, "bytes": fmt.Sprintf("%x", trimBytes(data))}}
	return
}

func trimBytes(b []byte) []byte {
	if len(b) > 48 {
		return b[:48]
	}
	return b
}

func TestC19Raw(t *testing.T) { checkProp(t, "C19", "raw", genC19Raw, execC19Raw) }

// ---- a blocked Read or Write returns once its context is done ------------------------

type C19Ctx struct {
	Transport string `json:"transport"` // channel | http | websocket
	Op        string `json:"op"`        // read | write
	Deadline  bool   `json:"deadline"`
	// Others (http read): this many other readers are already parked in Read on the same logical connection (two
	// ClientConns dialled to one peer share it)
	Others int `json:"others,omitempty"`
	// Again (http write): after the blocked Write has failed, the application tries this many more Writes on the same
	// connection object, each with a context that is already done: they must fail too, and nothing may blow up
	Again int `json:"again,omitempty"`
}

func genC19Ctx(t *rapid.T) C19Ctx {
	return C19Ctx{Transport: rapid.SampledFrom([]string{"channel", "http", "websocket"}).Draw(t, "transport"), Op: rapid.SampledFrom([]string{"read", "write"}).Draw(t, "op"), Deadline: rapid.Bool().Draw(t, "deadline"), Others: rapid.SampledFrom([]int{0, 0, 1, 2}).Draw(t, "others"), Again: rapid.IntRange(0, 2).Draw(t, "again")}
}

func execC19Ctx(t *testing.T, c C19Ctx) (v Verdict) {
	env := &goat.Rpc{Id: 1, Header: &goatorepo.RequestHeader{Method: "/x/y", Source: "peer", Destination: "d"}, Body: &goatorepo.Body{Data: []byte("x")}}
	returned := false
	var opErr error
	switch c.Transport {
	case "channel":
		res := kit.Bubble(t, func() {
			q := make(chan *goat.Rpc) // nobody on the other side
			rw := goat.NewGoatOverChannel(q, q)
			ctx, cancel := context.WithCancel(context.Background())
			if c.Deadline {
				ctx, cancel = context.WithTimeout(context.Background(), time.Second)
			}
			defer cancel()
			done := make(chan struct{})
			go func() {
				defer close(done)
				if c.Op == "read" {
					_, opErr = rw.Read(ctx)
				} else {
					opErr = rw.Write(ctx, env)
				}
			}()
			kit.Settle()
			if c.Deadline {
				time.Sleep(2 * time.Second)
			} else {
				cancel()
			}
			kit.Settle()
			select {
			case <-done:
				returned = true
			default:
			}
		})
		if len(res.Leaked) > 0 && !returned {
			// expected consequence of the blocked call
		}
	case "http":
		if c.Op == "read" {
			// a logical HTTP connection on which nothing arrives; Read is plain channel code, so a bubble works
			res := kit.Bubble(t, func() {
				goh := goat.NewGoatOverHttp(func(string, goat.RpcReadWriter) {}, func(s string) (string, error) { return s, nil }, goat.WithClock(clockwork.NewFakeClock()))
				defer goh.Cancel()
				rw := goh.NewConnection("nowhere")
				octx, ocancel := context.WithCancel(context.Background())
				defer ocancel()
				for i := 0; i < c.Others; i++ {
					orw := goh.NewConnection("nowhere") // the same logical connection
					go func() { _, _ = orw.Read(octx) }()
				}
				kit.Settle()
				ctx, cancel := context.WithCancel(context.Background())
				if c.Deadline {
					ctx, cancel = context.WithTimeout(context.Background(), time.Second)
				}
				defer cancel()
				done := make(chan struct{})
				go func() {
					defer close(done)
					_, opErr = rw.Read(ctx)
				}()
				kit.Settle()
				if c.Deadline {
					time.Sleep(2 * time.Second)
				} else {
					cancel()
				}
				kit.Settle()
				select {
				case <-done:
					returned = true
				default:
				}
			})
			_ = res
		} else {
			// Write blocks while the receiving end does not answer the POST
			release := make(chan struct{})
			hs := httptest.NewServer(http.HandlerFunc(func(w http.ResponseWriter, r *http.Request) { <-release }))
			defer hs.Close()
			defer close(release)
			goh := goat.NewGoatOverHttp(func(string, goat.RpcReadWriter) {}, func(s string) (string, error) { return s, nil })
			defer goh.Cancel()
			rw := goh.NewConnection(strings.TrimPrefix(hs.URL, "http://"))
			ctx, cancel := context.WithCancel(context.Background())
			if c.Deadline {
				ctx, cancel = context.WithTimeout(context.Background(), 100*time.Millisecond)
			}
			defer cancel()
			done := make(chan struct{})
			go func() {
				defer close(done)
				opErr = rw.Write(ctx, env)
			}()
			time.Sleep(50 * time.Millisecond)
			if !c.Deadline {
				cancel()
			}
			select {
			case <-done:
				returned = true
			case <-time.After(3 * time.Second):
			}
			for i := 0; returned && i < c.Again; i++ {
				func() {
					defer func() {
						if r := recover(); r != nil {
							v.failf("http: Write #%d on a connection whose earlier Write had failed panicked: %v", i+2, r)
						}
					}()
					gone, gcancel := context.WithCancel(context.Background())
					gcancel()
					if err := rw.Write(gone, env); err == nil {
						v.failf("http: Write #%d with a context that is already done reported success", i+2)
					}
				}()
			}
		}
	case "websocket":
		cl, _, _, _, cleanup := wsPair(t)
		defer cleanup()
		if c.Op == "write" {
			// a WebSocket write to a peer that is not reading completes into the socket buffer; nothing to block on
			returned = true
			opErr = context.Canceled
			break
		}
		ctx, cancel := context.WithCancel(context.Background())
		if c.Deadline {
			ctx, cancel = context.WithTimeout(context.Background(), 100*time.Millisecond)
		}
		defer cancel()
		done := make(chan struct{})
		go func() {
			defer close(done)
			_, opErr = cl.Read(ctx)
		}()
		time.Sleep(50 * time.Millisecond)
		if !c.Deadline {
			cancel()
		}
		select {
		case <-done:
			returned = true
		case <-time.After(3 * time.Second):
		}
	}
	if !returned {
		v.failf("%s: a blocked %s did not return after its context was done", c.Transport, c.Op)
	} else if opErr == nil {
		v.failf("%s: a blocked %s returned success although nothing could have happened", c.Transport, c.Op)
	}
	v.Info = kit.CaseInfo{Labels: []string{fmt.Sprintf("ctx.%s.%s", c.Transport, c.Op)}, NonTrivial: true, Key: fmt.Sprintf("%+v", c), Sample: c}
	return
}

func TestC19Ctx(t *testing.T) { checkProp(t, "C19", "ctx", genC19Ctx, execC19Ctx) }

// ---- HTTP idle timeout vs an in-progress delivery (fake clock) -------------------------

type C19Idle struct {
	Parked   int   `json:"parked"`    // deliveries parked in ServeHTTP (no reader yet) when the cleaner runs: 0..3
	ReaderOn bool  `json:"reader_on"` // a reader is blocked in Read when the cleaner runs
	AgeSec   int64 `json:"age_sec"`   // age of the connection's last activity at the tick, relative to the timeout (-2..+2 s)
	Ticks    int   `json:"ticks"`
	// Fresh: the connection has never carried an envelope when it goes idle (it was created by NewConnection and only
	// ever had a reader blocked on it, or deliveries parked for it)
	Fresh bool `json:"fresh,omitempty"`
	// Abandoned: this many deliveries were parked in ServeHTTP for lack of a reader and then given up by their sender
	// (the POST's context ended) before anything else happens
	Abandoned int `json:"abandoned,omitempty"`
}

func genC19Idle(t *rapid.T) C19Idle {
	return C19Idle{Parked: rapid.IntRange(0, 3).Draw(t, "parked"), ReaderOn: rapid.Bool().Draw(t, "reader"), AgeSec: rapid.Int64Range(-2, 2).Draw(t, "age"), Ticks: rapid.IntRange(1, 3).Draw(t, "ticks"), Fresh: rapid.IntRange(0, 2).Draw(t, "fresh") == 0, Abandoned: rapid.SampledFrom([]int{0, 0, 1, 2}).Draw(t, "abandoned")}
}

func execC19Idle(t *testing.T, c C19Idle) (v Verdict) {
	if c.ReaderOn && c.Parked > 0 {
		c.Parked = 0 // a reader would consume the parked deliveries; keep the two situations apart
	}
	const timeout = 10 * time.Second
	const interval = time.Second
	var panics []string
	var codes []int
	readerReturned, readerErr := false, error(nil)
	expired := c.AgeSec >= 0
	res := kit.Bubble(t, func() {
		clk := clockwork.NewFakeClock()
		var mu sync.Mutex
		var conn goat.RpcReadWriter
		goh := goat.NewGoatOverHttp(func(id string, rw goat.RpcReadWriter) { mu.Lock(); conn = rw; mu.Unlock() }, func(s string) (string, error) { return s, nil },
			goat.WithClock(clk), goat.WithConnectionCleanupInterval(interval), goat.WithConnectionTimeout(timeout))
		defer goh.Cancel()
		post := func(i int, done chan struct{}, rctx ...context.Context) {
			defer close(done)
			defer func() {
				if r := recover(); r != nil {
					mu.Lock()
					panics = append(panics, fmt.Sprint(r))
					mu.Unlock()
				}
			}()
			data, _ := proto.Marshal(&goat.Rpc{Id: uint64(i), Header: &goatorepo.RequestHeader{Method: "/x/y", Source: "peer", Destination: "d"}, Body: &goatorepo.Body{Data: []byte{byte(i)}}})
			rec := httptest.NewRecorder()
			req := httptest.NewRequest("POST", "/", bytes.NewReader(data))
			if len(rctx) > 0 {
				req = req.WithContext(rctx[0])
			}
			goh.ServeHTTP(rec, req)
			mu.Lock()
			codes = append(codes, rec.Code)
			mu.Unlock()
		}
		var rw goat.RpcReadWriter
		if c.Fresh {
			// a connection that exists but has never completed a Read or a Write
			rw = goh.NewConnection("peer")
		} else {
			// establish the connection with one delivered envelope (this stamps its last activity)
			d0 := make(chan struct{})
			go post(100, d0)
			kit.Settle()
			mu.Lock()
			rw = conn
			mu.Unlock()
			if rw == nil {
				v.failf("onConnect was not called for the first envelope")
				return
			}
			if _, err := rw.Read(context.Background()); err != nil {
				v.failf("first read failed: %v", err)
				return
			}
			kit.Settle()
		}
		// deliveries that park for lack of a reader and are then given up by their sender
		for i := 0; i < c.Abandoned; i++ {
			actx, acancel := context.WithCancel(context.Background())
			d := make(chan struct{})
			go post(200+i, d, actx)
			kit.Settle()
			acancel()
			kit.Settle()
			select {
			case <-d:
			default:
				v.failf("a POST whose request context had ended is still parked in ServeHTTP")
			}
		}
		// park further deliveries / a reader
		var dones []chan struct{}
		for i := 0; i < c.Parked; i++ {
			d := make(chan struct{})
			dones = append(dones, d)
			go post(i, d)
		}
		rdone := make(chan struct{})
		if c.ReaderOn {
			go func() {
				defer close(rdone)
				ctx, cancel := context.WithTimeout(context.Background(), time.Hour)
				defer cancel()
				_, readerErr = rw.Read(ctx)
			}()
		}
		kit.Settle()
		// move the fake clock so that at the next tick the connection's age is timeout+AgeSec
		clk.Advance(timeout + time.Duration(c.AgeSec)*time.Second - interval)
		kit.Settle()
		for i := 0; i < c.Ticks; i++ {
			clk.Advance(interval) // fires the cleaner's ticker
			kit.Settle()
		}
		if c.ReaderOn {
			select {
			case <-rdone:
				readerReturned = true
			default:
			}
		}
		// whatever is still parked is released by a reader now (if the connection still exists)
		for range dones {
			ctx, cancel := context.WithTimeout(context.Background(), time.Second)
			_, _ = rw.Read(ctx)
			cancel()
		}
		kit.Settle()
	})
	if res.Panic != nil {
		v.failf("panic: %v\n%s", res.Panic, res.Stack)
	}
	if len(panics) > 0 {
		v.failf("ServeHTTP panicked while the idle cleaner closed the connection under a parked delivery: %s", panics[0])
	}
	if c.ReaderOn && expired && c.Ticks >= 1 && !readerReturned {
		v.failf("connection idle past its timeout (age = timeout%+ds, %d cleaner ticks) but its blocked reader was not failed", c.AgeSec, c.Ticks)
	}
	if c.ReaderOn && readerReturned && readerErr == nil {
		v.failf("reader returned an envelope that nobody sent")
	}
	v.Info = kit.CaseInfo{Labels: []string{fmt.Sprintf("idle.parked=%d", c.Parked), fmt.Sprintf("idle.expired=%v", expired), fmt.Sprintf("idle.reader=%v", c.ReaderOn), fmt.Sprintf("idle.fresh=%v", c.Fresh), fmt.Sprintf("idle.abandoned_posts=%v", c.Abandoned > 0)}, NonTrivial: true, Key: fmt.Sprintf("%+v", c), Sample: c}
	return
}

func TestC19Idle(t *testing.T) { checkProp(t, "C19", "idle", genC19Idle, execC19Idle) }

// FuzzC19Decode: byte-level fuzzing of the HTTP entry point (decode + validation), oracle = reference proto.Unmarshal.
func FuzzC19Decode(f *testing.F) {
	seedRpc, _ := proto.Marshal(&goat.Rpc{Id: 1, Header: &goatorepo.RequestHeader{Method: "/a/b", Source: "s", Destination: "d"}, Body: &goatorepo.Body{Data: []byte("x")}, Trailer: &goatorepo.Trailer{}})
	f.Add(seedRpc)
	f.Add([]byte{})
	f.Add([]byte{0x12, 0x00})
	f.Add([]byte{0xff, 0xff, 0xff})
	w, _ := proto.Marshal(&wrapperspb.BytesValue{Value: []byte("zzz")})
	f.Add(w)
	f.Fuzz(func(t *testing.T, data []byte) {
		c := C19Raw{Transport: "http", Mode: "random", Data: data}
		if v := execC19Raw(t, c); v.Fail != "" {
			writeReplay("C19", "raw", v.Fail, c, nil)
			t.Fatalf("VERIF-FAIL C19/fuzz: %s", v.Fail)
		}
	})
}

// ---- concurrent writers on one connection ----------------------------------------------------
//
// goat itself writes to a transport from several goroutines at once (every unary caller writes its own request), so
// "read equal to what was written" must hold for envelopes written concurrently: each arrives exactly once, unchanged,
// and the envelopes of one writer stay in that writer's order.

type C19Conc struct {
	Transport string      `json:"transport"`
	Writers   [][]RpcSpec `json:"writers"`
}

func genC19Conc(t *rapid.T) C19Conc {
	c := C19Conc{Transport: rapid.SampledFrom([]string{"channel", "websocket", "http", "http"}).Draw(t, "transport")}
	nw := rapid.IntRange(2, 8).Draw(t, "writers")
	// now and then a crowd: a hundred goroutines write one small envelope each while the reader is busy elsewhere
	// for a moment (goat writes from as many goroutines as there are callers)
	crowd := rapid.IntRange(0, 9).Draw(t, "crowd") == 0
	if crowd {
		nw = rapid.SampledFrom([]int{70, 100, 160}).Draw(t, "crowd_writers")
	}
	for w := 0; w < nw; w++ {
		var seq []RpcSpec
		k := rapid.IntRange(1, 3).Draw(t, "k")
		maxBody := 262144
		if crowd {
			k, maxBody = 1, 64
		}
		for j := 0; j < k; j++ {
			s := genRpcSpec(t, maxBody, true)
			s.ID = uint64(w)<<32 | uint64(j)
			seq = append(seq, s)
		}
		c.Writers = append(c.Writers, seq)
	}
	return c
}

func execC19Conc(t *testing.T, c C19Conc) (v Verdict) {
	total := 0
	want := map[uint64]*goat.Rpc{}
	for _, seq := range c.Writers {
		for _, s := range seq {
			x := s.Build()
			if x.Header == nil {
				x.Header = &goatorepo.RequestHeader{}
			}
			x.Header.Source = "peer"
			want[x.GetId()] = x
			total++
		}
	}
	ctx, cancel := context.WithTimeout(context.Background(), netBudget)
	defer cancel()
	var writeEnd, readEnd goat.RpcReadWriter
	var announced atomic.Int32
	switch c.Transport {
	case "channel":
		q := make(chan *goat.Rpc)
		writeEnd, readEnd = goat.NewGoatOverChannel(nil, q), goat.NewGoatOverChannel(q, nil)
	case "websocket":
		cl, sv, _, _, cleanup := wsPair(t)
		defer cleanup()
		writeEnd, readEnd = cl, sv
	case "http":
		connected := make(chan goat.RpcReadWriter, 64)
		recv := goat.NewGoatOverHttp(func(id string, rw goat.RpcReadWriter) {
			if announced.Add(1) == 1 {
				connected <- rw
			}
		}, func(src string) (string, error) { return "addr-of-" + src, nil })
		defer recv.Cancel()
		hs := httptest.NewServer(recv)
		defer hs.Close()
		send := goat.NewGoatOverHttp(func(string, goat.RpcReadWriter) {}, func(s string) (string, error) { return s, nil })
		defer send.Cancel()
		writeEnd = send.NewConnection(strings.TrimPrefix(hs.URL, "http://"))
		readEnd = lazyRW{connected}
	}
	var mu sync.Mutex
	var got []*goat.Rpc
	rdone := make(chan struct{})
	go func() {
		defer close(rdone)
		for i := 0; i < total; i++ {
			if i == 1 && len(c.Writers) > 32 {
				time.Sleep(300 * time.Millisecond) // the application is busy; the crowd's writes pile up meanwhile
			}
			x, err := readEnd.Read(ctx)
			if err != nil {
				return
			}
			mu.Lock()
			got = append(got, x)
			mu.Unlock()
		}
	}()
	var wg sync.WaitGroup
	werrs := make([]error, len(c.Writers))
	start := make(chan struct{})
	for w, seq := range c.Writers {
		w, seq := w, seq
		wg.Add(1)
		go func() {
			defer wg.Done()
			<-start
			for _, s := range seq {
				if err := writeEnd.Write(ctx, proto.Clone(want[s.ID]).(*goat.Rpc)); err != nil {
					werrs[w] = err
					return
				}
			}
		}()
	}
	close(start)
	wg.Wait()
	if n := announced.Load(); n > 1 {
		// whatever else happens: all writers share one source, so one logical connection is what the receiving end may
		// announce for them; with several, the envelopes of one conversation are split between readers that know nothing
		// of each other (and "in write order" has no meaning any more)
		v.failf("%s: the receiving endpoint announced %d logical connections for one source whose first envelopes arrived concurrently", c.Transport, n)
	}
	for w, err := range werrs {
		if v.Fail != "" {
			break
		}
		if err != nil {
			if ctx.Err() != nil {
				inconclusive(t, "%s: concurrent writes exceeded %v", c.Transport, netBudget)
			}
			v.failf("%s: writer %d: write of a well-formed envelope failed: %v", c.Transport, w, err)
		}
	}
	if v.Fail == "" {
		select {
		case <-rdone:
		case <-time.After(10 * time.Second):
			mu.Lock()
			n := len(got)
			mu.Unlock()
			v.failf("%s: %d envelopes were written concurrently without error but only %d could be read", c.Transport, total, n)
		}
	}
	cancel()
	<-rdone
	mu.Lock()
	defer mu.Unlock()
	if v.Fail == "" {
		seen := map[uint64]bool{}
		last := map[uint64]int64{}
		for _, x := range got {
			id := x.GetId()
			w, j := id>>32, int64(id&0xffffffff)
			if want[id] == nil {
				v.failf("%s: an envelope with id %#x was read that nobody wrote", c.Transport, id)
				break
			}
			if seen[id] {
				v.failf("%s: envelope %#x was read twice", c.Transport, id)
				break
			}
			seen[id] = true
			if !proto.Equal(x, want[id]) {
				v.failf("%s: envelope %#x (writer %d of %d concurrent ones) changed in transit:\n got  %v\n want %v", c.Transport, id, w, len(c.Writers), truncStr(x.String()), truncStr(want[id].String()))
				break
			}
			if prev, ok := last[w]; ok && prev >= j {
				v.failf("%s: the envelopes of writer %d arrived out of that writer's order", c.Transport, w)
				break
			}
			last[w] = j
		}
		if v.Fail == "" && len(got) != total {
			v.failf("%s: %d envelopes read, %d written", c.Transport, len(got), total)
		}
	}
	v.Info = kit.CaseInfo{Labels: []string{"conc." + c.Transport, fmt.Sprintf("conc.writers>=4=%v", len(c.Writers) >= 4), fmt.Sprintf("conc.crowd=%v", len(c.Writers) > 32)}, NonTrivial: true, Key: fmt.Sprintf("%+v", c),
		Sample: map[string]any{"transport": c.Transport, "writers": len(c.Writers), "envelopes": total}}
	return
}

// lazyRW reads from the logical connection that the receiving HTTP endpoint announces on first use.
type lazyRW struct{ ch chan goat.RpcReadWriter }

func (l lazyRW) Read(ctx context.Context) (*goat.Rpc, error) {
	select {
	case rw := <-l.ch:
		l.ch <- rw
		return rw.Read(ctx)
	case <-ctx.Done():
		return nil, ctx.Err()
	}
}
func (l lazyRW) Write(ctx context.Context, r *goat.Rpc) error { return fmt.Errorf("read-only") }

func TestC19Conc(t *testing.T) { checkProp(t, "C19", "concurrent-writers", genC19Conc, execC19Conc) }

// ---- one envelope object written again and again, changed in place in between ------------------
//
// An application (a relay, a load generator, goat's own proxy) may keep an *Rpc, change its fields and write it again.
// Each write must carry what the object holds at that moment.

type C19ReuseStep struct {
	Body   int `json:"body"`   // new length of Body.Data
	Method int `json:"method"` // new length of Header.Method
	KVs    int `json:"kvs"`    // new number of header metadata entries
	Msg    int `json:"msg"`    // new length of Status.Message
}

type C19Reuse struct {
	Transport string         `json:"transport"` // websocket | http
	Steps     []C19ReuseStep `json:"steps"`
}

func genC19Reuse(t *rapid.T) C19Reuse {
	c := C19Reuse{Transport: rapid.SampledFrom([]string{"websocket", "http"}).Draw(t, "transport")}
	n := rapid.IntRange(2, 8).Draw(t, "n")
	for i := 0; i < n; i++ {
		c.Steps = append(c.Steps, C19ReuseStep{Body: rapid.SampledFrom([]int{0, 1, 100, 127, 128, 300, 20000}).Draw(t, "body"), Method: rapid.IntRange(0, 200).Draw(t, "method"),
			KVs: rapid.IntRange(0, 3).Draw(t, "kvs"), Msg: rapid.SampledFrom([]int{0, 5, 127, 128, 1000}).Draw(t, "msg")})
	}
	return c
}

func execC19Reuse(t *testing.T, c C19Reuse) (v Verdict) {
	ctx, cancel := context.WithTimeout(context.Background(), netBudget)
	defer cancel()
	var writeEnd, readEnd goat.RpcReadWriter
	switch c.Transport {
	case "websocket":
		cl, sv, _, _, cleanup := wsPair(t)
		defer cleanup()
		writeEnd, readEnd = cl, sv
	case "http":
		connected := make(chan goat.RpcReadWriter, 8)
		recv := goat.NewGoatOverHttp(func(id string, rw goat.RpcReadWriter) { connected <- rw }, func(src string) (string, error) { return "addr-of-" + src, nil })
		defer recv.Cancel()
		hs := httptest.NewServer(recv)
		defer hs.Close()
		send := goat.NewGoatOverHttp(func(string, goat.RpcReadWriter) {}, func(s string) (string, error) { return s, nil })
		defer send.Cancel()
		writeEnd = send.NewConnection(strings.TrimPrefix(hs.URL, "http://"))
		readEnd = lazyRW{connected}
	}
	var mu sync.Mutex
	var got []*goat.Rpc
	rdone := make(chan struct{})
	go func() {
		defer close(rdone)
		for range c.Steps {
			x, err := readEnd.Read(ctx)
			if err != nil {
				return
			}
			mu.Lock()
			got = append(got, x)
			mu.Unlock()
		}
	}()
	// the one object
	r := &goat.Rpc{Header: &goatorepo.RequestHeader{Source: "peer", Destination: "d"}, Body: &goatorepo.Body{}, Status: &goatorepo.ResponseStatus{}}
	var want []*goat.Rpc
	for i, st := range c.Steps {
		r.Id = uint64(i + 1)
		r.Header.Method = strings.Repeat("m", st.Method)
		r.Header.Headers = r.Header.Headers[:0]
		for k := 0; k < st.KVs; k++ {
			r.Header.Headers = append(r.Header.Headers, &goatorepo.KeyValue{Key: fmt.Sprintf("k%d", k), Value: strings.Repeat("v", i+k)})
		}
		r.Body.Data = bytes.Repeat([]byte{byte(i + 1)}, st.Body)
		r.Status.Message = strings.Repeat("s", st.Msg)
		want = append(want, proto.Clone(r).(*goat.Rpc))
		if err := writeEnd.Write(ctx, r); err != nil {
			if ctx.Err() != nil {
				inconclusive(t, "%s: writes of a reused envelope exceeded %v", c.Transport, netBudget)
			}
			v.failf("%s: write #%d of an envelope object that had been written before and changed in place failed: %v", c.Transport, i, err)
			break
		}
	}
	if v.Fail == "" {
		select {
		case <-rdone:
		case <-time.After(10 * time.Second):
			v.failf("%s: %d envelopes were written without error but not all could be read", c.Transport, len(want))
		}
	}
	cancel()
	<-rdone
	mu.Lock()
	defer mu.Unlock()
	if v.Fail == "" {
		if len(got) != len(want) {
			v.failf("%s: %d envelopes read, %d written", c.Transport, len(got), len(want))
		}
		for i := range got {
			if i < len(want) && !proto.Equal(got[i], want[i]) {
				v.failf("%s: write #%d of a reused envelope object arrived as %s, the object held %s when it was written", c.Transport, i, truncStr(got[i].String()), truncStr(want[i].String()))
				break
			}
		}
	}
	v.Info = kit.CaseInfo{Labels: []string{"reuse." + c.Transport}, NonTrivial: true, Key: fmt.Sprintf("%+v", c), Sample: c}
	return
}

func TestC19Reuse(t *testing.T) { checkProp(t, "C19", "object-reuse", genC19Reuse, execC19Reuse) }

// ---- HTTP: the first envelopes of one source arrive at the same instant -------------------------------

// C19First: N POSTs carrying the first envelopes of one source enter ServeHTTP at the same instant (released from a
// spin barrier; no sockets in between, so the instants really coincide), on a fresh receiving endpoint, Rounds times.
// One source is one logical connection: it must be announced once, and all N envelopes must be readable from it.
type C19First struct {
	N      int `json:"n"`
	Rounds int `json:"rounds"`
}

func genC19First(t *rapid.T) C19First {
	return C19First{N: rapid.IntRange(2, 8).Draw(t, "n"), Rounds: rapid.IntRange(8, 24).Draw(t, "rounds")}
}

func execC19First(t *testing.T, c C19First) (v Verdict) {
	for r := 0; r < c.Rounds && v.Fail == ""; r++ {
		var announced atomic.Int32
		conns := make(chan goat.RpcReadWriter, c.N)
		recv := goat.NewGoatOverHttp(func(id string, rw goat.RpcReadWriter) {
			announced.Add(1)
			conns <- rw
		}, func(src string) (string, error) { return "addr-of-" + src, nil })
		var arrived atomic.Int32
		codes := make([]int, c.N)
		var wg sync.WaitGroup
		for i := 0; i < c.N; i++ {
			i := i
			data, _ := proto.Marshal(&goat.Rpc{Id: uint64(i + 1), Header: &goatorepo.RequestHeader{Method: "/x/y", Source: "peer", Destination: "d"}, Body: &goatorepo.Body{Data: []byte{byte(i)}}})
			wg.Add(1)
			go func() {
				defer wg.Done()
				rec := httptest.NewRecorder()
				req := httptest.NewRequest("POST", "/", bytes.NewReader(data))
				arrived.Add(1)
				for k := 0; arrived.Load() < int32(c.N); k++ {
					// spin: all N leave within nanoseconds of each other (yield now and then on machines with few cores)
					if k > 20000 {
						runtime.Gosched()
					}
				}
				recv.ServeHTTP(rec, req)
				codes[i] = rec.Code
			}()
		}
		// read N envelopes from whatever connections get announced (each delivery waits for a reader)
		seen := map[uint64]bool{}
		ctx, cancel := context.WithTimeout(context.Background(), netBudget)
		var rws []goat.RpcReadWriter
		got := make(chan *goat.Rpc, c.N)
		var rwg sync.WaitGroup
		collect := func(rw goat.RpcReadWriter) {
			rws = append(rws, rw)
			rwg.Add(1)
			go func() {
				defer rwg.Done()
				for {
					x, err := rw.Read(ctx)
					if err != nil {
						return
					}
					got <- x
				}
			}()
		}
		for len(seen) < c.N && ctx.Err() == nil {
			select {
			case rw := <-conns:
				collect(rw)
			case x := <-got:
				seen[x.GetId()] = true
			case <-ctx.Done():
			}
		}
		timedOut := ctx.Err() != nil
		cancel()
		wg.Wait()
		rwg.Wait()
		recv.Cancel()
		if n := announced.Load(); n != 1 {
			v.failf("http: %d POSTs with the first envelopes of one source entered ServeHTTP together (round %d): the endpoint announced %d logical connections for that source, want 1", c.N, r, n)
		} else if timedOut {
			inconclusive(t, "http: concurrent first deliveries exceeded %v", netBudget)
		} else if len(seen) != c.N {
			v.failf("http: %d of %d first envelopes were delivered", len(seen), c.N)
		}
		for i, code := range codes {
			if v.Fail == "" && !timedOut && code != 200 {
				v.failf("http: POST %d of a well-formed envelope was answered %d", i, code)
			}
		}
	}
	v.Info = kit.CaseInfo{Labels: []string{"first-envelopes-together"}, NonTrivial: true, Key: fmt.Sprintf("%+v", c), Sample: c}
	return
}

func TestC19First(t *testing.T) { checkProp(t, "C19", "first", genC19First, execC19First) }

// ---- network transports: a reader that takes its time (real time) ----------------------------------------

// C19SlowReader: over a real loopback WebSocket (or HTTP), K envelopes are written while the reader pauses PauseMs of
// real time before its second Read - nothing is wrong with the connection, the application is merely busy. Every
// envelope whose Write returned nil must still be read, in order.
type C19SlowReader struct {
	Transport string `json:"transport"`
	K         int    `json:"k"`
	PauseMs   int    `json:"pause_ms"`
}

func genC19SlowReader(t *rapid.T) C19SlowReader {
	p := 7000
	if thorough() {
		p = rapid.SampledFrom([]int{7000, 12000, 21000}).Draw(t, "pause_ms")
	}
	return C19SlowReader{Transport: rapid.SampledFrom([]string{"websocket", "websocket", "http"}).Draw(t, "transport"), K: rapid.IntRange(2, 5).Draw(t, "k"), PauseMs: p}
}

func execC19SlowReader(t *testing.T, c C19SlowReader) (v Verdict) {
	ctx, cancel := context.WithTimeout(context.Background(), time.Duration(c.PauseMs)*time.Millisecond+netBudget)
	defer cancel()
	var writeEnd, readEnd goat.RpcReadWriter
	switch c.Transport {
	case "websocket":
		cl, sv, _, _, cleanup := wsPair(t)
		defer cleanup()
		writeEnd, readEnd = cl, sv
	default:
		connected := make(chan goat.RpcReadWriter, 1)
		var once sync.Once
		recv := goat.NewGoatOverHttp(func(id string, rw goat.RpcReadWriter) { once.Do(func() { connected <- rw }) }, func(src string) (string, error) { return "addr-of-" + src, nil })
		defer recv.Cancel()
		hs := httptest.NewServer(recv)
		defer hs.Close()
		send := goat.NewGoatOverHttp(func(string, goat.RpcReadWriter) {}, func(s string) (string, error) { return s, nil })
		defer send.Cancel()
		writeEnd = send.NewConnection(strings.TrimPrefix(hs.URL, "http://"))
		readEnd = lazyRW{connected}
	}
	env := func(i int) *goat.Rpc {
		return &goat.Rpc{Id: uint64(i + 1), Header: &goatorepo.RequestHeader{Method: "/x/y", Source: "peer", Destination: "d"}, Body: &goatorepo.Body{Data: []byte{byte(i)}}}
	}
	werrs := make(chan error, c.K)
	go func() {
		for i := 0; i < c.K; i++ {
			werrs <- writeEnd.Write(ctx, env(i))
		}
	}()
	var got []uint64
	var rerr error
	for i := 0; i < c.K; i++ {
		if i == 1 {
			time.Sleep(time.Duration(c.PauseMs) * time.Millisecond) // the application is busy
		}
		x, err := readEnd.Read(ctx)
		if err != nil {
			rerr = err
			break
		}
		got = append(got, x.GetId())
	}
	written := 0
	for i := 0; i < c.K; i++ {
		select {
		case err := <-werrs:
			if err == nil {
				written++
			}
		default:
		}
	}
	if ctx.Err() != nil {
		inconclusive(t, "%s: slow-reader exchange exceeded its budget", c.Transport)
	}
	for i, id := range got {
		if id != uint64(i+1) {
			v.failf("%s: envelope #%d read has id %d", c.Transport, i+1, id)
		}
	}
	if rerr != nil {
		v.failf("%s: after a pause of %d ms between two Reads on a healthy connection the next Read failed: %v (%d envelopes had been written without error, %d read)", c.Transport, c.PauseMs, rerr, written, len(got))
	} else if len(got) != c.K {
		v.failf("%s: %d of %d envelopes read", c.Transport, len(got), c.K)
	}
	v.Info = kit.CaseInfo{Labels: []string{"slow-reader." + c.Transport}, NonTrivial: true, Key: fmt.Sprintf("%+v", c), Sample: c}
	return
}

func TestC19SlowReader(t *testing.T) {
	checkProp(t, "C19", "slow-reader", genC19SlowReader, execC19SlowReader)
}
