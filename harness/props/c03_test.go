package props

import (
	"bytes"
	"context"
	"fmt"
	"sync"
	"testing"
	"time"

	goat "github.com/avos-io/goat"
	"google.golang.org/grpc/codes"
	"google.golang.org/grpc/metadata"
	"google.golang.org/grpc/status"
	"pgregory.net/rapid"
	"verifharness/kit"
)

// ---- C03 main: goat server, generated handler outcomes ---------------------

// genC03Base is the generator shared with C06 and C15.
func genC03Base(t *rapid.T) ConvCase {
	return genConvCase(t, 4, allKinds, kit.GenOpts{MaxMsgs: 10, MaxPayload: 4096, OKBias: 25, WithMD: true}, []string{"direct", "direct", "demux", "proxy"})
}

// genC03 adds unusual but legal orders of the caller's API calls: the handler's status must reach the caller whatever
// the caller does around it. (Not fed to the C06 wire monitor: whether a second CloseSend may put a second trailer on
// the wire is not something property C06's programs cover.)
func genC03(t *rapid.T) ConvCase {
	c := genC03Base(t)
	for i := range c.Convs {
		cv := &c.Convs[i]
		if cv.Kind == kit.KindUnary {
			continue
		}
		switch rapid.SampledFrom([]string{"", "", "", "close-twice", "recv-after-end"}).Draw(t, "api_order") {
		case "close-twice":
			var ops []kit.COp
			for _, op := range cv.COps {
				ops = append(ops, op)
				if op.Op == "close" {
					ops = append(ops, kit.COp{Op: "close"})
				}
			}
			cv.COps = ops
		case "recv-after-end":
			cv.COps = append(cv.COps, kit.COp{Op: "recv"}, kit.COp{Op: "recv"})
		}
	}
	return c
}

func errNonTrivial(e kit.ErrSpec) bool {
	return e.Build() != nil && len(e.Details) > 0
}

func execC03(t *testing.T, c ConvCase) (v Verdict) {
	outs, tap, res, sched := kit.RunConvs(t, c.Convs, c.opts())
	if res.Panic != nil {
		v.failf("panic: %v\n%s", res.Panic, res.Stack)
	}
	nt := false
	var labels []string
	for _, o := range outs {
		cv := o.Conv
		if cv.Kind == kit.KindUnary {
			if !o.UDone {
				v.failf("%s: Invoke never returned", o.Name)
				continue
			}
			if msg := oracleStatus(o.Name, cv.UErr, o.UErr, false); msg != "" {
				v.failf("%s", msg)
			}
			if cv.UErr.Build() == nil && !bytes.Equal(o.UReply, cv.Reply.Bytes()) {
				v.failf("%s: successful reply differs from the handler's", o.Name)
			}
			labels = append(labels, "unary.ret="+cv.UErr.Kind)
			if cv.UErr.Build() != nil {
				labels = append(labels, fmt.Sprintf("code=%d", cv.UErr.Code))
			}
			nt = nt || errNonTrivial(cv.UErr)
			continue
		}
		if !o.C.Done || o.C.RecvEnd == nil {
			v.failf("%s: caller never observed the end of the stream", o.Name)
			continue
		}
		if msg := oracleStatus(o.Name, cv.H.Ret, *o.C.RecvEnd, true); msg != "" {
			v.failf("%s", msg)
		}
		// receives after the end report the same outcome again: never data, never a different status
		for k, a := range o.C.RecvAfter {
			if msg := oracleStatus(o.Name, cv.H.Ret, a, true); msg != "" {
				v.failf("receive #%d after the end of the stream: %s", k+1, msg)
			}
			labels = append(labels, "api_order=recv-after-end")
		}
		if n := countCOps(cv.COps, "close"); n >= 2 {
			labels = append(labels, "api_order=close-twice")
		}
		labels = append(labels, "stream.ret="+cv.H.Ret.Kind)
		if cv.H.Ret.Build() != nil {
			labels = append(labels, fmt.Sprintf("code=%d", cv.H.Ret.Code))
			// position of the failure within the RPC
			nr, ns := countOps(cv.H.Ops, "recv"), countOps(cv.H.Ops, "send")
			switch {
			case nr == 0 && ns == 0:
				labels = append(labels, "pos=before-any-message")
			case nr <= len(clientSendPayloads(cv)):
				labels = append(labels, "pos=mid-stream")
				nt = true
			default:
				labels = append(labels, "pos=after-last-message")
			}
		}
		nt = nt || errNonTrivial(cv.H.Ret)
	}
	l2, _, _, _ := convLabels(c, tap)
	v.Info = kit.CaseInfo{Labels: append(labels, l2...), NonTrivial: nt, Key: c.key(), Sample: convSample(c)}
	if v.Fail != "" {
		v.Detail = convDetail(outs, tap, sched)
	}
	return
}

func TestC03(t *testing.T) { checkProp(t, "C03", "main", genC03, execC03) }

// ---- C03 foreign peer: scripted envelopes instead of a goat server ---------

type C03Foreign struct {
	Kind  int          `json:"kind"`
	Shape string       `json:"shape"`
	Code  int32        `json:"code"`
	Msg   string       `json:"msg"`
	Det   []kit.Detail `json:"det,omitempty"`
	Via   string       `json:"via,omitempty"` // "" (direct) | proxy | demux: what lies between the caller and the scripted peer
	Body  kit.Payload  `json:"body"`
	Ser   bool         `json:"ser"`
}

var c03UnaryShapes = []string{"ok-status-body", "status-empty-trailer", "status-no-trailer", "status-with-body", "reset-alone", "plain-body"}
var c03StreamShapes = []string{"reset-alone", "reset-no-trailer", "reset-before-trailer", "reset-after-error-trailer", "reset-after-ok-trailer",
	"ok-trailer-explicit", "nonok-trailer-empty-md", "trailer-no-status", "body-then-reset"}

func genC03Foreign(t *rapid.T) C03Foreign {
	c := C03Foreign{Kind: rapid.SampledFrom(allKinds).Draw(t, "kind"), Ser: rapid.Bool().Draw(t, "ser"), Via: rapid.SampledFrom([]string{"", "", "proxy", "demux"}).Draw(t, "via")}
	if c.Kind == kit.KindUnary {
		c.Shape = rapid.SampledFrom(c03UnaryShapes).Draw(t, "shape")
	} else {
		c.Shape = rapid.SampledFrom(c03StreamShapes).Draw(t, "shape")
	}
	c.Code = int32(rapid.IntRange(1, 16).Draw(t, "code"))
	c.Msg = rapid.StringMatching(`[a-zé ]{0,12}`).Draw(t, "msg")
	n := rapid.IntRange(0, 2).Draw(t, "ndet")
	for i := 0; i < n; i++ {
		c.Det = append(c.Det, kit.Detail{Kind: "str", S: rapid.StringMatching(`[a-z]{0,6}`).Draw(t, "det")})
	}
	c.Body = kit.GenPayload(2048).Draw(t, "body")
	return c
}

func execC03Foreign(t *testing.T, c C03Foreign) (v Verdict) {
	var uReply []byte
	var uErr error
	uDone := false
	clog := &kit.CLog{}
	var tap []kit.Ev
	res := kit.Bubble(t, func() {
		tp := kit.NewTap()
		l := kit.NewLink("c0", tp, c.Ser)
		// how the scripted peer is reached: directly, through a goat.Proxy, or as a logical connection of a goat.Demux
		clientEnd := goat.RpcReadWriter(l.A)
		readReqs := func() []*goat.Rpc { return l.B.ReadAvailable() }
		writeReply := func(r *goat.Rpc) { _ = l.B.Write(context.Background(), r) }
		closeAll := func() { l.Close() }
		switch c.Via {
		case "proxy":
			pw := newPxWorld(c.Ser, nil)
			cl, sv := pw.attach("c0"), pw.attach(kit.ServerName)
			clientEnd = cl.A
			readReqs = func() []*goat.Rpc { return sv.A.ReadAvailable() }
			writeReply = func(r *goat.Rpc) { _ = sv.A.Write(context.Background(), r) }
			closeAll = func() { cl.Close(); sv.Close(); pw.cancel() }
		case "demux":
			var dmu sync.Mutex
			var lrw goat.RpcReadWriter
			var got []*goat.Rpc
			dctx, dcancel := context.WithCancel(context.Background())
			dm := goat.NewDemux(dctx, l.B, func(r *goat.Rpc) string { return r.GetHeader().GetSource() }, func(rw goat.RpcReadWriter) {
				dmu.Lock()
				lrw = rw
				dmu.Unlock()
				for {
					r, err := rw.Read(dctx)
					if err != nil {
						return
					}
					dmu.Lock()
					got = append(got, r)
					dmu.Unlock()
				}
			})
			go dm.Run()
			readReqs = func() []*goat.Rpc {
				dmu.Lock()
				defer dmu.Unlock()
				out := got
				got = nil
				return out
			}
			writeReply = func(r *goat.Rpc) {
				dmu.Lock()
				rw := lrw
				dmu.Unlock()
				if rw != nil {
					_ = rw.Write(context.Background(), r)
				}
			}
			closeAll = func() { l.Close(); dm.Cancel("c0"); dm.Stop(); dcancel() }
		}
		cc := goat.NewClientConn(clientEnd, "c0", kit.ServerName)
		ctx, cancel := context.WithCancel(context.Background())
		defer cancel()
		method := kit.FullMethod("f")
		go func() {
			if c.Kind == kit.KindUnary {
				uReply, uErr = kit.Invoke(ctx, cc, "f", []byte("ping"))
				uDone = true
				return
			}
			cs, err := cc.NewStream(ctx, kit.StreamDescFor(c.Kind), method)
			if err != nil {
				return
			}
			kit.RunClientOps([]kit.COp{{Op: "recvall"}, {Op: "recv"}}, cs, cancel, clog)
		}()
		kit.Settle()
		reqs := readReqs()
		if len(reqs) == 0 {
			v.failf("no request envelope appeared")
			return
		}
		id := reqs[0].GetId()
		st := &kit.StatusSpec{Code: c.Code, Msg: c.Msg, Details: c.Det}
		okst := &kit.StatusSpec{Code: 0, Msg: "OK"}
		var envs []kit.EnvSpec
		switch c.Shape {
		case "ok-status-body":
			envs = []kit.EnvSpec{{Status: okst, Body: &c.Body, Trailer: true}}
		case "plain-body":
			envs = []kit.EnvSpec{{Body: &c.Body, Trailer: true}}
		case "status-empty-trailer", "nonok-trailer-empty-md":
			envs = []kit.EnvSpec{{Status: st, Trailer: true}}
		case "status-no-trailer":
			envs = []kit.EnvSpec{{Status: st}}
		case "status-with-body":
			envs = []kit.EnvSpec{{Status: st, Body: &c.Body, Trailer: true}}
		case "reset-alone":
			envs = []kit.EnvSpec{{Reset: "RST_STREAM", Trailer: true}}
		case "reset-no-trailer":
			envs = []kit.EnvSpec{{Reset: "RST_STREAM"}}
		case "reset-before-trailer":
			envs = []kit.EnvSpec{{Reset: "RST_STREAM", Trailer: true}, {Status: okst, Trailer: true}}
		case "reset-after-error-trailer":
			envs = []kit.EnvSpec{{Status: st, Trailer: true}, {Reset: "RST_STREAM", Trailer: true}}
		case "reset-after-ok-trailer":
			envs = []kit.EnvSpec{{Body: &c.Body}, {Status: okst, Trailer: true}, {Reset: "RST_STREAM", Trailer: true}}
		case "ok-trailer-explicit":
			envs = []kit.EnvSpec{{Body: &c.Body}, {Status: okst, Trailer: true}}
		case "trailer-no-status":
			envs = []kit.EnvSpec{{Body: &c.Body}, {Trailer: true}}
		case "body-then-reset":
			envs = []kit.EnvSpec{{Body: &c.Body}, {Reset: "RST_STREAM", Trailer: true}}
		}
		for _, e := range envs {
			e.Wrap = true
			writeReply(e.Build(id, method, kit.ServerName, "c0"))
			kit.Settle()
		}
		kit.Settle()
		// whatever is still pending must end when the connection goes away
		closeAll()
		kit.Settle()
		cancel()
		kit.Settle()
		tap = tp.Snapshot()
	})
	if res.Panic != nil {
		v.failf("panic: %v\n%s", res.Panic, res.Stack)
	}
	wantBody := c.Body.Bytes()
	checkErr := func(err error, wantCode int32, wantMsg string, det int) {
		stt, ok := status.FromError(err)
		if err == nil || !ok {
			v.failf("shape %s: want status error code %d, got %v", c.Shape, wantCode, err)
			return
		}
		if int32(stt.Code()) != wantCode || stt.Message() != wantMsg || len(stt.Proto().GetDetails()) != det {
			v.failf("shape %s: got status (%d,%q,%d details), peer sent (%d,%q,%d details)", c.Shape, stt.Code(), stt.Message(), len(stt.Proto().GetDetails()), wantCode, wantMsg, det)
		}
	}
	if c.Kind == kit.KindUnary {
		if !uDone {
			v.failf("shape %s: Invoke never returned", c.Shape)
		} else {
			switch c.Shape {
			case "ok-status-body", "plain-body":
				if uErr != nil || !bytes.Equal(uReply, wantBody) {
					v.failf("shape %s: a reply with a body and OK/absent status is a success with that body; got err=%v body=%s", c.Shape, uErr, kit.Digest(uReply))
				}
			case "status-empty-trailer", "status-no-trailer", "status-with-body":
				checkErr(uErr, c.Code, c.Msg, len(c.Det))
			case "reset-alone":
				if uErr == nil {
					v.failf("shape %s: a reset was reported as success", c.Shape)
				}
			}
		}
	} else {
		s := clog.Snapshot()
		if !s.Done || s.RecvEnd == nil {
			v.failf("shape %s: caller still blocked after the connection was closed", c.Shape)
		} else {
			end := *s.RecvEnd
			switch c.Shape {
			case "reset-alone", "reset-no-trailer", "reset-before-trailer", "body-then-reset":
				if end.EOF || end.Nil {
					v.failf("shape %s: stream reset by the peer was reported as a clean end (io.EOF)", c.Shape)
				}
				if st, ok := status.FromError(end.Err()); ok && st.Code() == codes.OK {
					v.failf("shape %s: reset surfaced with code OK", c.Shape)
				}
			case "reset-after-error-trailer", "nonok-trailer-empty-md":
				checkErr(end.Err(), c.Code, c.Msg, len(c.Det))
			case "reset-after-ok-trailer", "ok-trailer-explicit", "trailer-no-status":
				if !end.EOF {
					v.failf("shape %s: want io.EOF, got %q", c.Shape, end.Raw)
				}
				if len(s.Recv) != 1 || !bytes.Equal(s.Recv[0], wantBody) {
					v.failf("shape %s: want exactly the one body the peer sent, got %v", c.Shape, s.RecvD)
				}
			}
			if c.Shape == "body-then-reset" && len(s.Recv) > 1 {
				v.failf("shape %s: received %d messages, peer sent one", c.Shape, len(s.Recv))
			}
			for _, a := range s.RecvAfter {
				if a.Nil {
					v.failf("shape %s: data after the end of the stream", c.Shape)
				}
			}
		}
	}
	v.Info = kit.CaseInfo{Labels: []string{"kind=" + kit.KindNames[c.Kind], "shape=" + c.Shape, fmt.Sprintf("ser=%v", c.Ser), "foreign.via=" + map[string]string{"": "direct", "proxy": "proxy", "demux": "demux"}[c.Via]},
		NonTrivial: true, Key: fmt.Sprintf("%d/%s/%d/%s/%d/%s/%v", c.Kind, c.Shape, c.Code, c.Msg, len(c.Det), c.Body.String(), c.Ser), Sample: c}
	if v.Fail != "" {
		v.Detail = map[string]any{"wire": tapSummary(tap, 50), "caller": clog.Snapshot()}
	}
	return
}

func TestC03Foreign(t *testing.T) { checkProp(t, "C03", "foreign", genC03Foreign, execC03Foreign) }

// ---- C03 reset race: the server's reset for a late body vs the held trailer ---

type C03Race struct {
	Kind  int         `json:"kind"` // client or bidi
	Ret   kit.ErrSpec `json:"ret"`
	Read  int         `json:"read"` // messages the handler reads before returning
	Late  int         `json:"late"` // bodies the caller sends after the handler returned (>=1)
	Ser   bool        `json:"ser"`
	Extra int         `json:"extra"` // bystander unary calls
}

func genC03Race(t *rapid.T) C03Race {
	c := C03Race{Kind: rapid.SampledFrom([]int{kit.KindClient, kit.KindBidi}).Draw(t, "kind")}
	c.Ret = kit.GenErrSpec(t, 20)
	c.Read = rapid.IntRange(0, 3).Draw(t, "read")
	c.Late = rapid.IntRange(1, 4).Draw(t, "late")
	c.Ser = rapid.Bool().Draw(t, "ser")
	c.Extra = rapid.IntRange(0, 2).Draw(t, "extra")
	return c
}

func execC03Race(t *testing.T, c C03Race) (v Verdict) {
	clog := &kit.CLog{}
	hlog := &kit.HLog{}
	var tap []kit.Ev
	extraOK := 0
	res := kit.Bubble(t, func() {
		svc := kit.NewSvc()
		var prog kit.HProg
		for i := 0; i < c.Read; i++ {
			prog.Ops = append(prog.Ops, kit.HOp{Op: "recv"})
		}
		prog.Ret = c.Ret
		svc.Stream("s", true, c.Kind == kit.KindBidi, func(s grpcServerStream) error { return kit.RunHandler(prog, s, hlog) })
		svc.Unary("u", func(ctx context.Context, req []byte) ([]byte, error) { return req, nil })
		w := kit.NewWorld(kit.Topo{Kind: "direct", Serialize: c.Ser, Clients: 1}, svc, nil, nil)
		l := w.Links[0]
		// hold the server's stream trailer (a slow Write is legal for a reliable transport)
		l.B.Hold(func(r *kit.Rpc) bool { return r.GetTrailer() != nil && r.GetReset_() == nil && r.GetBody() == nil })
		ctx, cancel := context.WithCancel(context.Background())
		defer cancel()
		cs, err := w.Conn(0).NewStream(ctx, kit.StreamDescFor(c.Kind), kit.FullMethod("s"))
		if err != nil {
			v.failf("open: %v", err)
			return
		}
		pl := kit.Payload{Class: "lit", Lit: []byte{1, 2, 3}}
		var ops []kit.COp
		for i := 0; i < c.Read; i++ {
			ops = append(ops, kit.COp{Op: "send", P: &pl})
		}
		kit.RunClientOps(ops, cs, cancel, clog)
		kit.Settle() // handler has read c.Read messages and returned; its trailer write is parked
		held := l.Held()
		var late []kit.COp
		for i := 0; i < c.Late; i++ {
			late = append(late, kit.COp{Op: "send", P: &pl})
		}
		kit.RunClientOps(late, cs, cancel, clog)
		kit.Settle() // the server has answered the late bodies (reset) while the trailer is still parked
		l.B.Hold(nil)
		for _, h := range held {
			h.Release()
		}
		for _, h := range l.Held() {
			h.Release()
		}
		kit.Settle()
		// (the server has a single writer goroutine, so nothing else can be answered while a write is parked)
		for i := 0; i < c.Extra; i++ {
			if r, err := kit.Invoke(ctx, w.Conn(0), "u", []byte{byte(i)}); err == nil && bytes.Equal(r, []byte{byte(i)}) {
				extraOK++
			}
		}
		done := make(chan struct{})
		go func() {
			kit.RunClientOps([]kit.COp{{Op: "close"}, {Op: "recvall"}, {Op: "trailer"}}, cs, cancel, clog)
			close(done)
		}()
		kit.Settle()
		tap = w.Tap.Snapshot()
		w.Shutdown()
		kit.Settle()
	})
	if res.Panic != nil {
		v.failf("panic: %v\n%s", res.Panic, res.Stack)
	}
	s := clog.Snapshot()
	if s.RecvEnd == nil {
		v.failf("caller never observed the end of the stream")
	} else if msg := oracleStatus("s", c.Ret, *s.RecvEnd, true); msg != "" {
		v.failf("%s (handler returned while the caller was still sending; server reset for the late body vs delayed trailer)", msg)
	}
	if extraOK != c.Extra {
		v.failf("bystander unary calls: %d of %d completed", extraOK, c.Extra)
	}
	// wire order: the reset must not precede the trailer of the handler that ran
	trailerSeen := false
	for _, e := range kit.Filter(tap, "c0", kit.BtoA) {
		if e.Rpc.GetHeader().GetMethod() != kit.FullMethod("s") {
			continue
		}
		if e.Rpc.GetReset_() != nil && !trailerSeen {
			v.failf("server reset for id %d was put on the wire before that stream's trailer", e.Rpc.GetId())
		}
		if e.Rpc.GetTrailer() != nil && e.Rpc.GetReset_() == nil {
			trailerSeen = true
		}
	}
	v.Info = kit.CaseInfo{Labels: []string{"race=armed", "kind=" + kit.KindNames[c.Kind], "ret=" + c.Ret.Kind, fmt.Sprintf("late=%d", c.Late)},
		NonTrivial: true, Key: fmt.Sprintf("%+v", c), Sample: c}
	if v.Fail != "" {
		v.Detail = map[string]any{"wire": tapSummary(tap, 60), "caller": s, "handler": hlog.Snapshot()}
	}
	return
}

func TestC03Race(t *testing.T) { checkProp(t, "C03", "race", genC03Race, execC03Race) }

func countCOps(ops []kit.COp, name string) int {
	n := 0
	for _, o := range ops {
		if o.Op == name {
			n++
		}
	}
	return n
}

// ---- C03 cut: the connection fails in place of the envelope that carries a failed handler's status ----

// C03Cut: a handler returns a failure; the envelope that would tell the caller (the stream's trailer, the unary reply)
// is still in the transport when the caller's Read fails. Whatever error value the transport reports - including a
// bare io.EOF, which on a stream means "ended successfully" when handed to the application unchanged - the caller must
// not be told that the call succeeded.
type C03Cut struct {
	Kind      int         `json:"kind"` // unary, client, server or bidi
	Ret       kit.ErrSpec `json:"ret"`
	Sent      int         `json:"sent"`       // messages the handler sends before failing (server-streaming kinds)
	ErrKind   string      `json:"err_kind"`   // the transport's error value
	WriteFail bool        `json:"write_fail"` // the write side fails too
	Ser       bool        `json:"ser"`
	RecvFirst bool        `json:"recv_first"` // the caller is already parked in its receive when the transport fails
}

func genC03Cut(t *rapid.T) C03Cut {
	c := C03Cut{Kind: rapid.SampledFrom([]int{kit.KindUnary, kit.KindClient, kit.KindServer, kit.KindBidi}).Draw(t, "kind")}
	c.Ret = kit.GenErrSpec(t, 0)
	if c.Kind == kit.KindServer || c.Kind == kit.KindBidi {
		c.Sent = rapid.IntRange(0, 3).Draw(t, "sent")
	}
	c.ErrKind = rapid.SampledFrom(kit.FaultErrKinds).Draw(t, "err_kind")
	c.WriteFail = rapid.Bool().Draw(t, "write_fail")
	c.Ser = rapid.Bool().Draw(t, "ser")
	c.RecvFirst = rapid.Bool().Draw(t, "recv_first")
	return c
}

func execC03Cut(t *testing.T, c C03Cut) (v Verdict) {
	clog := &kit.CLog{}
	hlog := &kit.HLog{}
	var tap []kit.Ev
	var unaryErr error
	unaryDone := false
	pl := kit.Payload{Class: "lit", Lit: []byte{1, 2, 3}}
	res := kit.Bubble(t, func() {
		svc := kit.NewSvc()
		prog := kit.HProg{Ops: []kit.HOp{{Op: "recv"}}}
		for i := 0; i < c.Sent; i++ {
			prog.Ops = append(prog.Ops, kit.HOp{Op: "send", P: &pl})
		}
		prog.Ret = c.Ret
		svc.Stream("s", c.Kind == kit.KindClient || c.Kind == kit.KindBidi, c.Kind == kit.KindServer || c.Kind == kit.KindBidi, func(s grpcServerStream) error { return kit.RunHandler(prog, s, hlog) })
		svc.Unary("u", func(ctx context.Context, req []byte) ([]byte, error) {
			hlog.MarkReturned()
			return nil, c.Ret.Build()
		})
		w := kit.NewWorld(kit.Topo{Kind: "direct", Serialize: c.Ser, Clients: 1}, svc, nil, nil)
		l := w.Links[0]
		// the final envelope of the call stays in the transport (a slow Write is legal for a reliable transport)
		l.B.Hold(func(r *kit.Rpc) bool { return r.GetTrailer() != nil })
		ctx, cancel := context.WithCancel(context.Background())
		defer cancel()
		cut := func() {
			if c.WriteFail {
				l.A.FailWrites(kit.FaultErr(c.ErrKind))
			}
			l.A.FailReads(kit.FaultErr(c.ErrKind))
		}
		if c.Kind == kit.KindUnary {
			go func() {
				_, unaryErr = kit.Invoke(ctx, w.Conn(0), "u", pl.Bytes())
				unaryDone = true
			}()
			kit.Settle() // the handler has failed; its reply is parked
			cut()
			kit.Settle()
		} else {
			cs, err := w.Conn(0).NewStream(ctx, kit.StreamDescFor(c.Kind), kit.FullMethod("s"))
			if err != nil {
				v.failf("open: %v", err)
				return
			}
			kit.RunClientOps([]kit.COp{{Op: "send", P: &pl}, {Op: "close"}}, cs, cancel, clog)
			kit.Settle() // the handler has sent its messages and failed; its trailer is parked
			if c.RecvFirst {
				go kit.RunClientOps([]kit.COp{{Op: "recvall"}}, cs, cancel, clog)
				kit.Settle()
				cut()
			} else {
				cut()
				kit.Settle()
				go kit.RunClientOps([]kit.COp{{Op: "recvall"}}, cs, cancel, clog)
			}
			kit.Settle()
		}
		tap = w.Tap.Snapshot()
		l.B.Hold(nil)
		for _, h := range l.Held() {
			h.Release()
		}
		w.Shutdown()
		kit.Settle()
	})
	if res.Panic != nil {
		v.failf("panic: %v\n%s", res.Panic, res.Stack)
	}
	hs := hlog.Snapshot()
	failed := c.Ret.Build() != nil
	if !hs.Returned {
		v.failf("harness: the handler has not returned")
	} else if failed {
		if c.Kind == kit.KindUnary {
			if unaryDone && unaryErr == nil {
				v.failf("unary: the handler failed (%s) and its reply never arrived (the transport failed with %s), but the caller was told the call succeeded", c.Ret.Kind, c.ErrKind)
			}
		} else if s := clog.Snapshot(); s.RecvEnd != nil && (s.RecvEnd.EOF || s.RecvEnd.Nil) {
			v.failf("%s stream: the handler failed (%s) and its trailer never arrived (the transport failed with %s), but the caller's receive reported success (%q)", kit.KindNames[c.Kind], c.Ret.Kind, c.ErrKind, s.RecvEnd.Raw)
		}
	}
	v.Info = kit.CaseInfo{Labels: []string{"cut.kind=" + kit.KindNames[c.Kind], "cut.err=" + c.ErrKind, "cut.ret=" + c.Ret.Kind, fmt.Sprintf("cut.failed=%v", failed)},
		NonTrivial: failed, Key: fmt.Sprintf("%+v", c), Sample: c}
	if v.Fail != "" {
		v.Detail = map[string]any{"wire": tapSummary(tap, 60), "caller": clog.Snapshot(), "handler": hs}
	}
	return
}

func TestC03Cut(t *testing.T) { checkProp(t, "C03", "cut", genC03Cut, execC03Cut) }

// ---- C03 parked send: the handler ends the RPC while a send of the caller is still inside the transport ----------

// C03ParkedSend: a client-streaming or bidirectional handler reads Read messages and returns Ret (success or any of the
// failure kinds) while a further SendMsg of the caller - issued from a second goroutine, as the API allows - is parked
// inside the transport write (a slow transport). Whatever that send returns once the stream is over, the caller's
// receive reports the handler's outcome: io.EOF for nil, otherwise its status.
type C03ParkedSend struct {
	Kind int         `json:"kind"`
	Ret  kit.ErrSpec `json:"ret"`
	Read int         `json:"read"`
	Ser  bool        `json:"ser"`
	// RecvFirst: the caller is already parked in its receive when the handler returns (else it starts receiving after)
	RecvFirst bool `json:"recv_first"`
}

func genC03ParkedSend(t *rapid.T) C03ParkedSend {
	return C03ParkedSend{Kind: rapid.SampledFrom([]int{kit.KindClient, kit.KindBidi}).Draw(t, "kind"), Ret: kit.GenErrSpec(t, 40), Read: rapid.IntRange(0, 3).Draw(t, "read"), Ser: rapid.Bool().Draw(t, "ser"), RecvFirst: rapid.Bool().Draw(t, "recv_first")}
}

func execC03ParkedSend(t *testing.T, c C03ParkedSend) (v Verdict) {
	clog := &kit.CLog{}
	hlog := &kit.HLog{}
	var parked kit.ErrObs
	parkedReturned := false
	res := kit.Bubble(t, func() {
		svc := kit.NewSvc()
		sched := kit.NewSched()
		var prog kit.HProg
		for i := 0; i < c.Read; i++ {
			prog.Ops = append(prog.Ops, kit.HOp{Op: "recv"})
		}
		prog.Ret = c.Ret
		svc.Stream("s", true, c.Kind == kit.KindBidi, func(s grpcServerStream) error {
			for i := 0; i < c.Read; i++ {
				if _, err := kit.RecvBytes(s); err != nil {
					return err
				}
			}
			sched.Park(nil, "return")
			return kit.RunHandler(kit.HProg{Ret: c.Ret}, s, hlog)
		})
		w := kit.NewWorld(kit.Topo{Kind: "direct", Serialize: c.Ser, Clients: 1}, svc, nil, nil)
		l := w.Links[0]
		marker := []byte("parked-send")
		l.A.Hold(func(r *kit.Rpc) bool { return bytes.Equal(unwrapBytes(r.GetBody().GetData()), marker) })
		ctx, cancel := context.WithTimeout(context.Background(), time.Hour)
		defer cancel()
		cs, err := w.Conn(0).NewStream(ctx, kit.StreamDescFor(c.Kind), kit.FullMethod("s"))
		if err != nil {
			v.failf("open: %v", err)
			return
		}
		pl := kit.Payload{Class: "lit", Lit: []byte{1, 2, 3}}
		var ops []kit.COp
		for i := 0; i < c.Read; i++ {
			ops = append(ops, kit.COp{Op: "send", P: &pl})
		}
		kit.RunClientOps(ops, cs, cancel, clog)
		kit.Settle() // the handler has read its messages and is about to return
		sdone := make(chan struct{})
		go func() {
			defer close(sdone)
			parked = kit.Observe(kit.SendBytes(cs, marker))
			parkedReturned = true
		}()
		kit.Settle() // the send sits in the transport write
		rdone := make(chan struct{})
		recv := func() {
			defer close(rdone)
			kit.RunClientOps([]kit.COp{{Op: "recvall"}, {Op: "trailer"}}, cs, cancel, clog)
		}
		if c.RecvFirst {
			go recv()
			kit.Settle()
		}
		sched.ReleaseGate("return")
		kit.Settle() // the handler has returned; its trailer has reached the caller
		if !c.RecvFirst {
			go recv()
			kit.Settle()
		}
		l.A.Hold(nil)
		l.ReleaseAll()
		kit.Settle()
		<-rdone
		<-sdone
		w.Shutdown()
		kit.Settle()
	})
	if res.Panic != nil {
		v.failf("panic: %v\n%s", res.Panic, res.Stack)
	}
	s := clog.Snapshot()
	if s.RecvEnd == nil {
		v.failf("caller never observed the end of the stream")
	} else if msg := oracleStatus("s", c.Ret, *s.RecvEnd, true); msg != "" {
		v.failf("%s (the handler ended the RPC while a send of the caller was parked in the transport; that send returned %q)", msg, parked.Raw)
	}
	if !parkedReturned {
		v.failf("the send parked in the transport never returned")
	}
	v.Info = kit.CaseInfo{Labels: []string{"parked-send", "kind=" + kit.KindNames[c.Kind], "ret=" + c.Ret.Kind}, NonTrivial: true, Key: fmt.Sprintf("%+v", c), Sample: c}
	return
}

func TestC03ParkedSend(t *testing.T) {
	checkProp(t, "C03", "parked-send", genC03ParkedSend, execC03ParkedSend)
}

// ---- C03 late: the handler reports its outcome after its own deadline has passed ------------------------------

// C03Late: the request carries a grpc-timeout of 30 ms as plain outgoing metadata, so the handler's context has a
// deadline although the caller's has none (a proxy or another implementation may add the header just as well). The handler
// waits for its context to end and then returns Ret - success or any of the failure kinds, with its own status. The
// caller is still there: it must observe exactly that outcome, not the context's.
type C03Late struct {
	Kind  int         `json:"kind"`
	Ret   kit.ErrSpec `json:"ret"`
	Ser   bool        `json:"ser"`
	Stats bool        `json:"stats,omitempty"`
	Via   string      `json:"via,omitempty"` // "" direct | proxy | demux
}

func genC03Late(t *rapid.T) C03Late {
	return C03Late{Kind: rapid.SampledFrom(allKinds).Draw(t, "kind"), Ret: kit.GenErrSpec(t, 25), Ser: rapid.Bool().Draw(t, "ser"), Stats: rapid.IntRange(0, 3).Draw(t, "stats") == 0, Via: rapid.SampledFrom([]string{"", "", "proxy", "demux"}).Draw(t, "via")}
}

func execC03Late(t *testing.T, c C03Late) (v Verdict) {
	var uErr error
	var uDone bool
	clog := &kit.CLog{}
	handlerHadDeadline := false
	res := kit.Bubble(t, func() {
		svc := kit.NewSvc()
		svc.Unary("u", func(ctx context.Context, req []byte) ([]byte, error) {
			_, handlerHadDeadline = ctx.Deadline()
			<-ctx.Done()
			if err := c.Ret.Build(); err != nil {
				return nil, err
			}
			return req, nil
		})
		svc.Stream("s", c.Kind != kit.KindServer, c.Kind != kit.KindClient, func(s grpcServerStream) error {
			_, handlerHadDeadline = s.Context().Deadline()
			if c.Kind == kit.KindServer {
				if _, err := kit.RecvBytes(s); err != nil {
					return err
				}
			}
			<-s.Context().Done()
			return c.Ret.Build()
		})
		topo := "direct"
		if c.Via != "" {
			topo = c.Via
		}
		w := kit.NewWorld(kit.Topo{Kind: topo, Serialize: c.Ser, Clients: 1, Stats: c.Stats}, svc, nil, nil)
		ctx, cancel := context.WithCancel(metadata.AppendToOutgoingContext(context.Background(), "grpc-timeout", "30m"))
		defer cancel()
		done := make(chan struct{})
		go func() {
			defer close(done)
			if c.Kind == kit.KindUnary {
				_, uErr = kit.Invoke(ctx, w.Conn(0), "u", []byte("x"))
				uDone = true
				return
			}
			cs, err := w.Conn(0).NewStream(ctx, kit.StreamDescFor(c.Kind), kit.FullMethod("s"))
			if err != nil {
				return
			}
			kit.RunClientOps([]kit.COp{{Op: "send", P: &kit.Payload{Class: "lit", Lit: []byte("x")}}, {Op: "close"}, {Op: "recvall"}}, cs, cancel, clog)
		}()
		kit.Settle()
		time.Sleep(50 * time.Millisecond) // the handler's deadline passes
		kit.Settle()
		<-done
		w.Shutdown()
		kit.Settle()
	})
	if res.Panic != nil {
		v.failf("panic: %v\n%s", res.Panic, res.Stack)
	}
	if !handlerHadDeadline {
		v.failf("harness: the handler's context had no deadline")
	}
	if c.Kind == kit.KindUnary {
		if !uDone {
			v.failf("unary call never returned")
		} else if msg := oracleStatus("u", c.Ret, kit.Observe(uErr), false); msg != "" {
			v.failf("%s (the handler returned after its own 30 ms deadline had passed; the caller has no deadline)", msg)
		}
	} else if s := clog.Snapshot(); s.RecvEnd == nil {
		v.failf("caller never observed the end of the stream")
	} else if msg := oracleStatus("s", c.Ret, *s.RecvEnd, true); msg != "" {
		v.failf("%s (the handler returned after its own 30 ms deadline had passed; the caller has no deadline)", msg)
	}
	v.Info = kit.CaseInfo{Labels: []string{"late-outcome", "late.kind=" + kit.KindNames[c.Kind], "late.ret=" + c.Ret.Kind}, NonTrivial: c.Ret.Build() != nil, Key: fmt.Sprintf("%+v", c), Sample: c}
	return
}

func TestC03Late(t *testing.T) { checkProp(t, "C03", "late", genC03Late, execC03Late) }
