package props

import (
	"bytes"
	"context"
	"fmt"
	"io"
	"sync"
	"testing"
	"time"

	goat "github.com/avos-io/goat"
	"google.golang.org/grpc"
	"google.golang.org/grpc/metadata"
	"pgregory.net/rapid"
	"verifharness/kit"
)

// ---- C05: isolation and id uniqueness ---------------------------------------

type C05Case struct {
	Side  string `json:"side"`  // client | server
	Shape []int  `json:"shape"` // envelopes per call (1 = unary, n>=2 = stream with n-2 or n-1 bodies, see below)
	Order []int  `json:"order"` // interleaving: sequence of call indices, a permutation of the multiset given by Shape
	Ser   bool   `json:"ser"`
	Pad   int    `json:"pad,omitempty"` // payloads padded to this many bytes (0 = 4-byte tokens)
	// IDBase (server side): the scripted caller numbers its calls IDBase, IDBase+1, ... (0 = 100). A server must keep calls
	// apart for every id value a peer may use: late in a long-lived connection's life, or far out in the uint64 range.
	IDBase uint64 `json:"id_base,omitempty"`
}

// c05IDBases: small ids, the ids a goat client reaches after 55 296 and 1 114 112 calls (where a rune conversion would
// stop being injective), beyond 32 bits, the top bit, the very end of the range
var c05IDBases = []uint64{100, 100, 0xD7FE, 0xD800, 0x10FFFE, 0x110000, 1 << 32, 1 << 63, ^uint64(0) - 8}

func (c C05Case) id(call int) uint64 {
	if c.IDBase == 0 {
		return uint64(100 + call)
	}
	return c.IDBase + uint64(call)
}

// multiset permutations of {0^s0, 1^s1, ...} in lexicographic order
func multisetPerms(shape []int) [][]int {
	total := 0
	for _, s := range shape {
		total += s
	}
	var out [][]int
	cur := make([]int, 0, total)
	left := append([]int{}, shape...)
	var rec func()
	rec = func() {
		if len(cur) == total {
			out = append(out, append([]int{}, cur...))
			return
		}
		for i := range left {
			if left[i] > 0 {
				left[i]--
				cur = append(cur, i)
				rec()
				cur = cur[:len(cur)-1]
				left[i]++
			}
		}
	}
	rec()
	return out
}

func c05Shapes() [][]int {
	if thorough() {
		var out [][]int
		for a := 1; a <= 3; a++ {
			for b := 1; b <= 3; b++ {
				out = append(out, []int{a, b})
				for c := 1; c <= 3; c++ {
					out = append(out, []int{a, b, c})
				}
			}
		}
		return out
	}
	return [][]int{{2, 2}, {1, 3}, {2, 2, 2}, {3, 2, 1}, {1, 1, 1}, {3, 3}}
}

// c05Token is the payload of envelope j of call `call`; pad > 0 pads it to that many bytes with a fill that differs per
// (call, j), so that messages large enough for the codec's pooled buffers (>1KiB) are told apart byte by byte.
func c05Token(call, j, pad int) []byte {
	b := []byte{0xC5, byte(call), byte(j), 0x5C}
	for len(b) < pad {
		b = append(b, byte(0x10*call+j+1))
	}
	return b
}

// client side: response scripts. n=1: unary reply; n>=2: n-1 bodies then a trailer.
func c05Responses(call, n, pad int) []kit.EnvSpec {
	if n == 1 {
		return []kit.EnvSpec{{Body: &kit.Payload{Class: "lit", Lit: c05Token(call, 0, pad)}, Wrap: true, Trailer: true}}
	}
	var out []kit.EnvSpec
	for j := 0; j < n-1; j++ {
		out = append(out, kit.EnvSpec{Body: &kit.Payload{Class: "lit", Lit: c05Token(call, j, pad)}, Wrap: true})
	}
	return append(out, kit.EnvSpec{Status: &kit.StatusSpec{Code: 0, Msg: "OK"}, Trailer: true, TrlMD: []kit.RawKV{{K: "call", V: fmt.Sprint(call)}}})
}

// server side: request scripts. n=1: unary request; n=2: open+trailer; n>=3: open, n-2 bodies, trailer.
func c05Requests(call, n, pad int) []kit.EnvSpec {
	if n == 1 {
		return []kit.EnvSpec{{Body: &kit.Payload{Class: "lit", Lit: c05Token(call, 0, pad)}, Wrap: true}}
	}
	out := []kit.EnvSpec{{HdrMD: []kit.RawKV{{K: "call", V: fmt.Sprint(call)}}}}
	for j := 0; j < n-2; j++ {
		out = append(out, kit.EnvSpec{Body: &kit.Payload{Class: "lit", Lit: c05Token(call, j, pad)}, Wrap: true})
	}
	return append(out, kit.EnvSpec{Status: &kit.StatusSpec{Code: 0, Msg: "OK"}, Trailer: true})
}

func execC05(t *testing.T, c C05Case) (v Verdict) {
	k := len(c.Shape)
	type obs struct {
		done  bool
		recv  [][]byte
		end   *kit.ErrObs
		uErr  error
		md    string
		trl   string
		count int
	}
	o := make([]*obs, k)
	for i := range o {
		o[i] = &obs{}
	}
	var mu sync.Mutex
	var tap []kit.Ev
	var replies map[uint64][][]byte
	res := kit.Bubble(t, func() {
		bg := context.Background()
		if c.Side == "client" {
			tp := kit.NewTap()
			l := kit.NewLink("c0", tp, c.Ser)
			cc := goat.NewClientConn(l.A, "c0", kit.ServerName)
			for i, n := range c.Shape {
				i, n := i, n
				go func() {
					name := fmt.Sprintf("m%d", i)
					if n == 1 {
						rep, err := kit.Invoke(bg, cc, name, []byte("q"))
						mu.Lock()
						o[i].uErr, o[i].done = err, true
						if err == nil {
							o[i].recv = [][]byte{rep}
						}
						mu.Unlock()
						return
					}
					cs, err := cc.NewStream(bg, kit.StreamDescFor(kit.KindServer), kit.FullMethod(name))
					if err != nil {
						return
					}
					for {
						b, err := kit.RecvBytes(cs)
						if err != nil {
							e := kit.Observe(err)
							mu.Lock()
							o[i].end, o[i].done = &e, true
							if v := cs.Trailer()["call"]; len(v) > 0 {
								o[i].trl = v[0]
							}
							mu.Unlock()
							return
						}
						mu.Lock()
						o[i].recv = append(o[i].recv, b)
						mu.Unlock()
					}
				}()
			}
			kit.Settle()
			ids := map[int]uint64{}
			for _, rq := range l.B.ReadAvailable() {
				for i := range c.Shape {
					if rq.GetHeader().GetMethod() == kit.FullMethod(fmt.Sprintf("m%d", i)) {
						if _, ok := ids[i]; !ok {
							ids[i] = rq.GetId()
						}
					}
				}
			}
			scripts := make([][]kit.EnvSpec, k)
			for i, n := range c.Shape {
				scripts[i] = c05Responses(i, n, c.Pad)
			}
			for _, call := range c.Order {
				e := scripts[call][0]
				scripts[call] = scripts[call][1:]
				_ = l.B.Write(bg, e.Build(ids[call], kit.FullMethod(fmt.Sprintf("m%d", call)), kit.ServerName, "c0"))
				kit.Settle()
			}
			tap = tp.Snapshot()
			l.Close()
			kit.Settle()
			return
		}
		// ---- server side ----
		svc := kit.NewSvc()
		for i, n := range c.Shape {
			i := i
			name := fmt.Sprintf("m%d", i)
			if n == 1 {
				svc.Unary(name, func(ctx context.Context, req []byte) ([]byte, error) {
					mu.Lock()
					o[i].recv = append(o[i].recv, req)
					o[i].count++
					o[i].done = true
					mu.Unlock()
					return append([]byte("re:"), req...), nil
				})
				continue
			}
			svc.Stream(name, true, true, func(s grpcServerStream) error {
				mu.Lock()
				o[i].count++
				if md, ok := metadataFromIncoming(s.Context()); ok && len(md["call"]) > 0 {
					o[i].md = md["call"][0]
				}
				mu.Unlock()
				for {
					b, err := kit.RecvBytes(s)
					if err != nil {
						e := kit.Observe(err)
						mu.Lock()
						o[i].end, o[i].done = &e, true
						mu.Unlock()
						return nil
					}
					mu.Lock()
					o[i].recv = append(o[i].recv, b)
					mu.Unlock()
					if err := kit.SendBytes(s, append([]byte("re:"), b...)); err != nil {
						return err
					}
				}
			})
		}
		w := kit.NewWorld(kit.Topo{Kind: "direct", Serialize: c.Ser, Clients: 1, Raw: true}, svc, nil, nil)
		raw := w.Links[0].A
		scripts := make([][]kit.EnvSpec, k)
		for i, n := range c.Shape {
			scripts[i] = c05Requests(i, n, c.Pad)
		}
		for _, call := range c.Order {
			e := scripts[call][0]
			scripts[call] = scripts[call][1:]
			_ = raw.Write(bg, e.Build(c.id(call), kit.FullMethod(fmt.Sprintf("m%d", call)), "c0", kit.ServerName))
			kit.Settle()
		}
		replies = map[uint64][][]byte{}
		for _, r := range raw.ReadAvailable() {
			if r.GetBody() != nil {
				replies[r.GetId()] = append(replies[r.GetId()], unwrapBytes(r.GetBody().GetData()))
			}
		}
		tap = w.Tap.Snapshot()
		w.Shutdown()
		kit.Settle()
	})
	if res.Panic != nil {
		v.failf("panic: %v\n%s", res.Panic, res.Stack)
	}
	mu.Lock()
	defer mu.Unlock()
	for i, n := range c.Shape {
		var want [][]byte
		switch {
		case c.Side == "client" && n == 1, c.Side == "server" && n == 1:
			want = [][]byte{c05Token(i, 0, c.Pad)}
		case c.Side == "client":
			for j := 0; j < n-1; j++ {
				want = append(want, c05Token(i, j, c.Pad))
			}
		default:
			for j := 0; j < n-2; j++ {
				want = append(want, c05Token(i, j, c.Pad))
			}
		}
		if !o[i].done {
			v.failf("call %d never completed", i)
			continue
		}
		if !kit.BytesEq(o[i].recv, want) {
			v.failf("call %d observed %v, its own envelopes carried %v: it saw another call's data, lost its own, or the per-call order changed", i, digests(o[i].recv), digests(want))
		}
		if n >= 2 && (o[i].end == nil || !o[i].end.EOF) {
			v.failf("call %d: stream did not end in io.EOF (%+v)", i, o[i].end)
		}
		if c.Side == "client" && n >= 2 && o[i].trl != fmt.Sprint(i) {
			v.failf("call %d observed trailer %q, its own says %q", i, o[i].trl, fmt.Sprint(i))
		}
		if c.Side == "client" && n == 1 && o[i].uErr != nil {
			v.failf("unary call %d failed: %v", i, o[i].uErr)
		}
		if c.Side == "server" {
			if o[i].count != 1 {
				v.failf("handler %d ran %d times", i, o[i].count)
			}
			if n >= 2 && o[i].md != fmt.Sprint(i) {
				v.failf("handler %d saw request metadata %q of another stream", i, o[i].md)
			}
			var wantRe [][]byte
			for _, b := range want {
				wantRe = append(wantRe, append([]byte("re:"), b...))
			}
			if !kit.BytesEq(replies[c.id(i)], wantRe) {
				v.failf("id %d carried responses %v, want the echoes of its own requests", c.id(i), digests(replies[c.id(i)]))
			}
		}
	}
	switches := 0
	for i := 1; i < len(c.Order); i++ {
		if c.Order[i] != c.Order[i-1] {
			switches++
		}
	}
	v.Info = kit.CaseInfo{Labels: []string{"side=" + c.Side, fmt.Sprintf("calls=%d", k), fmt.Sprintf("pooled_payloads=%v", c.Pad > 1024), fmt.Sprintf("high_ids=%v", c.IDBase > 1000)}, NonTrivial: switches >= 1,
		Key: fmt.Sprintf("%+v", c), Sample: map[string]any{"side": c.Side, "envelopes_per_call": c.Shape, "interleaving": c.Order}}
	if v.Fail != "" {
		v.Detail = map[string]any{"wire": tapSummary(tap, 60)}
	}
	return
}

// TestC05Enum: every multiset permutation of the small shapes, both sides.
func TestC05Enum(t *testing.T) {
	var cases []C05Case
	for _, side := range []string{"client", "server"} {
		for _, sh := range c05Shapes() {
			for _, p := range multisetPerms(sh) {
				cs := C05Case{Side: side, Shape: sh, Order: p, Ser: len(p)%2 == 0}
				if side == "server" {
					cs.IDBase = c05IDBases[len(cases)%len(c05IDBases)]
				}
				cases = append(cases, cs)
			}
		}
	}
	enumProp(t, "C05", "enum", len(cases), func(i int) C05Case { return cases[i] }, execC05)
	kit.G().MarkExhaustive(fmt.Sprintf("every interleaving (multiset permutation) of the envelopes of the shapes %v, client and server side", c05Shapes()))
}

func genC05(t *rapid.T) C05Case {
	c := C05Case{Side: rapid.SampledFrom([]string{"client", "server"}).Draw(t, "side"), Ser: rapid.Bool().Draw(t, "ser"), Pad: rapid.SampledFrom([]int{0, 0, 1100, 1500, 5000, 20000}).Draw(t, "pad")}
	if c.Side == "server" {
		c.IDBase = rapid.SampledFrom(c05IDBases).Draw(t, "id_base")
	}
	k := rapid.IntRange(2, 8).Draw(t, "k")
	left := []int{}
	for i := 0; i < k; i++ {
		n := rapid.IntRange(1, 6).Draw(t, "n")
		c.Shape = append(c.Shape, n)
		left = append(left, n)
	}
	for {
		var avail []int
		for i, n := range left {
			if n > 0 {
				avail = append(avail, i)
			}
		}
		if len(avail) == 0 {
			break
		}
		pick := rapid.SampledFrom(avail).Draw(t, "pick")
		c.Order = append(c.Order, pick)
		left[pick]--
	}
	return c
}

func TestC05(t *testing.T) { checkProp(t, "C05", "random", genC05, execC05) }

// ---- id allocation ----------------------------------------------------------

type C05IDs struct {
	// Stats: do-nothing stats handlers on server and client (kit.Topo.Stats)
	Stats  bool `json:"stats,omitempty"`
	Burst  int  `json:"burst"`           // callers started in the same scheduler step
	Rounds int  `json:"rounds"`          // bursts on the same connection
	Mix    bool `json:"mix"`             // mix unary calls and streams
	Spin   int  `json:"spin,omitempty"`  // >0: callers leave the id-allocation point in groups of this size at the same instant (spin barrier at the hook point)
	Conns  int  `json:"conns,omitempty"` // connections of one Server object the burst is spread over (0 = 1)
	Slow   bool `json:"slow,omitempty"`  // unary handlers stay busy until the whole burst has arrived and 20ms have passed
}

func genC05IDs(t *rapid.T) C05IDs {
	return C05IDs{Burst: rapid.SampledFrom([]int{2, 8, 32, 64, 64}).Draw(t, "burst"), Rounds: rapid.IntRange(1, 4).Draw(t, "rounds"), Mix: rapid.Bool().Draw(t, "mix"), Slow: rapid.Bool().Draw(t, "slow"), Spin: rapid.SampledFrom([]int{0, 2, 4, 8}).Draw(t, "spin"), Conns: rapid.SampledFrom([]int{1, 1, 2, 3}).Draw(t, "conns"), Stats: rapid.IntRange(0, 3).Draw(t, "stats") == 0}
}

func execC05IDs(t *testing.T, c C05IDs) (v Verdict) {
	var tap []kit.Ev
	okCalls := 0
	var mu sync.Mutex
	res := kit.Bubble(t, func() {
		svc := kit.NewSvc()
		var release chan struct{}
		var rmu sync.Mutex
		svc.Unary("u", func(ctx context.Context, req []byte) ([]byte, error) {
			rmu.Lock()
			rel := release
			rmu.Unlock()
			if rel != nil {
				<-rel
			}
			return req, nil
		})
		svc.Stream("s", true, true, func(s grpcServerStream) error {
			b, err := kit.RecvBytes(s)
			if err != nil {
				return err
			}
			return kit.SendBytes(s, b)
		})
		nconn := max(1, c.Conns)
		w := kit.NewWorld(kit.Topo{Kind: "direct", Clients: nconn, Stats: c.Stats}, svc, nil, nil)
		for r := 0; r < c.Rounds; r++ {
			if c.Spin > 0 {
				defer spinBarrier([]string{"mux.unary.beforeRegister", "mux.stream.beforeRegister"}, c.Burst, c.Spin)()
			}
			start := make(chan struct{})
			rel := make(chan struct{})
			if c.Slow {
				rmu.Lock()
				release = rel
				rmu.Unlock()
			}
			var wg sync.WaitGroup
			for i := 0; i < c.Burst; i++ {
				i := i
				wg.Add(1)
				go func() {
					defer wg.Done()
					<-start
					tok := []byte{byte(r), byte(i)}
					if c.Mix && i%2 == 1 {
						cs, err := w.Conn((i/2+i)%nconn).NewStream(context.Background(), kit.StreamDescFor(kit.KindBidi), kit.FullMethod("s"))
						if err != nil {
							return
						}
						_ = kit.SendBytes(cs, tok)
						_ = cs.CloseSend()
						if b, err := kit.RecvBytes(cs); err == nil && bytes.Equal(b, tok) {
							mu.Lock()
							okCalls++
							mu.Unlock()
						}
						_, _ = kit.RecvBytes(cs)
						return
					}
					if b, err := kit.Invoke(context.Background(), w.Conn((i/2+i)%nconn), "u", tok); err == nil && bytes.Equal(b, tok) {
						mu.Lock()
						okCalls++
						mu.Unlock()
					}
				}()
			}
			kit.Settle()
			close(start) // all callers leave the gate in the same step
			if c.Slow {
				// every unary worker is busy while the rest of the burst arrives, and time passes
				kit.Settle()
				time.Sleep(20 * time.Millisecond)
				kit.Settle()
				close(rel)
			}
			wg.Wait()
		}
		tap = w.Tap.Snapshot()
		w.Shutdown()
		kit.Settle()
	})
	if res.Panic != nil {
		v.failf("panic: %v", res.Panic)
	}
	total := c.Burst * c.Rounds
	if okCalls != total {
		v.failf("%d of %d concurrently started calls got their own reply", okCalls, total)
	}
	// opening envelopes: the first client->server envelope of each id
	opens := map[string]int{}
	for ci := 0; ci < max(1, c.Conns); ci++ {
		for _, e := range kit.Filter(tap, kit.ClientName(ci), kit.AtoB) {
			r := e.Rpc
			isOpen := r.GetTrailer() == nil && r.GetReset_() == nil && (r.GetHeader().GetMethod() == kit.FullMethod("u") || r.GetBody() == nil)
			if isOpen {
				opens[fmt.Sprintf("%s/%d", kit.ClientName(ci), r.GetId())]++
			}
		}
	}
	for id, n := range opens {
		if n > 1 {
			v.failf("stream id %s was used to open %d calls", id, n)
		}
	}
	if len(opens) != total {
		v.failf("%d distinct ids on the wire for %d calls", len(opens), total)
	}
	v.Info = kit.CaseInfo{Labels: []string{fmt.Sprintf("burst=%d", c.Burst), fmt.Sprintf("mix=%v", c.Mix), fmt.Sprintf("slow_handlers=%v", c.Slow), fmt.Sprintf("connections>1=%v", c.Conns > 1), fmt.Sprintf("spin_barrier=%v", c.Spin > 0)}, NonTrivial: c.Burst >= 8, Key: fmt.Sprintf("%+v", c), Sample: c}
	return
}

func TestC05IDs(t *testing.T) { checkProp(t, "C05", "ids", genC05IDs, execC05IDs) }

// TestC05History: a long call history on one connection; ids stay pairwise distinct.
func TestC05History(t *testing.T) {
	defer kit.G().Flush("C05")
	total := scale(10000, 100000)
	_, sn := shard()
	total /= sn
	ids := map[uint64]bool{}
	dup := uint64(0)
	calls := 0
	res := kit.Bubble(t, func() {
		svc := kit.NewSvc()
		svc.Unary("u", func(ctx context.Context, req []byte) ([]byte, error) { return req, nil })
		tp := kit.NewTap()
		_ = tp
		w := kit.NewWorld(kit.Topo{Kind: "direct", Clients: 1}, svc, nil, nil)
		w.Links[0].Tap = nil // the tap would hold 2x10^5 envelopes; ids are collected by a write gate instead
		var imu sync.Mutex
		w.Links[0].A.Hold(func(r *kit.Rpc) bool {
			imu.Lock()
			if ids[r.GetId()] {
				dup = r.GetId()
			}
			ids[r.GetId()] = true
			imu.Unlock()
			return false
		})
		for calls < total {
			var wg sync.WaitGroup
			for i := 0; i < 50 && calls < total; i++ {
				calls++
				wg.Add(1)
				go func() {
					defer wg.Done()
					_, _ = kit.Invoke(context.Background(), w.Conn(0), "u", []byte("x"))
				}()
			}
			wg.Wait()
		}
		w.Shutdown()
		kit.Settle()
	})
	if res.Panic != nil {
		t.Fatalf("VERIF-FAIL C05/history: panic %v", res.Panic)
	}
	kit.G().Record(kit.CaseInfo{Labels: []string{"history"}, NonTrivial: true, Key: fmt.Sprintf("history-%d-%s", total, getenv("VERIF_SHARD", "0/1")), Sample: map[string]any{"calls_on_one_connection": calls, "distinct_ids": len(ids)}})
	kit.G().Count("history_calls", calls)
	if dup != 0 || len(ids) != calls {
		writeReplay("C05", "history", "duplicate id", map[string]any{"calls": calls}, nil)
		t.Fatalf("VERIF-FAIL C05/history: %d calls on one connection used %d distinct ids (duplicate %d)", calls, len(ids), dup)
	}
}

// ---- C05 leftover: what one stream leaves unread must not reach the next one ---------------------

type C05Left struct {
	Streams [][2]int `json:"streams"` // per stream, in order on one connection: messages the caller sends, messages the handler reads before returning
	Kind    int      `json:"kind"`    // client-streaming or bidi
	Gap     bool     `json:"gap"`     // settle between the caller's sends (otherwise they are written back to back)
	Ser     bool     `json:"ser"`
}

func genC05Left(t *rapid.T) C05Left {
	c := C05Left{Kind: rapid.SampledFrom([]int{kit.KindClient, kit.KindBidi}).Draw(t, "kind"), Gap: rapid.Bool().Draw(t, "gap"), Ser: rapid.Bool().Draw(t, "ser")}
	n := rapid.IntRange(2, 6).Draw(t, "streams")
	for i := 0; i < n; i++ {
		sent := rapid.IntRange(0, 8).Draw(t, "sent")
		c.Streams = append(c.Streams, [2]int{sent, rapid.IntRange(0, sent).Draw(t, "read")})
	}
	return c
}

// execC05Left: streams follow one another on one connection; each handler reads only some of what its caller sends
// and returns. Every handler must receive a prefix of its own caller's messages and nothing else - in particular
// nothing a predecessor left unread.
func execC05Left(t *testing.T, c C05Left) (v Verdict) {
	n := len(c.Streams)
	got := make([][][]byte, n)
	var mu sync.Mutex
	next := 0
	res := kit.Bubble(t, func() {
		svc := kit.NewSvc()
		svc.Stream("l", true, true, func(s grpcServerStream) error {
			mu.Lock()
			i := next
			next++
			mu.Unlock()
			if i >= n {
				return nil
			}
			for k := 0; k < c.Streams[i][1]; k++ {
				b, err := kit.RecvBytes(s)
				if err != nil {
					return nil
				}
				mu.Lock()
				got[i] = append(got[i], b)
				mu.Unlock()
			}
			return nil
		})
		w := kit.NewWorld(kit.Topo{Kind: "direct", Serialize: c.Ser, Clients: 1}, svc, nil, nil)
		for i := 0; i < n; i++ {
			cs, err := w.Conn(0).NewStream(context.Background(), kit.StreamDescFor(c.Kind), kit.FullMethod("l"))
			if err != nil {
				v.failf("stream %d: open failed: %v", i, err)
				break
			}
			for j := 0; j < c.Streams[i][0]; j++ {
				_ = kit.SendBytes(cs, []byte{0x1F, byte(i), byte(j)})
				if c.Gap {
					kit.Settle()
				}
			}
			_ = cs.CloseSend()
			for {
				if _, err := kit.RecvBytes(cs); err != nil {
					break
				}
			}
			kit.Settle()
		}
		w.Shutdown()
		kit.Settle()
	})
	if res.Panic != nil {
		v.failf("panic: %v\n%s", res.Panic, res.Stack)
	}
	leftovers := 0
	for i := 0; i < n; i++ {
		sent, read := c.Streams[i][0], c.Streams[i][1]
		if sent-read >= 2 {
			leftovers++
		}
		if len(got[i]) > read {
			v.failf("stream %d: handler received %d messages, it only asked for %d", i, len(got[i]), read)
		}
		for k, b := range got[i] {
			if len(b) != 3 || b[0] != 0x1F || int(b[1]) != i || int(b[2]) != k {
				v.failf("stream %d (the %d-th on this connection): its handler's receive #%d returned %v, its own caller's message #%d is [1f %02x %02x] - a message of another stream", i, i+1, k, b, k, i, k)
				break
			}
		}
	}
	v.Info = kit.CaseInfo{Labels: []string{"leftover", fmt.Sprintf("leftover.streams_with_2+_unread=%d", min(leftovers, 3))}, NonTrivial: leftovers >= 1, Key: fmt.Sprintf("%+v", c), Sample: c}
	return
}

func TestC05Left(t *testing.T) { checkProp(t, "C05", "leftover", genC05Left, execC05Left) }

// ---- C05 order across a transient write fault ---------------------------------------------------

type C05Order struct {
	N       int    `json:"n"`      // messages the handler sends
	FailJ   int    `json:"fail_j"` // index of the message whose transport write fails (once)
	ErrKind string `json:"err_kind"`
	Streams int    `json:"streams"` // concurrent streams doing the same (1..3); only stream 0's message fails
	Ser     bool   `json:"ser"`
	Stats   bool   `json:"stats,omitempty"`
}

func genC05Order(t *rapid.T) C05Order {
	c := C05Order{N: rapid.IntRange(2, 10).Draw(t, "n"), ErrKind: rapid.SampledFrom(kit.FaultErrKinds).Draw(t, "err_kind"), Streams: rapid.IntRange(1, 3).Draw(t, "streams"), Ser: rapid.Bool().Draw(t, "ser"), Stats: rapid.IntRange(0, 3).Draw(t, "stats") == 0}
	c.FailJ = rapid.IntRange(0, c.N-1).Draw(t, "fail_j")
	return c
}

// execC05Order: one response write of a server stream fails at the transport (an error of a drawn kind, some of which
// look transient: timeouts). Whether the connection survives that is not C05's business; but whatever a caller receives
// on its stream must be that stream's own messages in the order they were sent, none twice.
func execC05Order(t *testing.T, c C05Order) (v Verdict) {
	defer kit.UseFaultKind(c.ErrKind)()
	got := make([][][]byte, c.Streams)
	ends := make([]*kit.ErrObs, c.Streams)
	res := kit.Bubble(t, func() {
		sched := kit.NewSched()
		svc := kit.NewSvc()
		svc.Stream("o", true, true, func(s grpcServerStream) error {
			b, err := kit.RecvBytes(s)
			if err != nil || len(b) != 1 {
				return err
			}
			for j := 0; j < c.N; j++ {
				if err := kit.SendBytes(s, []byte{0x0D, b[0], byte(j)}); err != nil {
					return err
				}
			}
			sched.Park(s.Context(), "order-return") // the stream stays open while time passes
			return nil
		})
		w := kit.NewWorld(kit.Topo{Kind: "direct", Serialize: c.Ser, Clients: 1, Stats: c.Stats}, svc, nil, nil)
		l := w.Links[0]
		marker := []byte{0x0D, 0, byte(c.FailJ)}
		failed := false
		l.B.FailWriteIf(func(r *kit.Rpc) bool {
			if !failed && bytes.Equal(unwrapBytes(r.GetBody().GetData()), marker) {
				failed = true // a one-off fault
				return true
			}
			return false
		})
		var wg sync.WaitGroup
		for i := 0; i < c.Streams; i++ {
			i := i
			wg.Add(1)
			go func() {
				defer wg.Done()
				ctx, cancel := context.WithTimeout(context.Background(), time.Hour)
				defer cancel()
				cs, err := w.Conn(0).NewStream(ctx, kit.StreamDescFor(kit.KindServer), kit.FullMethod("o"))
				if err != nil {
					return
				}
				_ = kit.SendBytes(cs, []byte{byte(i)})
				_ = cs.CloseSend()
				for {
					b, err := kit.RecvBytes(cs)
					if err != nil {
						e := kit.Observe(err)
						ends[i] = &e
						return
					}
					got[i] = append(got[i], b)
				}
			}()
		}
		kit.Settle()
		time.Sleep(100 * time.Millisecond) // anything that was put off for later happens now
		kit.Settle()
		sched.Drain() // the handlers return
		kit.Settle()
		l.Close() // callers still waiting on a connection that quietly died are released
		kit.Settle()
		wg.Wait()
		w.Shutdown()
		kit.Settle()
	})
	if res.Panic != nil {
		v.failf("panic: %v\n%s", res.Panic, res.Stack)
	}
	for i := range got {
		last := -1
		for _, b := range got[i] {
			if len(b) != 3 || b[0] != 0x0D || int(b[1]) != i {
				v.failf("stream %d received %v: not a message of this stream", i, b)
				break
			}
			if int(b[2]) <= last {
				v.failf("stream %d received message #%d after message #%d: per-call order broken or a message duplicated (write #%d had failed once with a %s error)", i, b[2], last, c.FailJ, c.ErrKind)
				break
			}
			last = int(b[2])
		}
		if ends[i] != nil && ends[i].EOF && len(got[i]) != c.N {
			v.failf("stream %d was reported complete (io.EOF) with %d of its %d messages", i, len(got[i]), c.N)
		}
	}
	v.Info = kit.CaseInfo{Labels: []string{"write-fault-order", "order.err=" + c.ErrKind}, NonTrivial: c.FailJ < c.N-1, Key: fmt.Sprintf("%+v", c), Sample: c}
	return
}

func TestC05Order(t *testing.T) { checkProp(t, "C05", "order", genC05Order, execC05Order) }

// ---- C05 abandon: replies of calls whose caller has gone must not reach a later call ---------------

type C05Abandon struct {
	N     int    `json:"n"`     // unary calls issued one after the other; all but the last are abandoned while their handler runs
	Order []byte `json:"order"` // order in which the handlers are released
	Ser   bool   `json:"ser"`
	Stats bool   `json:"stats,omitempty"`
	Big   bool   `json:"big"`
}

func genC05Abandon(t *rapid.T) C05Abandon {
	return C05Abandon{N: rapid.IntRange(2, 6).Draw(t, "n"), Order: rapid.SliceOfN(rapid.Byte(), 0, 6).Draw(t, "order"), Ser: rapid.Bool().Draw(t, "ser"), Stats: rapid.IntRange(0, 3).Draw(t, "stats") == 0, Big: rapid.Bool().Draw(t, "big")}
}

func execC05Abandon(t *testing.T, c C05Abandon) (v Verdict) {
	type res struct {
		reply []byte
		err   error
		done  bool
	}
	results := make([]res, c.N)
	mk := func(i int, tag byte) []byte {
		b := []byte{tag, byte(i)}
		if c.Big {
			for len(b) < 3000 {
				b = append(b, byte(i)+1)
			}
		}
		return b
	}
	r := kit.Bubble(t, func() {
		sched := kit.NewSched()
		svc := kit.NewSvc()
		svc.Unary("a", func(ctx context.Context, req []byte) ([]byte, error) {
			i := int(req[1])
			sched.Park(nil, fmt.Sprintf("h%d", i)) // slow, and not watching its context
			return mk(i, 'R'), nil
		})
		w := kit.NewWorld(kit.Topo{Kind: "direct", Serialize: c.Ser, Clients: 1, Stats: c.Stats}, svc, nil, nil)
		var wg sync.WaitGroup
		for i := 0; i < c.N; i++ {
			i := i
			ctx, cancel := context.WithCancel(context.Background())
			defer cancel()
			wg.Add(1)
			go func() {
				defer wg.Done()
				rep, err := kit.Invoke(ctx, w.Conn(0), "a", mk(i, 'Q'))
				results[i] = res{rep, err, true}
			}()
			kit.Settle() // the request has arrived, its handler is busy
			if i < c.N-1 {
				cancel() // the caller gives up
				kit.Settle()
			}
		}
		left := make([]int, c.N)
		for i := range left {
			left[i] = i
		}
		for step := 0; len(left) > 0; step++ {
			k := 0
			if step < len(c.Order) {
				k = int(c.Order[step]) % len(left)
			}
			sched.ReleaseGate(fmt.Sprintf("h%d", left[k]))
			left = append(left[:k], left[k+1:]...)
			kit.Settle()
		}
		wg.Wait()
		w.Shutdown()
		kit.Settle()
	})
	if r.Panic != nil {
		v.failf("panic: %v\n%s", r.Panic, r.Stack)
	}
	for i := 0; i < c.N; i++ {
		switch {
		case !results[i].done:
			v.failf("call %d never returned", i)
		case i < c.N-1 && results[i].err == nil:
			if !bytes.Equal(results[i].reply, mk(i, 'R')) {
				v.failf("abandoned call %d returned a reply that is not its own", i)
			}
		case i == c.N-1 && results[i].err != nil:
			v.failf("call %d (never abandoned) failed: %v", i, results[i].err)
		case i == c.N-1 && !bytes.Equal(results[i].reply, mk(i, 'R')):
			v.failf("call %d got the reply of call %d: the late reply of a call whose caller had gone was delivered to it", i, int(results[i].reply[1]))
		}
	}
	v.Info = kit.CaseInfo{Labels: []string{"abandon", fmt.Sprintf("abandon.byref=%v", !c.Ser)}, NonTrivial: true, Key: fmt.Sprintf("%+v", c), Sample: c}
	return
}

func TestC05Abandon(t *testing.T) { checkProp(t, "C05", "abandon", genC05Abandon, execC05Abandon) }

// ---- C05 pace: receivers of any pace ---------------------------------------------------------------

// C05Pace: a bidirectional stream on each of 1..3 client connections of one server; on each the caller sends Up
// messages and the handler sends Down messages back to back, while each side *receives* at its own pace (pauses of
// 0..60 ms of virtual time before each receive). Envelopes therefore back up in the connection for longer than any timer
// inside the library; whatever the library does with an envelope it cannot hand over at once, every side must receive
// exactly the other side's messages of its own stream, in the order they were sent.
// (One stream per connection: while a read loop is parked on a slow receiver it holds the connection's registry mutex,
// and a second call of the same connection queueing for that mutex - to register or unregister - is not "durably
// blocked" for testing/synctest, so the bubble's clock would stand still and the slow receiver would never wake up.)
type C05Pace struct {
	Streams int   `json:"streams"`
	Up      int   `json:"up"`
	Down    int   `json:"down"`
	CPause  []int `json:"c_pause"` // ms before the caller's j-th receive (cyclic)
	HPause  []int `json:"h_pause"` // ms before the handler's j-th receive (cyclic)
	Ser     bool  `json:"ser"`
	Stats   bool  `json:"stats,omitempty"`
	// Real: the case runs in real time instead of a synctest bubble (pauses capped at 25 ms). In the bubble a goroutine
	// that queues for a mutex stops the virtual clock, so a library that parks envelopes with helper goroutines and timers
	// shows up there as a stalled case; in real time it shows what the application would see.
	Real bool `json:"real,omitempty"`
	// Via: "" = direct connections; "proxy" / "demux" = the kit.World topologies of that name (TestC16Pace, TestC18Pace)
	Via string `json:"via,omitempty"`
	// Ret (TestC03Pace): what the handlers return once both directions are through; nil = success
	Ret *kit.ErrSpec `json:"ret,omitempty"`
	// SlowOpenMs (virtual time, direct connections): the transport write that carries a call's opening envelope takes
	// this long, while the transport completes later writes at once (a transport that writes concurrently, a queue
	// that drains unevenly): whatever the caller does next must still follow its opening envelope on the wire
	SlowOpenMs int `json:"slow_open_ms,omitempty"`
}

func genC05Pace(t *rapid.T) C05Pace {
	pause := rapid.SampledFrom([]int{0, 0, 1, 3, 7, 11, 15, 25, 60})
	return C05Pace{Streams: rapid.IntRange(1, 3).Draw(t, "streams"), Up: rapid.IntRange(0, 8).Draw(t, "up"), Down: rapid.IntRange(0, 8).Draw(t, "down"),
		CPause: rapid.SliceOfN(pause, 1, 4).Draw(t, "c_pause"), HPause: rapid.SliceOfN(pause, 1, 4).Draw(t, "h_pause"),
		Ser: rapid.Bool().Draw(t, "ser"), Stats: rapid.IntRange(0, 3).Draw(t, "stats") == 0, Real: false,
		SlowOpenMs: rapid.SampledFrom([]int{0, 0, 0, 30, 150, 400, 3000}).Draw(t, "slow_open_ms")}
}

func execC05Pace(t *testing.T, c C05Pace) (v Verdict) {
	var mu sync.Mutex
	hgot := make([][][]byte, c.Streams)
	cgot := make([][][]byte, c.Streams)
	cend := make([]*kit.ErrObs, c.Streams)
	hend := make([]*kit.ErrObs, c.Streams)
	pauseOf := func(p []int, j int) time.Duration {
		ms := p[j%len(p)]
		if c.Real && ms > 25 {
			ms = 25
		}
		return time.Duration(ms) * time.Millisecond
	}
	settle := kit.Settle
	run := func(f func()) kit.RunResult { return kit.Bubble(t, f) }
	if c.Real {
		settle = func() {}
		run = func(f func()) kit.RunResult { f(); return kit.RunResult{} }
	}
	res := run(func() {
		svc := kit.NewSvc()
		svc.Stream("p", true, true, func(s grpcServerStream) error {
			b, err := kit.RecvBytes(s)
			if err != nil || len(b) != 1 {
				return err
			}
			i := int(b[0])
			sent := make(chan struct{})
			go func() {
				defer close(sent)
				for j := 0; j < c.Down; j++ {
					if kit.SendBytes(s, []byte{0xD0, byte(i), byte(j)}) != nil {
						return
					}
				}
			}()
			for j := 0; ; j++ {
				time.Sleep(pauseOf(c.HPause, j))
				b, err := kit.RecvBytes(s)
				if err != nil {
					e := kit.Observe(err)
					mu.Lock()
					hend[i] = &e
					mu.Unlock()
					break
				}
				mu.Lock()
				hgot[i] = append(hgot[i], b)
				mu.Unlock()
			}
			<-sent
			if c.Ret != nil {
				return c.Ret.Build()
			}
			return nil
		})
		topo := "direct"
		if c.Via != "" {
			topo = c.Via
		}
		w := kit.NewWorld(kit.Topo{Kind: topo, Serialize: c.Ser, Clients: c.Streams, Stats: c.Stats}, svc, nil, nil)
		var wg sync.WaitGroup
		if c.SlowOpenMs > 0 && !c.Real && c.Via == "" {
			isOpen := func(r *kit.Rpc) bool { return r.GetBody() == nil && r.GetTrailer() == nil && r.GetReset_() == nil }
			for _, l := range w.Links {
				l.A.Hold(isOpen)
			}
			go func() {
				time.Sleep(time.Duration(c.SlowOpenMs) * time.Millisecond)
				for _, l := range w.Links {
					l.A.Hold(nil)
					for _, h := range l.Held() {
						h.Release()
					}
				}
			}()
		}
		for i := 0; i < c.Streams; i++ {
			i := i
			wg.Add(1)
			go func() {
				defer wg.Done()
				ctx, cancel := context.WithTimeout(context.Background(), time.Hour)
				defer cancel()
				cs, err := w.Conn(i).NewStream(ctx, kit.StreamDescFor(kit.KindBidi), kit.FullMethod("p"))
				if err != nil {
					return
				}
				if kit.SendBytes(cs, []byte{byte(i)}) != nil {
					return
				}
				go func() {
					for j := 0; j < c.Up; j++ {
						if kit.SendBytes(cs, []byte{0xA0, byte(i), byte(j)}) != nil {
							return
						}
					}
					_ = cs.CloseSend()
				}()
				for j := 0; ; j++ {
					time.Sleep(pauseOf(c.CPause, j))
					b, err := kit.RecvBytes(cs)
					if err != nil {
						e := kit.Observe(err)
						cend[i] = &e
						return
					}
					cgot[i] = append(cgot[i], b)
				}
			}()
		}
		wg.Wait()
		settle()
		w.Shutdown()
		settle()
	})
	if res.Panic != nil {
		v.failf("panic: %v\n%s", res.Panic, res.Stack)
	}
	check := func(who string, i int, got [][]byte, tag byte, n int, end *kit.ErrObs) {
		for j, b := range got {
			if len(b) != 3 || b[0] != tag || int(b[1]) != i {
				v.failf("stream %d: the %s received %v: not a message of this stream", i, who, b)
				return
			}
			if int(b[2]) != j {
				v.failf("stream %d: the %s's receive #%d returned message #%d: per-call order broken, or a message lost or duplicated (receiver pauses %v ms)", i, who, j, b[2], map[string][]int{"caller": c.CPause, "handler": c.HPause}[who])
				return
			}
		}
		if end == nil {
			v.failf("stream %d: the %s never saw the end of the stream", i, who)
		} else if who == "caller" && c.Ret != nil && c.Ret.Build() != nil {
			if msg := oracleStatus(fmt.Sprintf("stream %d", i), *c.Ret, *end, true); msg != "" {
				v.failf("%s (receiver pauses %v ms)", msg, c.CPause)
			} else if len(got) != n {
				v.failf("stream %d: the caller saw the handler's status after %d of %d messages", i, len(got), n)
			}
		} else if !end.EOF {
			v.failf("stream %d: the %s's stream ended with %q, want io.EOF", i, who, end.Raw)
		} else if len(got) != n {
			v.failf("stream %d: the %s saw io.EOF after %d of %d messages", i, who, len(got), n)
		}
	}
	for i := 0; i < c.Streams; i++ {
		check("caller", i, cgot[i], 0xD0, c.Down, cend[i])
		check("handler", i, hgot[i], 0xA0, c.Up, hend[i])
	}
	topo := "direct"
	if c.Via != "" {
		topo = c.Via
	}
	maxP := 0
	for _, p := range append(append([]int{}, c.CPause...), c.HPause...) {
		if p > maxP {
			maxP = p
		}
	}
	v.Info = kit.CaseInfo{Labels: []string{"pace", fmt.Sprintf("pace.slow_receiver=%v", maxP >= 11), fmt.Sprintf("pace.conns=%d", c.Streams), fmt.Sprintf("pace.real_time=%v", c.Real), "pace.via=" + topo, fmt.Sprintf("pace.slow_open=%v", c.SlowOpenMs > 0 && !c.Real && c.Via == "")},
		NonTrivial: maxP >= 11 && (c.Up >= 3 || c.Down >= 3), Key: fmt.Sprintf("%+v", c), Sample: c}
	return
}

func TestC05Pace(t *testing.T) {
	checkProp(t, "C05", "pace", func(t *rapid.T) C05Pace {
		c := genC05Pace(t)
		if rapid.IntRange(0, 3).Draw(t, "via_proxy") == 0 {
			// the per-call order of envelopes also holds for calls relayed by a proxy (one client: see genPaceVia)
			c.Via, c.Streams = "proxy", 1
		}
		return c
	}, execC05Pace)
}

// genPaceVia: the pace cases through a proxy or a demux, with pauses of up to three seconds (virtual time), for the
// properties of those components.
func genPaceVia(via string) func(t *rapid.T) C05Pace {
	return func(t *rapid.T) C05Pace {
		c := genC05Pace(t)
		c.Via = via
		if via == "proxy" {
			// one client only: the proxy drops envelopes once more than 16 are queued for one destination (known finding,
			// C16), and with a slow server-side receiver everything the clients send queues up for that one destination
			c.Streams = 1
		}
		long := rapid.SampledFrom([]int{0, 20, 700, 1500, 3000, 7000})
		if rapid.Bool().Draw(t, "long_pauses") {
			c.HPause = rapid.SliceOfN(long, 1, 3).Draw(t, "h_long")
			c.CPause = rapid.SliceOfN(long, 1, 3).Draw(t, "c_long")
		}
		return c
	}
}

// TestC03Pace: the pace cases on direct connections with handlers that end in a drawn status: a caller that takes its
// time between receives (up to seven seconds) still gets every message and then exactly the handler's status.
func TestC03Pace(t *testing.T) {
	checkProp(t, "C03", "pace", func(t *rapid.T) C05Pace {
		c := genPaceVia("")(t)
		r := kit.GenErrSpec(t, 20)
		c.Ret = &r
		return c
	}, execC05Pace)
}

func TestC16Pace(t *testing.T) { checkProp(t, "C16", "pace", genPaceVia("proxy"), execC05Pace) }
func TestC18Pace(t *testing.T) { checkProp(t, "C18", "pace", genPaceVia("demux"), execC05Pace) }

// TestC05PaceReal runs the same cases in real time only (see C05Pace.Real).
func TestC05PaceReal(t *testing.T) {
	checkProp(t, "C05", "pace-real", func(t *rapid.T) C05Pace {
		c := genC05Pace(t)
		c.Real = true
		return c
	}, execC05Pace)
}

// ---- C05 shared metadata objects: what one call's handler sets must not show up in another call --------------

// C05SharedMD: the application keeps one metadata.MD object for its fixed "server info" headers and another one for its
// fixed trailers, and every handler passes that same object to SetHeader / SetTrailer before adding its per-call values
// with a second call (several SetHeader calls are merged, as the gRPC API says). Calls run one after the other or a few
// at a time. Every caller must see the fixed values once and exactly its own per-call values.
type C05SharedMD struct {
	Calls []int `json:"calls"` // kind per call
	Wave  int   `json:"wave"`  // calls in flight together (1..3)
	Ser   bool  `json:"ser"`
	Stats bool  `json:"stats,omitempty"`
}

func genC05SharedMD(t *rapid.T) C05SharedMD {
	return C05SharedMD{Calls: rapid.SliceOfN(rapid.SampledFrom(allKinds), 2, 8).Draw(t, "calls"), Wave: rapid.IntRange(1, 3).Draw(t, "wave"), Ser: rapid.Bool().Draw(t, "ser"), Stats: rapid.IntRange(0, 3).Draw(t, "stats") == 0}
}

func execC05SharedMD(t *testing.T, c C05SharedMD) (v Verdict) {
	n := len(c.Calls)
	hdrs, trls := make([]metadata.MD, n), make([]metadata.MD, n)
	ok := make([]bool, n)
	baseH := metadata.Pairs("server", "goat-app", "build", "42")
	baseT := metadata.Pairs("served-by", "node-1")
	res := kit.Bubble(t, func() {
		svc := kit.NewSvc()
		svc.Unary("u", func(ctx context.Context, req []byte) ([]byte, error) {
			_ = grpc.SetHeader(ctx, baseH)
			_ = grpc.SetHeader(ctx, metadata.Pairs("call", fmt.Sprint(req[0])))
			_ = grpc.SetTrailer(ctx, baseT)
			_ = grpc.SetTrailer(ctx, metadata.Pairs("call-t", fmt.Sprint(req[0])))
			return req, nil
		})
		svc.Stream("s", true, true, func(s grpcServerStream) error {
			b, err := kit.RecvBytes(s)
			if err != nil || len(b) != 1 {
				return err
			}
			_ = s.SetHeader(baseH)
			_ = s.SetHeader(metadata.Pairs("call", fmt.Sprint(b[0])))
			s.SetTrailer(baseT)
			s.SetTrailer(metadata.Pairs("call-t", fmt.Sprint(b[0])))
			return kit.SendBytes(s, b)
		})
		w := kit.NewWorld(kit.Topo{Kind: "direct", Serialize: c.Ser, Clients: 1, Stats: c.Stats}, svc, nil, nil)
		for lo := 0; lo < n; lo += c.Wave {
			var wg sync.WaitGroup
			for i := lo; i < lo+c.Wave && i < n; i++ {
				i := i
				wg.Add(1)
				go func() {
					defer wg.Done()
					ctx, cancel := context.WithTimeout(context.Background(), time.Hour)
					defer cancel()
					if c.Calls[i] == kit.KindUnary {
						// (goat's Invoke takes no call options, so a unary caller cannot look at headers and trailers; the unary
						// handlers still go through the same motions with the shared objects)
						out, err := kit.Invoke(ctx, w.Conn(0), "u", []byte{byte(i)})
						ok[i] = err == nil && len(out) == 1
						return
					}
					cs, err := w.Conn(0).NewStream(ctx, kit.StreamDescFor(kit.KindBidi), kit.FullMethod("s"))
					if err != nil {
						return
					}
					_ = kit.SendBytes(cs, []byte{byte(i)})
					_ = cs.CloseSend()
					if _, err := kit.RecvBytes(cs); err != nil {
						return
					}
					if _, err := kit.RecvBytes(cs); err != io.EOF {
						return
					}
					h, _ := cs.Header()
					hdrs[i], trls[i], ok[i] = h.Copy(), cs.Trailer().Copy(), true
				}()
			}
			wg.Wait()
			kit.Settle()
		}
		w.Shutdown()
		kit.Settle()
	})
	if res.Panic != nil {
		v.failf("panic: %v\n%s", res.Panic, res.Stack)
	}
	one := func(md metadata.MD, k, want string) string {
		if vs := md.Get(k); len(vs) != 1 || vs[0] != want {
			return fmt.Sprintf("%q = %v, want [%s]", k, vs, want)
		}
		return ""
	}
	for i := range c.Calls {
		if !ok[i] {
			v.failf("call %d did not complete", i)
			continue
		}
		if c.Calls[i] == kit.KindUnary {
			continue
		}
		for _, msg := range []string{one(hdrs[i], "call", fmt.Sprint(i)), one(hdrs[i], "server", "goat-app"), one(hdrs[i], "build", "42")} {
			if msg != "" {
				v.failf("call %d (%s): header %s - values set for another call, or the application's shared header object was changed", i, kit.KindNames[c.Calls[i]], msg)
			}
		}
		for _, msg := range []string{one(trls[i], "call-t", fmt.Sprint(i)), one(trls[i], "served-by", "node-1")} {
			if msg != "" {
				v.failf("call %d (%s): trailer %s - values set for another call, or the application's shared trailer object was changed", i, kit.KindNames[c.Calls[i]], msg)
			}
		}
	}
	if len(baseH) != 2 || len(baseT) != 1 {
		v.failf("the application's shared metadata objects were modified by the library: headers %v, trailers %v", baseH, baseT)
	}
	v.Info = kit.CaseInfo{Labels: []string{"shared-md", fmt.Sprintf("shared-md.wave=%d", c.Wave)}, NonTrivial: true, Key: fmt.Sprintf("%+v", c), Sample: c}
	return
}

func TestC05SharedMD(t *testing.T) { checkProp(t, "C05", "shared-md", genC05SharedMD, execC05SharedMD) }
