package props

import (
	"bytes"
	"context"
	"fmt"
	"runtime"
	"sync"
	"testing"
	"time"

	goat "github.com/avos-io/goat"
	"google.golang.org/grpc/codes"
	"google.golang.org/grpc/status"
	"google.golang.org/protobuf/types/known/wrapperspb"
	"pgregory.net/rapid"
	"verifharness/kit"
)

// ---- C11: an abandoned stream never wedges its connection -------------------

type C11Case struct {
	// Stats: do-nothing stats handlers on server and client (kit.Topo.Stats)
	Stats  bool   `json:"stats,omitempty"`
	Mode   string `json:"mode"` // handler-early | caller-cancel | client-extra | server-extra | failed-open
	Kind   int    `json:"kind"`
	K      int    `json:"k"`       // handler-early: messages the handler consumes
	N      int    `json:"n"`       // handler-early: messages the caller sends
	RetErr bool   `json:"ret_err"` // handler returns an error rather than nil
	M      int    `json:"m"`       // caller-cancel: responses left unread
	Extra  int    `json:"extra"`   // *-extra: surplus envelopes
	Shape  string `json:"shape"`   // *-extra: what the surplus looks like
	By     int    `json:"by"`      // bystander RPCs in flight (0..4)
	Ser    bool   `json:"ser"`
	// Deadline: the abandoned stream is opened with a (far) caller deadline
	Deadline bool `json:"deadline,omitempty"`
	// SendFail (caller-cancel, bidi): instead of cancelling, the caller's last act is a SendMsg that fails to encode
	// its message; it then walks away from the stream without cancelling or reading
	SendFail bool `json:"send_fail,omitempty"`
	// Early (caller-cancel): the caller calls Header() and Trailer() right after its first receive, long before the
	// stream has ended (Trailer() then has nothing to report)
	Early bool `json:"early,omitempty"`
	// ParkSend (caller-cancel, bidi): when the caller cancels, one of its own SendMsg calls is parked inside the
	// transport write (a second goroutine of the caller, as the API permits)
	ParkSend bool `json:"park_send,omitempty"`
	// Queued (caller-cancel, bidi): the caller has sent one message which its handler never reads; it sits in the
	// server's per-stream queue (one message fits without holding up the connection) when the cancellation arrives
	Queued bool `json:"queued,omitempty"`
	// CloseFirst (handler-early): the caller half-closes right after its last message, while the handler is still busy
	// (so the half-close reaches the server behind the unread messages, before the handler returns) instead of after
	CloseFirst bool `json:"close_first,omitempty"`
}

func genC11(t *rapid.T) C11Case {
	c := C11Case{Mode: rapid.SampledFrom([]string{"handler-early", "caller-cancel", "client-extra", "server-extra", "failed-open"}).Draw(t, "mode")}
	c.Kind = rapid.SampledFrom(streamKinds).Draw(t, "kind")
	c.By = rapid.IntRange(0, 4).Draw(t, "by")
	c.Ser = rapid.Bool().Draw(t, "ser")
	c.Stats = rapid.IntRange(0, 3).Draw(t, "stats") == 0
	c.Deadline = rapid.Bool().Draw(t, "deadline")
	switch c.Mode {
	case "handler-early":
		c.Kind = rapid.SampledFrom([]int{kit.KindClient, kit.KindBidi}).Draw(t, "ckind")
		c.N = rapid.IntRange(1, 8).Draw(t, "n")
		c.K = rapid.IntRange(0, c.N-1).Draw(t, "k")
		c.RetErr = rapid.Bool().Draw(t, "reterr")
		c.CloseFirst = rapid.Bool().Draw(t, "close_first")
	case "caller-cancel":
		c.Kind = rapid.SampledFrom([]int{kit.KindServer, kit.KindBidi}).Draw(t, "skind")
		c.M = rapid.IntRange(0, 8).Draw(t, "m")
		c.SendFail = c.Kind == kit.KindBidi && rapid.IntRange(0, 2).Draw(t, "send_fail") == 0
		c.Early = rapid.IntRange(0, 2).Draw(t, "early") == 0
		c.ParkSend = c.Kind == kit.KindBidi && !c.SendFail && rapid.IntRange(0, 2).Draw(t, "park_send") == 0
		c.Queued = c.Kind == kit.KindBidi && rapid.Bool().Draw(t, "queued")
	case "failed-open":
		// the write of the opening envelope reaches the server but is reported as failed to the caller, which therefore
		// never serves the stream; the handler answers with Extra messages and returns
		c.Extra = rapid.IntRange(0, 6).Draw(t, "extra")
	case "client-extra":
		c.Extra = rapid.IntRange(1, 6).Draw(t, "extra")
		c.Shape = rapid.SampledFrom([]string{"bodies-after-halfclose", "bodies-after-return", "trailers-after-halfclose", "mixed"}).Draw(t, "shape")
	case "server-extra":
		c.Kind = rapid.SampledFrom(allKinds).Draw(t, "akind")
		c.Extra = rapid.IntRange(1, 6).Draw(t, "extra")
		c.Shape = rapid.SampledFrom([]string{"bodies-after-trailer", "trailers-after-trailer", "resets-after-trailer", "replies-after-reply", "mixed"}).Draw(t, "shape")
	}
	return c
}

// c11Grid enumerates the full (k,n) and m grids once per kind.
func c11Grid() []C11Case {
	var out []C11Case
	for _, kind := range []int{kit.KindClient, kit.KindBidi} {
		for n := 1; n <= 8; n++ {
			for k := 0; k < n; k++ {
				out = append(out, C11Case{Mode: "handler-early", Kind: kind, K: k, N: n, RetErr: (n+k)%2 == 0, By: (n + k) % 3, Deadline: (n*k)%2 == 1})
				out = append(out, C11Case{Mode: "handler-early", Kind: kind, K: k, N: n, RetErr: (n+k)%2 == 1, By: (n + k + 1) % 3, CloseFirst: true})
			}
		}
	}
	for _, kind := range []int{kit.KindServer, kit.KindBidi} {
		for m := 0; m <= 8; m++ {
			out = append(out, C11Case{Mode: "caller-cancel", Kind: kind, M: m, By: m % 3})
		}
	}
	return out
}

func execC11(t *testing.T, c C11Case) (v Verdict) {
	var probeReply []byte
	var probeErr error
	probeDone := false
	byOK := 0
	var targetEnd *kit.ErrObs
	targetDone := false
	var tap []kit.Ev
	var mu sync.Mutex
	res := kit.Bubble(t, func() {
		svc := kit.NewSvc()
		sched := kit.NewSched()
		svc.Unary("u", func(ctx context.Context, req []byte) ([]byte, error) { return append([]byte("re:"), req...), nil })
		svc.Stream("pp", true, true, func(s grpcServerStream) error {
			for {
				b, err := kit.RecvBytes(s)
				if err != nil {
					return nil
				}
				if err := kit.SendBytes(s, append([]byte("pp:"), b...)); err != nil {
					return err
				}
			}
		})
		// target handler
		svc.Stream("t", c.Kind != kit.KindServer, c.Kind != kit.KindClient, func(s grpcServerStream) error { // registered with the streaming directions of the kind under test
			switch c.Mode {
			case "handler-early":
				for i := 0; i < c.K; i++ {
					if _, err := kit.RecvBytes(s); err != nil {
						return err
					}
				}
				sched.Park(nil, "handler-return")
				if c.RetErr {
					return status.Error(codes.FailedPrecondition, "early")
				}
				return nil
			case "failed-open":
				for i := 0; i < c.Extra; i++ {
					if err := kit.SendBytes(s, []byte{byte(i)}); err != nil {
						return err
					}
				}
				return nil
			case "caller-cancel":
				if c.Kind == kit.KindServer {
					if _, err := kit.RecvBytes(s); err != nil {
						return err
					}
				}
				for i := 0; i < c.M+1; i++ {
					if err := kit.SendBytes(s, []byte{byte(i)}); err != nil {
						return err
					}
				}
				<-s.Context().Done()
				return status.FromContextError(s.Context().Err()).Err()
			default: // client-extra: read until EOF, then linger until released
				for {
					if _, err := kit.RecvBytes(s); err != nil {
						break
					}
				}
				if c.Shape == "bodies-after-return" {
					return nil
				}
				sched.Park(s.Context(), "handler-linger")
				return nil
			}
		})

		probe := func(cc grpcConn) {
			ctx, cancel := context.WithTimeout(context.Background(), time.Hour)
			defer cancel()
			r, err := kit.Invoke(ctx, cc, "u", []byte("probe"))
			mu.Lock()
			probeReply, probeErr, probeDone = r, err, true
			mu.Unlock()
		}
		startBystanders := func(cc grpcConn, wg *sync.WaitGroup) {
			for i := 0; i < c.By; i++ {
				i := i
				wg.Add(1)
				go func() {
					defer wg.Done()
					ctx, cancel := context.WithTimeout(context.Background(), time.Hour)
					defer cancel()
					if i%2 == 0 {
						out, err := kit.Invoke(ctx, cc, "u", []byte{byte(i)})
						if err == nil && bytes.Equal(out, []byte{'r', 'e', ':', byte(i)}) {
							mu.Lock()
							byOK++
							mu.Unlock()
						}
						return
					}
					bs, err := cc.NewStream(ctx, kit.StreamDescFor(kit.KindBidi), kit.FullMethod("pp"))
					if err != nil {
						return
					}
					ok := true
					for k := 0; k < 3; k++ {
						if kit.SendBytes(bs, []byte{byte(k)}) != nil {
							ok = false
						}
						if b, err := kit.RecvBytes(bs); err != nil || !bytes.Equal(b, []byte{'p', 'p', ':', byte(k)}) {
							ok = false
						}
					}
					_ = bs.CloseSend()
					if _, err := kit.RecvBytes(bs); err == nil {
						ok = false
					}
					if ok {
						mu.Lock()
						byOK++
						mu.Unlock()
					}
				}()
			}
		}

		switch c.Mode {
		case "handler-early", "caller-cancel":
			w := kit.NewWorld(kit.Topo{Kind: "direct", Serialize: c.Ser, Clients: 1, Stats: c.Stats}, svc, nil, nil)
			cc := w.Conn(0)
			ctx, cancel := context.WithCancel(context.Background())
			defer cancel()
			if c.Deadline {
				var c2 context.CancelFunc
				ctx, c2 = context.WithTimeout(ctx, 10*time.Hour)
				defer c2()
			}
			cs, err := cc.NewStream(ctx, kit.StreamDescFor(c.Kind), kit.FullMethod("t"))
			if err != nil {
				v.failf("open: %v", err)
				return
			}
			var wg sync.WaitGroup
			if c.Mode == "handler-early" {
				for i := 0; i < c.N; i++ {
					_ = kit.SendBytes(cs, []byte{byte(i)})
				}
				if c.CloseFirst {
					_ = cs.CloseSend()
				}
				kit.Settle() // n-k bodies (and the half-close) are now queued in the server behind the idle handler
				startBystanders(cc, &wg)
				kit.Settle()
				sched.ReleaseGate("handler-return")
				kit.Settle()
				go func() {
					if !c.CloseFirst {
						_ = cs.CloseSend()
					}
					for {
						if _, err := kit.RecvBytes(cs); err != nil {
							o := kit.Observe(err)
							mu.Lock()
							targetEnd, targetDone = &o, true
							mu.Unlock()
							return
						}
					}
				}()
			} else {
				if c.Kind == kit.KindServer {
					_ = kit.SendBytes(cs, []byte("req"))
					_ = cs.CloseSend()
				}
				// read exactly one response, leave m unread
				if _, err := kit.RecvBytes(cs); err != nil {
					v.failf("first receive: %v", err)
				}
				if c.Early {
					_, _ = cs.Header()
					_ = cs.Trailer()
				}
				if c.Queued {
					_ = kit.SendBytes(cs, []byte("never read by the handler"))
				}
				kit.Settle() // responses are now stacked up in the client (offered, buffered, parked in dispatch)
				// No settle between starting the bystanders and the cancel: while the
				// dispatch is parked on the unread stream it holds the registry mutex,
				// and callers queueing for a mutex are never "durably blocked".
				startBystanders(cc, &wg)
				if c.ParkSend {
					w.Links[0].A.Hold(func(r *kit.Rpc) bool { return bytes.Equal(unwrapBytes(r.GetBody().GetData()), []byte("parked-send")) })
					go func() { _ = kit.SendBytes(cs, []byte("parked-send")) }()
					for k := 0; k < 20 && len(w.Links[0].Held()) == 0; k++ {
						runtime.Gosched() // (no settle here: see above)
					}
				}
				if c.SendFail {
					// a string field with invalid UTF-8 cannot be marshalled: the send fails before anything is written
					if err := cs.SendMsg(&wrapperspb.StringValue{Value: "\xff\xfe"}); err == nil {
						v.failf("harness: the unencodable message was sent")
					}
				} else {
					cancel()
				}
				kit.Settle()
				go func() {
					for i := 0; i < c.M+2; i++ {
						if _, err := kit.RecvBytes(cs); err != nil {
							o := kit.Observe(err)
							mu.Lock()
							targetEnd, targetDone = &o, true
							mu.Unlock()
							return
						}
					}
				}()
			}
			kit.Settle()
			go probe(cc)
			kit.Settle()
			wgDone := make(chan struct{})
			go func() { wg.Wait(); close(wgDone) }()
			kit.Settle()
			tap = w.Tap.Snapshot()
			sched.Drain()
			w.Shutdown()
			kit.Settle()

		case "failed-open":
			w := kit.NewWorld(kit.Topo{Kind: "direct", Serialize: c.Ser, Clients: 1, Stats: c.Stats}, svc, nil, nil)
			cc := w.Conn(0)
			tm := kit.FullMethod("t")
			w.Links[0].A.FailAfterDeliverIf(func(r *kit.Rpc) bool {
				return r.GetHeader().GetMethod() == tm && r.GetBody() == nil && r.GetTrailer() == nil && r.GetReset_() == nil
			})
			var wg sync.WaitGroup
			startBystanders(cc, &wg)
			ctx, cancel := context.WithTimeout(context.Background(), time.Hour)
			defer cancel()
			if cs, err := cc.NewStream(ctx, kit.StreamDescFor(c.Kind), tm); err == nil {
				// (a library that hands out the stream all the same: walk away from it without reading)
				_ = cs
			}
			mu.Lock()
			targetDone = true // there is no call to terminate: the open was refused
			o := kit.ErrObs{Raw: "open refused"}
			targetEnd = &o
			mu.Unlock()
			kit.Settle() // the handler has answered a stream nobody on the client side is serving
			go probe(cc)
			kit.Settle()
			wgDone := make(chan struct{})
			go func() { wg.Wait(); close(wgDone) }()
			kit.Settle()
			tap = w.Tap.Snapshot()
			sched.Drain()
			w.Shutdown()
			kit.Settle()

		case "client-extra":
			// scripted caller against a goat server
			w := kit.NewWorld(kit.Topo{Kind: "direct", Serialize: c.Ser, Clients: 1, Raw: true, Stats: c.Stats}, svc, nil, nil)
			raw := w.Links[0].A // we drive this end by hand
			method := kit.FullMethod("t")
			send := func(e kit.EnvSpec) {
				e.Wrap = true
				_ = raw.Write(context.Background(), e.Build(77, method, "c0", kit.ServerName))
			}
			body := kit.Payload{Class: "lit", Lit: []byte("x")}
			send(kit.EnvSpec{})                                                // open
			send(kit.EnvSpec{Body: &body})                                     // one message
			send(kit.EnvSpec{Status: &kit.StatusSpec{Code: 0}, Trailer: true}) // half-close
			kit.Settle()
			for i := 0; i < c.Extra; i++ {
				switch {
				case c.Shape == "trailers-after-halfclose" || (c.Shape == "mixed" && i%2 == 1):
					send(kit.EnvSpec{Status: &kit.StatusSpec{Code: 0}, Trailer: true})
				default:
					send(kit.EnvSpec{Body: &body})
				}
			}
			kit.Settle()
			// the same connection must still serve other traffic: bystanders and probe are hand-driven unary exchanges
			ok := 0
			for i := 0; i < c.By+1; i++ {
				id := uint64(1000 + i)
				req := kit.EnvSpec{Body: &kit.Payload{Class: "lit", Lit: []byte{byte(i)}}, Wrap: true}
				_ = raw.Write(context.Background(), req.Build(id, kit.FullMethod("u"), "c0", kit.ServerName))
				kit.Settle()
				for _, r := range raw.ReadAvailable() {
					if r.GetId() == id && r.GetStatus() == nil && bytes.Equal(unwrapBytes(r.GetBody().GetData()), []byte{'r', 'e', ':', byte(i)}) {
						ok++
					}
				}
			}
			mu.Lock()
			if ok == c.By+1 {
				byOK, probeDone, probeReply = c.By, true, []byte("re:probe")
			} else if ok > 0 {
				byOK, probeDone, probeReply = ok-1, true, []byte("re:probe")
			}
			targetDone = true
			mu.Unlock()
			tap = w.Tap.Snapshot()
			sched.Drain()
			w.Shutdown()
			kit.Settle()

		case "server-extra":
			// goat client against a scripted server
			tp := kit.NewTap()
			l := kit.NewLink("c0", tp, c.Ser)
			cc := goat.NewClientConn(l.A, "c0", kit.ServerName)
			ctx, cancel := context.WithCancel(context.Background())
			defer cancel()
			// scripted server: answers unary "u" and ping-pong "pp" honestly, and misbehaves on "t"
			go func() {
				for {
					r, err := l.B.Read(ctx)
					if err != nil {
						return
					}
					m := r.GetHeader().GetMethod()
					reply := func(e kit.EnvSpec) {
						e.Wrap = true
						_ = l.B.Write(context.Background(), e.Build(r.GetId(), m, kit.ServerName, "c0"))
					}
					okst := &kit.StatusSpec{Code: 0}
					switch m {
					case kit.FullMethod("u"):
						reply(kit.EnvSpec{Body: &kit.Payload{Class: "lit", Lit: append([]byte("re:"), unwrapBytes(r.GetBody().GetData())...)}, Trailer: true})
					case kit.FullMethod("pp"):
						if r.GetBody() != nil {
							reply(kit.EnvSpec{Body: &kit.Payload{Class: "lit", Lit: append([]byte("pp:"), unwrapBytes(r.GetBody().GetData())...)}})
						} else if r.GetTrailer() != nil {
							reply(kit.EnvSpec{Status: okst, Trailer: true})
						}
					case kit.FullMethod("t"), kit.FullMethod("tu"):
						isOpen := r.GetBody() == nil && r.GetTrailer() == nil && r.GetReset_() == nil
						if m == kit.FullMethod("tu") {
							isOpen = true
						}
						if !isOpen {
							continue
						}
						one := kit.Payload{Class: "lit", Lit: []byte("one")}
						if m == kit.FullMethod("tu") {
							reply(kit.EnvSpec{Body: &one, Trailer: true})
						} else {
							reply(kit.EnvSpec{Body: &one})
							reply(kit.EnvSpec{Status: okst, Trailer: true})
						}
						for i := 0; i < c.Extra; i++ {
							sh := c.Shape
							if sh == "mixed" {
								sh = []string{"bodies-after-trailer", "trailers-after-trailer", "resets-after-trailer", "replies-after-reply"}[i%4]
							}
							switch sh {
							case "bodies-after-trailer":
								reply(kit.EnvSpec{Body: &one})
							case "trailers-after-trailer":
								reply(kit.EnvSpec{Status: okst, Trailer: true})
							case "resets-after-trailer":
								reply(kit.EnvSpec{Reset: "RST_STREAM", Trailer: true})
							default:
								reply(kit.EnvSpec{Body: &one, Trailer: true})
							}
						}
					}
				}
			}()
			var wg sync.WaitGroup
			startBystanders(cc, &wg)
			if c.Kind == kit.KindUnary {
				go func() {
					_, err := kit.Invoke(ctx, cc, "tu", []byte("q"))
					o := kit.Observe(err)
					mu.Lock()
					targetEnd, targetDone = &o, true
					mu.Unlock()
				}()
			} else {
				go func() {
					cs, err := cc.NewStream(ctx, kit.StreamDescFor(c.Kind), kit.FullMethod("t"))
					if err != nil {
						return
					}
					_ = cs.CloseSend()
					for {
						if _, err := kit.RecvBytes(cs); err != nil {
							o := kit.Observe(err)
							mu.Lock()
							targetEnd, targetDone = &o, true
							mu.Unlock()
							return
						}
					}
				}()
			}
			kit.Settle()
			go probe(cc)
			kit.Settle()
			tap = tp.Snapshot()
			cancel()
			l.Close()
			kit.Settle()
		}
	})
	if res.Panic != nil {
		v.failf("panic: %v\n%s", res.Panic, res.Stack)
	}
	mu.Lock()
	defer mu.Unlock()
	if !probeDone {
		v.failf("an RPC started after the abandonment never completed: the connection is wedged")
	} else if probeErr != nil {
		v.failf("an RPC started after the abandonment failed: %v (virtual time only advances when everything is stuck)", probeErr)
	} else if !bytes.Equal(probeReply, []byte("re:probe")) {
		v.failf("probe RPC got a wrong reply")
	}
	if byOK != c.By {
		v.failf("%d of %d RPCs in flight during the abandonment completed correctly", byOK, c.By)
	}
	if !targetDone {
		v.failf("the abandoned call itself never terminated")
	}
	if c.Mode == "handler-early" && targetEnd != nil {
		want := kit.ErrSpec{Kind: "nil"}
		if c.RetErr {
			want = kit.ErrSpec{Kind: "status", Code: uint32(codes.FailedPrecondition), Msg: "early"}
		}
		if msg := oracleStatus("t", want, *targetEnd, true); msg != "" {
			v.failf("%s", msg)
		}
	}
	labels := []string{"mode=" + c.Mode, "kind=" + kit.KindNames[c.Kind], fmt.Sprintf("by=%d", c.By), fmt.Sprintf("deadline=%v", c.Deadline)}
	nt := c.By >= 1
	if c.Mode == "handler-early" {
		labels = append(labels, fmt.Sprintf("unread_bodies=%d", c.N-c.K), fmt.Sprintf("close_first=%v", c.CloseFirst))
		nt = nt || c.N-c.K >= 2
	}
	if c.Mode == "caller-cancel" {
		labels = append(labels, fmt.Sprintf("unread_responses=%d", c.M), fmt.Sprintf("send_fail=%v", c.SendFail), fmt.Sprintf("early_trailer=%v", c.Early), fmt.Sprintf("park_send=%v", c.ParkSend), fmt.Sprintf("queued_request=%v", c.Queued))
		nt = nt || c.M >= 3
	}
	if c.Extra > 0 {
		labels = append(labels, "shape="+c.Shape)
		nt = true
	}
	v.Info = kit.CaseInfo{Labels: labels, NonTrivial: nt, Key: fmt.Sprintf("%+v", c), Sample: c}
	if v.Fail != "" {
		v.Detail = map[string]any{"wire": tapSummary(tap, 80), "leaked": kit.StackSites(res.Leaked)}
	}
	return
}

func TestC11(t *testing.T) { checkProp(t, "C11", "main", genC11, execC11) }

func TestC11Grid(t *testing.T) {
	g := c11Grid()
	enumProp(t, "C11", "grid", len(g), func(i int) C11Case { return g[i] }, execC11)
	if _, n := shard(); n == 1 {
		kit.G().MarkExhaustive("handler returns after k of n messages, all 0<=k<n<=8 x {client,bidi}; caller cancels with m unread, all 0<=m<=8 x {server,bidi}")
	}
}
