package props

import (
	"bytes"
	"context"
	"errors"
	"fmt"
	goat "github.com/avos-io/goat"
	"runtime"
	"sync"
	"sync/atomic"
	"testing"
	"time"

	"google.golang.org/grpc/codes"
	"google.golang.org/grpc/status"
	"pgregory.net/rapid"
	"verifharness/kit"
)

// ---- C07: cancellation at every position of the wire trace ------------------

type C07Case struct {
	Kind      int    `json:"kind"`
	Ser       bool   `json:"ser"`
	NC        int    `json:"nc"`    // messages the caller sends before idling
	Close     bool   `json:"close"` // caller half-closes after sending
	NH        int    `json:"nh"`    // messages the handler sends
	Read      int    `json:"read"`  // how many of them the caller reads before idling (unread = NH-Read)
	HTmpl     string `json:"htmpl"` // recv-first | echo | send-first
	Deadline  bool   `json:"deadline"`
	TimeoutMs int64  `json:"timeout_ms"`
	Header    bool   `json:"header"`  // caller calls Header() after the cancellation
	Unary     int    `json:"unary"`   // bystander unary calls
	Streams   int    `json:"streams"` // bystander ping-pong streams
	Tape      []byte `json:"tape"`
	// ParkSend: when the cancellation lands, one SendMsg of the caller is parked inside the transport write
	ParkSend bool `json:"park_send,omitempty"`
	// Cause: the caller's context carries a custom cancellation cause (WithCancelCause / WithTimeoutCause); the
	// statuses the property names are those of ctx.Err(), whatever context.Cause says
	Cause bool `json:"cause,omitempty"`
	// Stats: a (do-nothing) stats handler is installed on the server and on the client connection
	Stats bool `json:"stats,omitempty"`
	// ResetStallMs: the transport write that carries the caller's reset takes this long (a congested but reliable
	// transport: 0.2 to 5 s of virtual time, well inside the half minute the library allows for it) before it completes
	ResetStallMs int `json:"reset_stall_ms,omitempty"`
	// SlowUnary: this many unary calls on the same connection are inside their (slow) handlers when the cancellation
	// lands and stay there until the verdict on the handler's context has been taken (fewer than the connection's
	// unary workers, so the read loop itself is never held up by them on the pinned tree)
	SlowUnary int `json:"slow_unary,omitempty"`
}

func genC07(t *rapid.T) C07Case {
	c := C07Case{Kind: rapid.SampledFrom(streamKinds).Draw(t, "kind"), Ser: rapid.Bool().Draw(t, "ser")}
	c.NC = rapid.IntRange(0, 4).Draw(t, "nc")
	c.Close = rapid.Bool().Draw(t, "close")
	c.NH = rapid.SampledFrom([]int{0, 1, 2, 3, 4, 5, 5, 6, 6}).Draw(t, "nh")
	switch c.Kind {
	case kit.KindServer:
		c.NC, c.Close = 1, true
	case kit.KindClient:
		c.NH = 0
	}
	c.Read = c.NH - rapid.IntRange(0, min(5, c.NH)).Draw(t, "unread")
	c.HTmpl = rapid.SampledFrom([]string{"recv-first", "echo", "send-first"}).Draw(t, "htmpl")
	c.Deadline = rapid.Bool().Draw(t, "deadline")
	if c.Deadline {
		c.TimeoutMs = rapid.Int64Range(5, 100000).Draw(t, "timeout")
	}
	c.Header = rapid.Bool().Draw(t, "header")
	c.Unary = rapid.IntRange(0, 2).Draw(t, "unary")
	c.Streams = rapid.IntRange(0, 1).Draw(t, "streams")
	c.Tape = rapid.SliceOfN(rapid.Byte(), 0, 24).Draw(t, "tape")
	c.ParkSend = c.Kind != kit.KindServer && !c.Close && rapid.IntRange(0, 3).Draw(t, "park_send") == 0
	c.Cause = rapid.IntRange(0, 3).Draw(t, "cause") == 0
	c.Stats = rapid.IntRange(0, 2).Draw(t, "stats") == 0
	c.ResetStallMs = rapid.SampledFrom([]int{0, 0, 0, 200, 2000, 5000}).Draw(t, "reset_stall_ms")
	c.SlowUnary = rapid.SampledFrom([]int{0, 0, 0, 1, 3, 5, 7}).Draw(t, "slow_unary")
	return c
}

func (c C07Case) handlerProg() kit.HProg {
	nr := c.NC
	if c.Close {
		nr++
	}
	var tm string
	switch c.HTmpl {
	case "recv-first":
		tm = "afirst"
	case "send-first":
		tm = "bfirst"
	default:
		tm = "alt"
	}
	var ops []kit.HOp
	i, j := 0, 0
	add := func(r bool) {
		if r {
			ops = append(ops, kit.HOp{Op: "recv"})
			i++
		} else {
			p := kit.Payload{Class: "lit", Lit: []byte{byte(0x40 + j), 0xAA, byte(j)}}
			ops = append(ops, kit.HOp{Op: "send", P: &p})
			j++
		}
	}
	switch tm {
	case "afirst":
		for i < nr {
			add(true)
		}
		for j < c.NH {
			add(false)
		}
	case "bfirst":
		for j < c.NH {
			add(false)
		}
		for i < nr {
			add(true)
		}
	default:
		for i < nr || j < c.NH {
			if i < nr {
				add(true)
			}
			if j < c.NH {
				add(false)
			}
		}
	}
	return kit.HProg{Ops: ops, StopOnCtx: true, WaitCtx: true}
}

type c07Run struct {
	steps               int
	clog                *kit.CLog
	hlog                *kit.HLog
	post                []kit.ErrObs // results of the receives issued after the cancellation (data = Nil with Raw digest)
	postData            [][]byte
	sendAfter           kit.ErrObs
	parkedSend          kit.ErrObs
	headerAfter         bool // Header() returned
	resetSeen           bool
	trailerBeforeCancel bool
	byOK, byTotal       int
	tap                 []kit.Ev
	res                 kit.RunResult
	id                  uint64
	handlerCtxDoneAfter bool
	resetStalled        bool
	openErr             error
	wire                []kit.StreamFacts
}

// runC07 executes the scenario with the cancellation placed after pos envelope deliveries.
func runC07(t *testing.T, c C07Case, pos int) *c07Run {
	r := &c07Run{clog: &kit.CLog{}, hlog: &kit.HLog{}}
	r.res = kit.Bubble(t, func() {
		svc := kit.NewSvc()
		prog := c.handlerProg()
		svc.Stream("t", c.Kind != kit.KindServer, c.Kind != kit.KindClient, func(s grpcServerStream) error { return kit.RunHandler(prog, s, r.hlog) })
		svc.Unary("u", func(ctx context.Context, req []byte) ([]byte, error) { return append([]byte("re:"), req...), nil })
		svc.Stream("pp", true, true, func(s grpcServerStream) error {
			for {
				b, err := kit.RecvBytes(s)
				if err != nil {
					return nil
				}
				if err := kit.SendBytes(s, append([]byte("pp:"), b...)); err != nil {
					return err
				}
			}
		})
		slowRelease := make(chan struct{})
		svc.Unary("slow", func(ctx context.Context, req []byte) ([]byte, error) {
			select {
			case <-slowRelease:
			case <-ctx.Done():
			}
			return req, nil
		})
		var sopts []goat.ServerOption
		var dopts []goat.DialOption
		if c.Stats {
			sopts = append(sopts, goat.StatsHandler(nopStats{}))
			dopts = append(dopts, goat.WithStatsHandler(nopStats{}))
		}
		w := kit.NewWorld(kit.Topo{Kind: "direct", Serialize: c.Ser, Clients: 1}, svc, sopts, dopts)
		l := w.Links[0]
		// slow unary calls of the same connection, inside their handlers for the whole life of the target call (started
		// first: a call started while the client's read loop is parked on the target's unread messages would queue for
		// the multiplexer's mutex, which no bubble can settle on)
		for i := 0; i < c.SlowUnary; i++ {
			go func() { _, _ = kit.Invoke(context.Background(), w.Conn(0), "slow", []byte{byte(i)}) }()
		}
		kit.Settle()
		l.DelayAll()
		sched := kit.NewSched(l)

		ctx, cancel := context.WithCancel(context.Background())
		if c.Deadline {
			ctx, cancel = context.WithTimeout(context.Background(), time.Duration(c.TimeoutMs)*time.Millisecond)
		}
		if c.Cause {
			why := errors.New("the caller lost interest")
			if c.Deadline {
				ctx, cancel = context.WithTimeoutCause(context.Background(), time.Duration(c.TimeoutMs)*time.Millisecond, why)
			} else {
				var cc context.CancelCauseFunc
				ctx, cc = context.WithCancelCause(context.Background())
				cancel = func() { cc(why) }
			}
		}
		defer cancel()
		// target call: pre-cancellation program
		var pre []kit.COp
		for i := 0; i < c.NC; i++ {
			p := kit.Payload{Class: "lit", Lit: []byte{byte(i), 0x55}}
			pre = append(pre, kit.COp{Op: "send", P: &p})
		}
		if c.Close {
			pre = append(pre, kit.COp{Op: "close"})
		}
		for i := 0; i < c.Read; i++ {
			pre = append(pre, kit.COp{Op: "recv"})
		}
		cancelled := make(chan struct{})
		postDone := make(chan struct{})
		var preDone atomic.Bool
		var cs grpcClientStream
		go func() {
			defer close(postDone)
			var err error
			cs, err = w.Conn(0).NewStream(ctx, kit.StreamDescFor(c.Kind), kit.FullMethod("t"))
			if err != nil {
				r.openErr = err
				return
			}
			kit.RunClientOps(pre, cs, cancel, r.clog)
			if r.clog.Snapshot().RecvEnd != nil {
				_ = cs.Trailer() // permitted as soon as a receive has returned an error (here: the cancellation)
			}
			preDone.Store(true)
			<-cancelled
			// receives after the cancellation: unread+2 of them
			for i := 0; i < (c.NH-c.Read)+2; i++ {
				b, err := kit.RecvBytes(cs)
				if err == nil {
					r.post = append(r.post, kit.ErrObs{Nil: true, Raw: kit.Digest(b)})
					r.postData = append(r.postData, b)
				} else {
					r.post = append(r.post, kit.Observe(err))
				}
			}
			r.sendAfter = kit.Observe(kit.SendBytes(cs, []byte("late")))
			_ = cs.Trailer()   // permitted once a receive has failed
			_ = cs.CloseSend() // e.g. a deferred half-close: nothing of it may follow the reset on the wire
			if c.Header {
				_, _ = cs.Header()
				r.headerAfter = true
			}
		}()
		// bystanders
		var bwg sync.WaitGroup
		var bmu sync.Mutex
		r.byTotal = c.Unary + c.Streams
		for i := 0; i < c.Unary; i++ {
			i := i
			bwg.Add(1)
			go func() {
				defer bwg.Done()
				out, err := kit.Invoke(context.Background(), w.Conn(0), "u", []byte{byte(i)})
				if err == nil && bytes.Equal(out, []byte{'r', 'e', ':', byte(i)}) {
					bmu.Lock()
					r.byOK++
					bmu.Unlock()
				}
			}()
		}
		for i := 0; i < c.Streams; i++ {
			bwg.Add(1)
			go func() {
				defer bwg.Done()
				bs, err := w.Conn(0).NewStream(context.Background(), kit.StreamDescFor(kit.KindBidi), kit.FullMethod("pp"))
				if err != nil {
					return
				}
				ok := true
				for k := 0; k < 2; k++ {
					if kit.SendBytes(bs, []byte{byte(k)}) != nil {
						ok = false
					}
					if b, err := kit.RecvBytes(bs); err != nil || !bytes.Equal(b, []byte{'p', 'p', ':', byte(k)}) {
						ok = false
					}
				}
				_ = bs.CloseSend()
				if _, err := kit.RecvBytes(bs); err == nil {
					ok = false
				}
				if ok {
					bmu.Lock()
					r.byOK++
					bmu.Unlock()
				}
			}()
		}
		// deliver exactly pos envelopes, then cancel
		sched.Run(c.Tape, pos, nil)
		r.steps = sched.Steps
		kit.Settle()
		for _, e := range w.Tap.Snapshot() {
			if e.Dir == kit.BtoA && e.Rpc.GetHeader().GetMethod() == kit.FullMethod("t") && e.Rpc.GetTrailer() != nil {
				r.trailerBeforeCancel = true
			}
		}
		parkedDone := make(chan struct{})
		isParked := func(x *kit.Rpc) bool { return string(unwrapBytes(x.GetBody().GetData())) == "parked" }
		// (The stall is only staged when no operation of the caller is pending: the library writes the reset while holding
		// the stream's mutex, a pending receive woken by the cancellation queues for that mutex, and a goroutine queueing
		// for a mutex is never "durably blocked" - the bubble could neither settle nor let time pass.)
		stall := c.ResetStallMs > 0 && preDone.Load() && !c.ParkSend
		isStalledReset := func(x *kit.Rpc) bool {
			return stall && x.GetReset_() != nil && x.GetHeader().GetMethod() == kit.FullMethod("t")
		}
		if stall {
			l.A.Hold(isStalledReset)
		}
		if c.ParkSend && r.openErr == nil && cs != nil {
			// a slow transport write (legal) in which the caller's SendMsg sits when the context ends
			l.A.Hold(func(x *kit.Rpc) bool { return isParked(x) || isStalledReset(x) })
			go func() {
				defer close(parkedDone)
				r.parkedSend = kit.Observe(kit.SendBytes(cs, []byte("parked")))
			}()
			kit.Settle()
		} else {
			close(parkedDone)
		}
		if c.Deadline {
			dl, _ := ctx.Deadline()
			time.Sleep(time.Until(dl) + time.Millisecond)
		} else {
			cancel()
		}
		kit.Settle()
		if stall && !kit.MutexWaiters() {
			r.resetStalled = true
			time.Sleep(time.Duration(c.ResetStallMs) * time.Millisecond) // the reset's transport write is still in progress
			kit.Settle()
		}
		l.A.Hold(nil)
		l.ReleaseAll()
		kit.Settle()
		close(cancelled)
		kit.Settle()
		bwg.Wait()
		select {
		case <-postDone:
		default:
		}
		kit.Settle()
		r.handlerCtxDoneAfter = r.hlog.SnapshotInBubble().CtxDone
		close(slowRelease)
		kit.Settle()
		r.tap = w.Tap.Snapshot()
		w.Shutdown()
		kit.Settle()
		r.hlog = r.hlog.SnapshotInBubble()
		r.clog = r.clog.Snapshot()
	})
	for _, e := range r.tap {
		if e.Rpc.GetHeader().GetMethod() == kit.FullMethod("t") && e.Dir == kit.AtoB {
			r.id = e.Rpc.GetId()
			if e.Rpc.GetReset_() != nil {
				r.resetSeen = true
			}
		}
	}
	return r
}

type grpcClientStream interface {
	SendMsg(any) error
	RecvMsg(any) error
	CloseSend() error
	Header() (metadataMD, error)
	Trailer() metadataMD
	Context() context.Context
}

func isCtxFlavoured(o kit.ErrObs, deadline bool) bool {
	want := codes.Canceled
	werr := context.Canceled
	if deadline {
		want = codes.DeadlineExceeded
		werr = context.DeadlineExceeded
	}
	if o.Err() == nil {
		return false
	}
	if errors.Is(o.Err(), werr) {
		return true
	}
	if st, ok := status.FromError(o.Err()); ok && st.Code() == want {
		return true
	}
	return false
}

func judgeC07(c C07Case, pos int, r *c07Run) string {
	tag := fmt.Sprintf("cancel@%d", pos)
	if r.res.Panic != nil {
		return fmt.Sprintf("%s: panic: %v", tag, r.res.Panic)
	}
	if r.openErr != nil {
		return fmt.Sprintf("%s: NewStream failed although its context was alive: %v", tag, r.openErr)
	}
	if r.byOK != r.byTotal {
		return fmt.Sprintf("%s: %d of %d bystander RPCs completed correctly", tag, r.byOK, r.byTotal)
	}
	if len(r.post) != (c.NH-c.Read)+2 {
		return fmt.Sprintf("%s: caller blocked: only %d of %d receives issued after the cancellation returned", tag, len(r.post), (c.NH-c.Read)+2)
	}
	// everything the caller ever received is a prefix of what the handler really sent
	all := append(append([][]byte{}, r.clog.Recv...), r.postData...)
	if !kit.IsPrefix(all, r.hlog.Sent) {
		return fmt.Sprintf("%s: caller received %v, handler sent %v: data was invented, lost or reordered", tag, digests(all), r.hlog.SentD)
	}
	// pre-cancellation receives that failed must have failed with the context's status
	if r.clog.RecvEnd != nil && !isCtxFlavoured(*r.clog.RecvEnd, c.Deadline) {
		return fmt.Sprintf("%s: a receive pending at the cancellation returned %q, want the context's status", tag, r.clog.RecvEnd.Raw)
	}
	seenErr := false
	for i, p := range r.post {
		if p.Nil {
			if seenErr {
				return fmt.Sprintf("%s: receive #%d after the cancellation returned data after an earlier one had failed", tag, i)
			}
			continue
		}
		seenErr = true
		if p.EOF {
			return fmt.Sprintf("%s: receive #%d after the cancellation returned io.EOF although the handler never completed", tag, i)
		}
		if !isCtxFlavoured(p, c.Deadline) {
			return fmt.Sprintf("%s: receive #%d after the cancellation returned %q, want Canceled/DeadlineExceeded", tag, i, p.Raw)
		}
	}
	if !seenErr {
		return fmt.Sprintf("%s: %d receives after the cancellation all returned data", tag, len(r.post))
	}
	if r.sendAfter.Nil {
		return fmt.Sprintf("%s: a send after the cancellation succeeded", tag)
	}
	// (io.EOF is what a send reports on a stream that had already completed when the context ended)
	if !isCtxFlavoured(r.sendAfter, c.Deadline) && !(r.sendAfter.EOF && r.trailerBeforeCancel) {
		return fmt.Sprintf("%s: a send after the cancellation failed with %q, want the context's error", tag, r.sendAfter.Raw)
	}
	if c.ParkSend && r.parkedSend.Nil && r.parkedSend.Err() == nil && r.parkedSend.Raw == "" && !r.trailerBeforeCancel {
		// zero value: the parked send never returned
		return fmt.Sprintf("%s: a SendMsg parked in the transport write did not return after the cancellation", tag)
	}
	if c.Header && !r.headerAfter {
		return fmt.Sprintf("%s: Header() blocked after the cancellation", tag)
	}
	if !r.resetSeen && !r.trailerBeforeCancel {
		return fmt.Sprintf("%s: no reset for stream %d was sent to the server", tag, r.id)
	}
	if !r.hlog.Started {
		return fmt.Sprintf("%s: handler never started although the open envelope was delivered", tag)
	}
	if !r.handlerCtxDoneAfter {
		return fmt.Sprintf("%s: the handler's context is still live after the caller has gone", tag)
	}
	if !r.hlog.Returned {
		return fmt.Sprintf("%s: handler still running at the end of the case", tag)
	}
	// wire conformance of the cancelled stream (feeds C06)
	facts := []kit.StreamFacts{{Conn: "c0", Client: "c0", Server: kit.ServerName, ID: r.id, Method: kit.FullMethod("t"), HandlerReturned: true, CallerReset: true, AllowLateClientEnvs: false}}
	var only []kit.Ev
	for _, e := range r.tap {
		if e.Rpc.GetId() == r.id {
			only = append(only, e)
		}
	}
	if viol, _, _ := kit.CheckWire(only, facts); len(viol) > 0 {
		r.wire = facts
		return fmt.Sprintf("%s: WIRE %s", tag, viol[0])
	}
	return ""
}

func execC07(t *testing.T, c C07Case) (v Verdict) {
	// the run with the cancellation after everything is also the probe for L
	base := runC07(t, c, 1<<30)
	L := base.steps
	positions := []int{}
	for p := 0; p <= L; p++ {
		positions = append(positions, p)
	}
	if !thorough() && L > 10 {
		// quick tier: ends, and a deterministic sample of the interior
		positions = []int{0, 1, L / 4, L / 2, (3 * L) / 4, L - 1, L}
	}
	var failPos = -1
	var failRun *c07Run
	for _, p := range positions {
		r := base
		if p != L {
			r = runC07(t, c, p)
		}
		kit.G().Count("positions", 1)
		if r.resetStalled {
			kit.G().Count("positions_with_stalled_reset_write", 1)
		}
		if msg := judgeC07(c, p, r); msg != "" {
			v.failf("%s", msg)
			failPos, failRun = p, r
			break
		}
	}
	unread := c.NH - c.Read
	labels := []string{"kind=" + kit.KindNames[c.Kind], fmt.Sprintf("unread=%d", unread), fmt.Sprintf("deadline=%v", c.Deadline), fmt.Sprintf("cause=%v", c.Cause), fmt.Sprintf("stats=%v", c.Stats), fmt.Sprintf("reset_write_stalls=%v", c.ResetStallMs > 0),
		fmt.Sprintf("bystanders=%d", c.Unary+c.Streams), "htmpl=" + c.HTmpl, fmt.Sprintf("close=%v", c.Close), fmt.Sprintf("park_send=%v", c.ParkSend), fmt.Sprintf("slow_unary=%v", c.SlowUnary > 0)}
	if unread >= 3 {
		labels = append(labels, "unread>=3")
	}
	v.Info = kit.CaseInfo{Labels: labels, NonTrivial: L >= 2 || unread >= 1 || c.Deadline, Key: fmt.Sprintf("%+v", c),
		Sample: map[string]any{"scenario": c, "trace_len": L, "positions": len(positions)}}
	if v.Fail != "" && failRun != nil {
		v.Detail = map[string]any{"position": failPos, "wire": tapSummary(failRun.tap, 80), "caller": failRun.clog, "handler": failRun.hlog, "post_receives": failRun.post, "send_after": failRun.sendAfter}
	}
	return
}

func TestC07(t *testing.T) { checkProp(t, "C07", "main", genC07, execC07) }

// ---- the context ends while the opening envelope is on its way out ----------------------------
//
// "... wherever in the stream's life the cancellation lands (right after opening, ...)": the earliest such point is
// while the opening envelope is still inside the transport's Write. Some transports complete a write once they have
// started it, whatever happens to the context; the server then has a stream whose caller is already gone. Its handler
// must not be left running with a live context.

type C07Open struct {
	Kind     int  `json:"kind"`
	Deadline bool `json:"deadline"` // the context ends by its deadline instead of an explicit cancel
	Cause    bool `json:"cause"`
	Stats    bool `json:"stats,omitempty"`
	Ser      bool `json:"ser"`
	By       int  `json:"by"` // other streams opened normally on the same connection at the same time
}

func genC07Open(t *rapid.T) C07Open {
	return C07Open{Kind: rapid.SampledFrom(streamKinds).Draw(t, "kind"), Deadline: rapid.Bool().Draw(t, "deadline"), Cause: rapid.IntRange(0, 3).Draw(t, "cause") == 0,
		Stats: rapid.IntRange(0, 2).Draw(t, "stats") == 0, Ser: rapid.Bool().Draw(t, "ser"), By: rapid.IntRange(0, 2).Draw(t, "by")}
}

func execC07Open(t *testing.T, c C07Open) (v Verdict) {
	var mu sync.Mutex
	var hctx context.Context
	hstarted := false
	var callErr error
	callDone := false
	byOK := 0
	res := kit.Bubble(t, func() {
		svc := kit.NewSvc()
		svc.Stream("t", c.Kind != kit.KindServer, c.Kind != kit.KindClient, func(s grpcServerStream) error {
			mu.Lock()
			hctx, hstarted = s.Context(), true
			mu.Unlock()
			<-s.Context().Done()
			return status.FromContextError(s.Context().Err()).Err()
		})
		svc.Stream("pp", true, true, func(s grpcServerStream) error {
			for {
				b, err := kit.RecvBytes(s)
				if err != nil {
					return nil
				}
				if err := kit.SendBytes(s, b); err != nil {
					return err
				}
			}
		})
		w := kit.NewWorld(kit.Topo{Kind: "direct", Serialize: c.Ser, Clients: 1, Stats: c.Stats}, svc, nil, nil)
		l := w.Links[0]
		l.A.IgnoreWriteCtx = true // once started, a write completes
		l.A.Hold(func(r *kit.Rpc) bool {
			return r.GetHeader().GetMethod() == kit.FullMethod("t") && r.GetBody() == nil && r.GetTrailer() == nil && r.GetReset_() == nil
		})
		ctx, cancel := context.WithCancel(context.Background())
		why := errors.New("lost interest")
		switch {
		case c.Deadline && c.Cause:
			ctx, cancel = context.WithTimeoutCause(context.Background(), 30*time.Millisecond, why)
		case c.Deadline:
			ctx, cancel = context.WithTimeout(context.Background(), 30*time.Millisecond)
		case c.Cause:
			var cc context.CancelCauseFunc
			ctx, cc = context.WithCancelCause(context.Background())
			cancel = func() { cc(why) }
		}
		defer cancel()
		go func() {
			cs, err := w.Conn(0).NewStream(ctx, kit.StreamDescFor(c.Kind), kit.FullMethod("t"))
			if err == nil {
				_, err = kit.RecvBytes(cs)
			}
			mu.Lock()
			callErr, callDone = err, true
			mu.Unlock()
		}()
		var wg sync.WaitGroup
		for i := 0; i < c.By; i++ {
			wg.Add(1)
			go func() {
				defer wg.Done()
				bctx, bcancel := context.WithTimeout(context.Background(), time.Hour)
				defer bcancel()
				bs, err := w.Conn(0).NewStream(bctx, kit.StreamDescFor(kit.KindBidi), kit.FullMethod("pp"))
				if err != nil {
					return
				}
				_ = kit.SendBytes(bs, []byte("x"))
				if b, err := kit.RecvBytes(bs); err == nil && string(b) == "x" {
					mu.Lock()
					byOK++
					mu.Unlock()
				}
				_ = bs.CloseSend()
				_, _ = kit.RecvBytes(bs)
			}()
		}
		kit.Settle() // the opening envelope of the target call is inside the transport's Write
		if c.Deadline {
			time.Sleep(40 * time.Millisecond)
		} else {
			cancel()
		}
		kit.Settle()
		l.A.Hold(nil)
		for _, h := range l.Held() {
			h.Release() // the write completes: the open reaches the server
		}
		kit.Settle()
		wg.Wait()
		kit.Settle()
		mu.Lock()
		if hstarted && hctx.Err() == nil {
			v.failf("the opening envelope reached the server after its caller's context had ended; the handler is running with a live context and nothing will ever cancel it")
		}
		mu.Unlock()
		w.Shutdown()
		kit.Settle()
	})
	if res.Panic != nil {
		v.failf("panic: %v\n%s", res.Panic, res.Stack)
	}
	mu.Lock()
	defer mu.Unlock()
	if !callDone {
		v.failf("the call whose context ended during the opening write never returned")
	} else if callErr == nil {
		v.failf("the call whose context ended during the opening write reported success")
	} else if !isCtxFlavoured(kit.Observe(callErr), c.Deadline) {
		v.failf("the call whose context ended during the opening write returned %v, want the context's status", callErr)
	}
	if byOK != c.By {
		v.failf("%d of %d other streams on the connection completed", byOK, c.By)
	}
	v.Info = kit.CaseInfo{Labels: []string{"cancel-during-open", fmt.Sprintf("open.handler_started=%v", hstarted), "kind=" + kit.KindNames[c.Kind]}, NonTrivial: true, Key: fmt.Sprintf("%+v", c), Sample: c}
	return
}

func TestC07Open(t *testing.T) { checkProp(t, "C07", "during-open", genC07Open, execC07Open) }

// ---- cancelling a stream whose other goroutine is busy sending --------------------------------
//
// The API allows one goroutine to send while another receives (and cancels). Here the sender never pauses, so the
// cancellation always lands while a SendMsg is being entered, is inside the transport, or is returning.

type C07SendRace struct {
	Streams int  `json:"streams"`
	Spin    int  `json:"spin"` // scheduler yields between starting the senders and the cancellation
	Stats   bool `json:"stats,omitempty"`
	Ser     bool `json:"ser"`
}

func genC07SendRace(t *rapid.T) C07SendRace {
	return C07SendRace{Streams: rapid.IntRange(1, 3).Draw(t, "streams"), Spin: rapid.IntRange(0, 60).Draw(t, "spin"),
		Stats: rapid.IntRange(0, 2).Draw(t, "stats") == 0, Ser: rapid.Bool().Draw(t, "ser")}
}

func execC07SendRace(t *testing.T, c C07SendRace) (v Verdict) {
	type obs struct {
		hctx       context.Context
		sendEnded  bool
		sendErr    error
		recvErr    error
		recvEnded  bool
		sentBefore int
	}
	o := make([]*obs, c.Streams)
	for i := range o {
		o[i] = &obs{}
	}
	var mu sync.Mutex
	res := kit.Bubble(t, func() {
		svc := kit.NewSvc()
		svc.Stream("sr", true, true, func(s grpcServerStream) error {
			first, err := kit.RecvBytes(s)
			if err != nil || len(first) == 0 {
				return err
			}
			mu.Lock()
			o[int(first[0])].hctx = s.Context()
			mu.Unlock()
			for {
				if _, err := kit.RecvBytes(s); err != nil {
					return status.FromContextError(s.Context().Err()).Err()
				}
			}
		})
		w := kit.NewWorld(kit.Topo{Kind: "direct", Serialize: c.Ser, Clients: 1, Stats: c.Stats}, svc, nil, nil)
		ctx, cancel := context.WithCancel(context.Background())
		defer cancel()
		var wg sync.WaitGroup
		for i := 0; i < c.Streams; i++ {
			i := i
			cs, err := w.Conn(0).NewStream(ctx, kit.StreamDescFor(kit.KindBidi), kit.FullMethod("sr"))
			if err != nil {
				v.failf("open: %v", err)
				return
			}
			_ = kit.SendBytes(cs, []byte{byte(i)})
			wg.Add(2)
			go func() { // the sender: never pauses
				defer wg.Done()
				for k := 0; k < 1000000; k++ {
					if err := kit.SendBytes(cs, []byte{byte(i), byte(k)}); err != nil {
						mu.Lock()
						o[i].sendEnded, o[i].sendErr, o[i].sentBefore = true, err, k
						mu.Unlock()
						return
					}
				}
			}()
			go func() { // the receiver
				defer wg.Done()
				_, err := kit.RecvBytes(cs)
				mu.Lock()
				o[i].recvEnded, o[i].recvErr = true, err
				mu.Unlock()
			}()
		}
		for k := 0; k < c.Spin; k++ {
			runtime.Gosched()
		}
		cancel() // (an explicit cancel only: a bubble's clock stands still while the senders are busy, so a deadline would never fire)
		kit.Settle()
		wg.Wait()
		kit.Settle()
		mu.Lock()
		for i, x := range o {
			if x.hctx != nil && x.hctx.Err() == nil {
				v.failf("stream %d: the caller's context has ended, its handler's context is still live", i)
			}
		}
		mu.Unlock()
		w.Shutdown()
		kit.Settle()
	})
	if res.Panic != nil {
		v.failf("panic: %v\n%s", res.Panic, res.Stack)
	}
	for i, x := range o {
		if !x.sendEnded {
			v.failf("stream %d: the sending goroutine never got an error after the context had ended", i)
		}
		if !x.recvEnded {
			v.failf("stream %d: the receive pending at the cancellation never returned", i)
		} else if x.recvErr == nil || !isCtxFlavoured(kit.Observe(x.recvErr), false) {
			v.failf("stream %d: the receive pending at the cancellation returned %v, want the context's status", i, x.recvErr)
		}
	}
	v.Info = kit.CaseInfo{Labels: []string{"send-race"}, NonTrivial: true, Key: fmt.Sprintf("%+v", c), Sample: c}
	return
}

func TestC07SendRace(t *testing.T) { checkProp(t, "C07", "send-race", genC07SendRace, execC07SendRace) }
