package props

import (
	"bytes"
	"context"
	"fmt"
	"io"
	"strings"
	"sync"
	"testing"
	"time"

	goat "github.com/avos-io/goat"
	"google.golang.org/grpc"
	"google.golang.org/grpc/codes"
	"google.golang.org/grpc/metadata"
	"google.golang.org/grpc/stats"
	"google.golang.org/grpc/status"
	"google.golang.org/protobuf/protoadapt"
	"google.golang.org/protobuf/types/known/wrapperspb"
	"pgregory.net/rapid"
	"verifharness/kit"
)

// ---- C20: interceptors and stats handlers ------------------------------------

type C20Case struct {
	// ServeCtxEnded (unary, outcomes ok/herr): the context passed to Serve was cancelled before the RPCs; goat keeps
	// serving the connection, and every interceptor and stats handler must still see every RPC
	ServeCtxEnded bool `json:"serve_ctx_ended,omitempty"`
	// Alt: per RPC, whether it calls the second method of its kind ("u2"/"s2") instead of the first; one Server serves both
	Alt []bool `json:"alt,omitempty"`
	// LateCancel (unary, outcome ok): the caller's context is cancelled from inside a client stats handler when the reply's
	// InPayload event is delivered, i.e. after the call has been decided; the call still succeeds and End must say so
	LateCancel bool `json:"late_cancel,omitempty"`
	// HErr: what a failing handler (outcome herr) returns: "" = status NotFound "nf", eof = io.EOF, wrapped-eof = an error wrapping io.EOF
	HErr string `json:"herr,omitempty"`
	// ErrKind: the error value the failing transport returns (kit.FaultErrKinds)
	ErrKind string   `json:"err_kind,omitempty"`
	Kind    int      `json:"kind"`
	Outcome string   `json:"outcome"` // ok | herr | cancel | deadline | transport | openfail
	Server  []string `json:"server"`  // transformation of each server interceptor, in registration order: req | reply | md | err | pass
	Client  []string `json:"client"`  // client-side chain (composed by the harness into goat's single slot)
	SStats  int      `json:"sstats"`  // stats handlers on the server
	CStats  int      `json:"cstats"`  // stats handlers on the client
	Single  bool     `json:"single"`  // chain of length 1 installed with UnaryInterceptor/StreamInterceptor instead of Chain*
	RPCs    int      `json:"rpcs"`    // how many RPCs of this shape, sequentially
	Unread  bool     `json:"unread"`  // cancel/deadline on streams: the handler first sends one message that the caller never receives
	Ser     bool     `json:"ser"`
}

func genC20(t *rapid.T) C20Case {
	c := C20Case{Kind: rapid.SampledFrom(allKinds).Draw(t, "kind"), Ser: rapid.Bool().Draw(t, "ser")}
	c.ErrKind = rapid.SampledFrom(kit.FaultErrKinds).Draw(t, "err_kind")
	c.Outcome = rapid.SampledFrom([]string{"ok", "ok", "herr", "cancel", "deadline", "transport", "openfail"}).Draw(t, "outcome")
	if c.Outcome == "ok" && c.Kind == kit.KindUnary {
		c.LateCancel = rapid.Bool().Draw(t, "late_cancel")
	}
	if c.Kind == kit.KindUnary && (c.Outcome == "ok" || c.Outcome == "herr") {
		c.ServeCtxEnded = rapid.IntRange(0, 3).Draw(t, "serve_ctx_ended") == 0
	}
	if c.Outcome == "herr" {
		c.HErr = rapid.SampledFrom([]string{"", "", "eof", "wrapped-eof"}).Draw(t, "herr")
	}
	if c.Kind == kit.KindUnary && c.Outcome == "openfail" {
		c.Outcome = "herr"
	}
	ns := rapid.IntRange(1, 6).Draw(t, "nserver")
	for i := 0; i < ns; i++ {
		c.Server = append(c.Server, rapid.SampledFrom([]string{"req", "reply", "md", "err", "pass"}).Draw(t, "st"))
	}
	nc := rapid.IntRange(0, 3).Draw(t, "nclient")
	for i := 0; i < nc; i++ {
		c.Client = append(c.Client, rapid.SampledFrom([]string{"req", "md", "pass"}).Draw(t, "ct"))
	}
	c.SStats = rapid.IntRange(1, 3).Draw(t, "sstats")
	c.CStats = rapid.IntRange(1, 3).Draw(t, "cstats")
	c.Single = ns == 1 && rapid.Bool().Draw(t, "single")
	c.RPCs = rapid.IntRange(1, 3).Draw(t, "rpcs")
	for i := 0; i < c.RPCs+1; i++ { // (+1: the RPC started after a transport failure)
		c.Alt = append(c.Alt, rapid.Bool().Draw(t, "alt"))
	}
	c.Unread = rapid.Bool().Draw(t, "unread") && (c.Kind == kit.KindServer || c.Kind == kit.KindBidi) && (c.Outcome == "cancel" || c.Outcome == "deadline")
	return c
}

type tagKey struct{ h int }

// recStats is a recording stats handler.
type recStats struct {
	idx      int
	client   bool
	mu       sync.Mutex
	next     int
	events   map[int][]string // tag -> event type names in arrival order
	endErr   map[int][]error
	untagged []string
	conn     []string
	// onEvent, if set, runs after each RPC event has been recorded (outside the lock)
	onEvent func(name string)
}

func newRecStats(idx int, client bool) *recStats {
	return &recStats{idx: idx, client: client, events: map[int][]string{}, endErr: map[int][]error{}}
}

func (r *recStats) TagRPC(ctx context.Context, _ *stats.RPCTagInfo) context.Context {
	r.mu.Lock()
	r.next++
	t := r.next
	r.events[t] = nil
	r.mu.Unlock()
	return context.WithValue(ctx, tagKey{r.idx*2 + b2i(r.client)}, t)
}

func b2i(b bool) int {
	if b {
		return 1
	}
	return 0
}

func (r *recStats) HandleRPC(ctx context.Context, s stats.RPCStats) {
	name := strings.TrimPrefix(fmt.Sprintf("%T", s), "*stats.")
	t, ok := ctx.Value(tagKey{r.idx*2 + b2i(r.client)}).(int)
	r.mu.Lock()
	if !ok {
		r.untagged = append(r.untagged, name)
		r.mu.Unlock()
		return
	}
	r.events[t] = append(r.events[t], name)
	if e, ok := s.(*stats.End); ok {
		r.endErr[t] = append(r.endErr[t], e.Error)
	}
	f := r.onEvent
	r.mu.Unlock()
	if f != nil {
		f(name)
	}
}

func (r *recStats) TagConn(ctx context.Context, _ *stats.ConnTagInfo) context.Context { return ctx }
func (r *recStats) HandleConn(_ context.Context, s stats.ConnStats) {
	r.mu.Lock()
	r.conn = append(r.conn, strings.TrimPrefix(fmt.Sprintf("%T", s), "*stats."))
	r.mu.Unlock()
}

type ctxStream struct {
	grpc.ServerStream
	ctx context.Context
}

func (s ctxStream) Context() context.Context { return s.ctx }

type recvTagStream struct {
	grpc.ServerStream
	tag byte
}

func (s recvTagStream) RecvMsg(m any) error {
	if err := s.ServerStream.RecvMsg(m); err != nil {
		return err
	}
	if b, ok := m.(*wrapperspb.BytesValue); ok {
		b.Value = append(b.Value, s.tag)
	}
	return nil
}

type sendTagStream struct {
	grpc.ServerStream
	tag byte
}

func (s sendTagStream) SendMsg(m any) error {
	if b, ok := m.(*wrapperspb.BytesValue); ok {
		m = &wrapperspb.BytesValue{Value: append(append([]byte{}, b.Value...), s.tag)}
	}
	return s.ServerStream.SendMsg(m)
}

// altTag is the suffix of the method RPC n calls.
// c20WithDetail: the status an "err" interceptor returns carries the details of the one it replaces plus one of its own.
func c20WithDetail(n, old *status.Status, i int) error {
	var ds []protoadapt.MessageV1
	for _, d := range old.Details() {
		if m, ok := d.(protoadapt.MessageV1); ok {
			ds = append(ds, m)
		}
	}
	ds = append(ds, protoadapt.MessageV1Of(wrapperspb.String(fmt.Sprintf("detail-of-s%d", i))))
	if w, err := n.WithDetails(ds...); err == nil {
		return w.Err()
	}
	return n.Err()
}

func (c C20Case) altTag(n int) string {
	if n < len(c.Alt) && c.Alt[n] {
		return "2"
	}
	return ""
}

func (c C20Case) handlerErr() error {
	switch c.HErr {
	case "eof":
		return io.EOF
	case "wrapped-eof":
		return fmt.Errorf("reading the backend's answer: %w", io.EOF)
	}
	return status.Error(codes.NotFound, "nf")
}

func execC20(t *testing.T, c C20Case) (v Verdict) {
	defer kit.UseFaultKind(c.ErrKind)()
	var mu sync.Mutex
	var trace []string // enter/exit events of interceptors and handler, per RPC separated by markers
	log := func(s string) {
		mu.Lock()
		trace = append(trace, s)
		mu.Unlock()
	}
	var handlerReqs [][]byte
	var handlerMD []metadata.MD
	type result struct {
		reply []byte
		err   error
		done  bool
	}
	results := make([]result, c.RPCs)
	traces := make([][]string, c.RPCs)
	infoSeen := make([][]string, c.RPCs) // per RPC: the FullMethod each server interceptor was told
	var infoMethods []string
	sst := make([]*recStats, c.SStats)
	cst := make([]*recStats, c.CStats)
	serveReturned := false
	afterDone := false
	var afterErr error
	var release chan struct{}
	res := kit.Bubble(t, func() {
		var sopts []goat.ServerOption
		var dopts []goat.DialOption
		for i := range sst {
			sst[i] = newRecStats(i, false)
			sopts = append(sopts, goat.StatsHandler(sst[i]))
		}
		for i := range cst {
			cst[i] = newRecStats(i, true)
			dopts = append(dopts, goat.WithStatsHandler(cst[i]))
		}
		// ---- server interceptors ----
		noteMethod := func(m string) {
			mu.Lock()
			infoMethods = append(infoMethods, m)
			mu.Unlock()
		}
		var uis []grpc.UnaryServerInterceptor
		var sis []grpc.StreamServerInterceptor
		for i, tr := range c.Server {
			i, tr := i, tr
			uis = append(uis, func(ctx context.Context, req any, info *grpc.UnaryServerInfo, h grpc.UnaryHandler) (any, error) {
				noteMethod(info.FullMethod)
				log(fmt.Sprintf("S%d>", i))
				defer log(fmt.Sprintf("S%d<", i))
				switch tr {
				case "req":
					b := req.(*wrapperspb.BytesValue)
					req = &wrapperspb.BytesValue{Value: append(append([]byte{}, b.Value...), byte('A'+i))}
				case "md":
					md, _ := metadata.FromIncomingContext(ctx)
					md = md.Copy()
					md.Append("via", fmt.Sprintf("s%d", i))
					ctx = metadata.NewIncomingContext(ctx, md)
				}
				resp, err := h(ctx, req)
				if tr == "reply" && err == nil {
					b := resp.(*wrapperspb.BytesValue)
					resp = &wrapperspb.BytesValue{Value: append(append([]byte{}, b.Value...), byte('a'+i))}
				}
				if tr == "err" && err != nil {
					st, _ := status.FromError(err)
					err = c20WithDetail(status.New(st.Code(), st.Message()+fmt.Sprintf("|s%d", i)), st, i)
				}
				return resp, err
			})
			sis = append(sis, func(srv any, ss grpc.ServerStream, info *grpc.StreamServerInfo, h grpc.StreamHandler) error {
				noteMethod(info.FullMethod)
				log(fmt.Sprintf("S%d>", i))
				defer log(fmt.Sprintf("S%d<", i))
				switch tr {
				case "req":
					ss = recvTagStream{ss, byte('A' + i)}
				case "reply":
					ss = sendTagStream{ss, byte('a' + i)}
				case "md":
					md, _ := metadata.FromIncomingContext(ss.Context())
					md = md.Copy()
					md.Append("via", fmt.Sprintf("s%d", i))
					ss = ctxStream{ss, metadata.NewIncomingContext(ss.Context(), md)}
				}
				err := h(srv, ss)
				if tr == "err" && err != nil {
					st, _ := status.FromError(err)
					err = c20WithDetail(status.New(st.Code(), st.Message()+fmt.Sprintf("|s%d", i)), st, i)
				}
				return err
			})
		}
		if c.Single {
			sopts = append(sopts, goat.UnaryInterceptor(uis[0]), goat.StreamInterceptor(sis[0]))
		} else {
			sopts = append(sopts, goat.ChainUnaryInterceptor(uis...), goat.ChainStreamInterceptor(sis...))
		}
		// ---- client chain, composed by the harness into goat's single slot ----
		if len(c.Client) > 0 {
			dopts = append(dopts, goat.WithUnaryInterceptor(func(ctx context.Context, method string, req, reply any, cc *grpc.ClientConn, invoker grpc.UnaryInvoker, opts ...grpc.CallOption) error {
				for i, tr := range c.Client {
					log(fmt.Sprintf("C%d>", i))
					switch tr {
					case "req":
						b := req.(*wrapperspb.BytesValue)
						req = &wrapperspb.BytesValue{Value: append(append([]byte{}, b.Value...), byte('0'+i))}
					case "md":
						ctx = metadata.AppendToOutgoingContext(ctx, "cvia", fmt.Sprintf("c%d", i))
					}
				}
				err := invoker(ctx, method, req, reply, cc, opts...)
				for i := len(c.Client) - 1; i >= 0; i-- {
					log(fmt.Sprintf("C%d<", i))
				}
				return err
			}), goat.WithStreamInterceptor(func(ctx context.Context, desc *grpc.StreamDesc, cc *grpc.ClientConn, method string, streamer grpc.Streamer, opts ...grpc.CallOption) (grpc.ClientStream, error) {
				for i, tr := range c.Client {
					log(fmt.Sprintf("C%d>", i))
					if tr == "md" {
						ctx = metadata.AppendToOutgoingContext(ctx, "cvia", fmt.Sprintf("c%d", i))
					}
				}
				cs, err := streamer(ctx, desc, cc, method, opts...)
				for i := len(c.Client) - 1; i >= 0; i-- {
					log(fmt.Sprintf("C%d<", i))
				}
				return cs, err
			}))
		}
		svc := kit.NewSvc()
		hdone := make(chan struct{}, 16)
		for _, tag := range []string{"", "2"} {
			tag := tag
			svc.Unary("u"+tag, func(ctx context.Context, req []byte) ([]byte, error) {
				log("H>")
				defer log("H<")
				defer func() { hdone <- struct{}{} }()
				md, _ := metadata.FromIncomingContext(ctx)
				mu.Lock()
				handlerReqs = append(handlerReqs, append([]byte{}, req...))
				handlerMD = append(handlerMD, md.Copy())
				mu.Unlock()
				switch c.Outcome {
				case "herr":
					return nil, c.handlerErr()
				case "cancel", "deadline", "transport":
					// a caller's cancellation of a unary call is not conveyed to the server
					// (no reset for unary calls), so the harness releases the handler itself
					mu.Lock()
					rel := release
					mu.Unlock()
					select {
					case <-ctx.Done():
					case <-rel:
					}
					return nil, status.Error(codes.Canceled, "released")
				}
				return append([]byte("R"+tag+":"), req...), nil
			})
			svc.Stream("s"+tag, c.Kind != kit.KindServer, c.Kind != kit.KindClient, func(s grpcServerStream) error {
				log("H>")
				defer log("H<")
				defer func() { hdone <- struct{}{} }()
				md, _ := metadata.FromIncomingContext(s.Context())
				b, err := kit.RecvBytes(s)
				mu.Lock()
				handlerReqs = append(handlerReqs, append([]byte{}, b...))
				handlerMD = append(handlerMD, md.Copy())
				mu.Unlock()
				if err != nil {
					return status.FromContextError(s.Context().Err()).Err()
				}
				switch c.Outcome {
				case "herr":
					return c.handlerErr()
				case "cancel", "deadline", "transport":
					if c.Unread {
						_ = kit.SendBytes(s, []byte("never read"))
					}
					<-s.Context().Done()
					return status.FromContextError(s.Context().Err()).Err()
				}
				if err := kit.SendBytes(s, append([]byte("R"+tag+":"), b...)); err != nil {
					return err
				}
				return nil
			})
		}
		w := kit.NewWorld(kit.Topo{Kind: "direct", Serialize: c.Ser, Clients: 1}, svc, sopts, dopts)
		l := w.Links[0]
		l.A.FailWriteIf(func(r *kit.Rpc) bool {
			if r.GetBody() != nil || r.GetTrailer() != nil || r.GetReset_() != nil {
				return false
			}
			for _, kv := range r.GetHeader().GetHeaders() {
				if kv.GetKey() == "failopen" {
					return true
				}
			}
			return false
		})
		cc := w.CC[0]
		if c.ServeCtxEnded {
			kit.Settle()
			w.CancelServeCtx()
			kit.Settle()
		}
		for n := 0; n < c.RPCs; n++ {
			rel := make(chan struct{})
			mu.Lock()
			trace = nil
			infoMethods = nil
			release = rel
			mu.Unlock()
			ctx, cancel := context.WithCancel(context.Background())
			if c.Outcome == "deadline" {
				ctx, cancel = context.WithTimeout(context.Background(), 40*time.Millisecond)
			}
			if c.LateCancel && len(cst) > 0 {
				cst[0].mu.Lock()
				cst[0].onEvent = func(name string) {
					if name == "InPayload" {
						cancel()
					}
				}
				cst[0].mu.Unlock()
			}
			if c.Outcome == "openfail" {
				ctx = metadata.AppendToOutgoingContext(ctx, "failopen", "1")
			}
			last := n == c.RPCs-1
			done := make(chan struct{})
			go func() {
				defer close(done)
				req := []byte{'q', byte('0' + n)}
				if c.Kind == kit.KindUnary {
					rep, err := kit.Invoke(ctx, cc, "u"+c.altTag(n), req)
					results[n] = result{rep, err, true}
					return
				}
				cs, err := cc.NewStream(ctx, kit.StreamDescFor(c.Kind), kit.FullMethod("s"+c.altTag(n)))
				if err != nil {
					results[n] = result{nil, err, true}
					return
				}
				_ = kit.SendBytes(cs, req)
				if c.Outcome == "ok" || c.Outcome == "herr" {
					_ = cs.CloseSend()
				}
				var rep []byte
				if c.Unread {
					<-ctx.Done() // leave the handler's message unread until the context has ended
				}
				for {
					b, err := kit.RecvBytes(cs)
					if err != nil {
						if err.Error() == "EOF" {
							err = nil
						}
						results[n] = result{rep, err, true}
						return
					}
					rep = b
				}
			}()
			kit.Settle()
			switch c.Outcome {
			case "cancel":
				cancel()
			case "deadline":
				time.Sleep(50 * time.Millisecond)
			case "transport":
				if last {
					l.Close()
				} else {
					cancel() // only the last RPC can take the connection down
				}
			}
			kit.Settle()
			<-done
			cancel()
			close(rel)
			kit.Settle()
			mu.Lock()
			traces[n] = append([]string{}, trace...)
			infoSeen[n] = append([]string{}, infoMethods...)
			mu.Unlock()
		}
		if c.Outcome == "transport" {
			// an RPC started on the connection after it has failed: must be refused, with no half-open stats
			actx, acancel := context.WithTimeout(context.Background(), time.Hour)
			adone := make(chan struct{})
			go func() {
				defer close(adone)
				if c.Kind == kit.KindUnary {
					_, afterErr = kit.Invoke(actx, cc, "u"+c.altTag(c.RPCs), []byte("after"))
				} else {
					var cs grpc.ClientStream
					cs, afterErr = cc.NewStream(actx, kit.StreamDescFor(c.Kind), kit.FullMethod("s"+c.altTag(c.RPCs)))
					if afterErr == nil {
						_, afterErr = kit.RecvBytes(cs)
					}
				}
				afterDone = true
			}()
			kit.Settle()
			acancel()
			kit.Settle()
			<-adone
		}
		w.Shutdown()
		cc.Close()
		kit.Settle()
		serveReturned, _ = w.ServeResult("c0")
	})
	if res.Panic != nil {
		v.failf("panic: %v\n%s", res.Panic, res.Stack)
	}
	// ---- interceptor chain oracle ----
	wantEnter := []string{}
	for i := range c.Client {
		wantEnter = append(wantEnter, fmt.Sprintf("C%d>", i))
	}
	clientExit := []string{}
	for i := len(c.Client) - 1; i >= 0; i-- {
		clientExit = append(clientExit, fmt.Sprintf("C%d<", i))
	}
	serverSeq := []string{}
	for i := range c.Server {
		serverSeq = append(serverSeq, fmt.Sprintf("S%d>", i))
	}
	serverSeq = append(serverSeq, "H>", "H<")
	for i := len(c.Server) - 1; i >= 0; i-- {
		serverSeq = append(serverSeq, fmt.Sprintf("S%d<", i))
	}
	handlerRan := 0
	for n := 0; n < c.RPCs; n++ {
		if !results[n].done {
			v.failf("rpc %d never returned", n)
			continue
		}
		tr := traces[n]
		// projection on the server events must be exactly the nested sequence (or empty if the request never reached the server)
		var sv, cl []string
		for _, e := range tr {
			if e[0] == 'C' {
				cl = append(cl, e)
			} else {
				sv = append(sv, e)
			}
		}
		reached := len(sv) > 0
		if reached {
			handlerRan++
			if strings.Join(sv, " ") != strings.Join(serverSeq, " ") {
				v.failf("rpc %d: server interceptors/handler ran as [%s], want each exactly once nested in registration order [%s]", n, strings.Join(sv, " "), strings.Join(serverSeq, " "))
			}
		} else if c.Outcome == "ok" || c.Outcome == "herr" {
			v.failf("rpc %d: handler chain never ran", n)
		}
		wantCl := append(append([]string{}, wantEnter...), clientExit...)
		if strings.Join(cl, " ") != strings.Join(wantCl, " ") {
			v.failf("rpc %d: client interceptor slot ran as [%s], want [%s]", n, strings.Join(cl, " "), strings.Join(wantCl, " "))
		}
	}
	// what the handler saw / what the caller got
	if len(handlerReqs) != handlerRan {
		v.failf("handler ran %d times, chain traces say %d", len(handlerReqs), handlerRan)
	}
	for n := 0; n < c.RPCs && n < len(handlerReqs); n++ {
		want := []byte{'q', byte('0' + n)}
		if c.Kind == kit.KindUnary {
			for i, tr := range c.Client {
				if tr == "req" {
					want = append(want, byte('0'+i))
				}
			}
		}
		for i, tr := range c.Server {
			if tr == "req" {
				want = append(want, byte('A'+i))
			}
		}
		if c.Outcome == "openfail" {
			continue
		}
		if !bytes.Equal(handlerReqs[n], want) && (c.Outcome == "ok" || c.Outcome == "herr") {
			v.failf("rpc %d: handler saw request %q, the composed chain produces %q", n, handlerReqs[n], want)
		}
		var wantVia, wantCvia []string
		for i, tr := range c.Server {
			if tr == "md" {
				wantVia = append(wantVia, fmt.Sprintf("s%d", i))
			}
		}
		for i, tr := range c.Client {
			if tr == "md" {
				wantCvia = append(wantCvia, fmt.Sprintf("c%d", i))
			}
		}
		if strings.Join(handlerMD[n]["via"], ",") != strings.Join(wantVia, ",") || strings.Join(handlerMD[n]["cvia"], ",") != strings.Join(wantCvia, ",") {
			v.failf("rpc %d: handler saw metadata via=%v cvia=%v, chain adds via=%v cvia=%v", n, handlerMD[n]["via"], handlerMD[n]["cvia"], wantVia, wantCvia)
		}
		wantMethod := kit.FullMethod("s" + c.altTag(n))
		if c.Kind == kit.KindUnary {
			wantMethod = kit.FullMethod("u" + c.altTag(n))
		}
		for _, m := range infoSeen[n] {
			if m != wantMethod {
				v.failf("rpc %d called %s, a server interceptor was told it is %s", n, wantMethod, m)
			}
		}
		if c.Outcome == "ok" {
			wantReply := append([]byte("R"+c.altTag(n)+":"), want...)
			for i := len(c.Server) - 1; i >= 0; i-- {
				if c.Server[i] == "reply" {
					wantReply = append(wantReply, byte('a'+i))
				}
			}
			if results[n].err != nil || !bytes.Equal(results[n].reply, wantReply) {
				v.failf("rpc %d: caller got (%q, %v), the reverse-composed reply is %q", n, results[n].reply, results[n].err, wantReply)
			}
		}
		if c.Outcome == "herr" && c.HErr != "" {
			// an error that is or wraps io.EOF is still a failure of the handler: the caller must not see success
			if results[n].err == nil {
				v.failf("rpc %d: the handler failed with %v, the caller got success", n, c.handlerErr())
			}
		}
		if c.Outcome == "herr" && c.HErr == "" {
			wantMsg := "nf"
			for i := len(c.Server) - 1; i >= 0; i-- {
				if c.Server[i] == "err" {
					wantMsg += fmt.Sprintf("|s%d", i)
				}
			}
			st, _ := status.FromError(results[n].err)
			if results[n].err == nil || st.Code() != codes.NotFound || st.Message() != wantMsg {
				v.failf("rpc %d: caller got error %v, the chain maps the handler's error to NotFound %q", n, results[n].err, wantMsg)
			} else {
				// every "err" interceptor added one detail, innermost first
				var wantD, gotD []string
				for i := len(c.Server) - 1; i >= 0; i-- {
					if c.Server[i] == "err" {
						wantD = append(wantD, fmt.Sprintf("detail-of-s%d", i))
					}
				}
				for _, d := range st.Details() {
					if sv, ok := d.(*wrapperspb.StringValue); ok {
						gotD = append(gotD, sv.GetValue())
					} else {
						gotD = append(gotD, fmt.Sprintf("%T", d))
					}
				}
				if strings.Join(gotD, ",") != strings.Join(wantD, ",") {
					v.failf("rpc %d: the status the caller got carries details %v, the interceptor chain produced %v", n, gotD, wantD)
				}
			}
		}
	}
	// ---- stats oracle ----
	checkStats := func(side string, hs []*recStats, expectRPCs int, succeeded func(i int) bool, allowMissing bool) {
		for _, h := range hs {
			h.mu.Lock()
			if len(h.untagged) > 0 {
				v.failf("%s stats handler %d: events %v arrived with a context that TagRPC did not return", side, h.idx, h.untagged)
			}
			tags := len(h.events)
			if tags != expectRPCs && !(allowMissing && tags <= expectRPCs) {
				v.failf("%s stats handler %d: TagRPC called %d times for %d RPCs", side, h.idx, tags, expectRPCs)
			}
			for tag := 1; tag <= tags; tag++ {
				ev := h.events[tag]
				if len(ev) == 0 {
					if !allowMissing {
						v.failf("%s stats handler %d: rpc tag %d: no events at all", side, h.idx, tag)
					}
					continue
				}
				if ev[0] != "Begin" {
					v.failf("%s stats handler %d: rpc tag %d: first event is %s, want Begin (%v)", side, h.idx, tag, ev[0], ev)
				}
				nb, ne := 0, 0
				for _, e := range ev {
					if e == "Begin" {
						nb++
					}
					if e == "End" {
						ne++
					}
				}
				if nb != 1 || ne != 1 {
					v.failf("%s stats handler %d: rpc tag %d: %d Begin and %d End events (%v)", side, h.idx, tag, nb, ne, ev)
				}
				if ne == 1 && tag-1 < c.RPCs {
					ok := succeeded(tag - 1)
					if (h.endErr[tag][0] == nil) != ok {
						v.failf("%s stats handler %d: rpc tag %d: End.Error=%v but the RPC %s", side, h.idx, tag, h.endErr[tag][0], map[bool]string{true: "succeeded", false: "failed"}[ok])
					}
				}
			}
			h.mu.Unlock()
		}
	}
	if c.Outcome == "transport" && c.RPCs >= 1 && results[c.RPCs-1].done && results[c.RPCs-1].err == nil {
		// the connection was taken down while this RPC's handler was still waiting: whatever error value the transport
		// failed with, the RPC did not complete
		v.failf("rpc %d was cut off by a transport failure (%s) while its handler was still running, the caller saw success", c.RPCs-1, c.ErrKind)
	}
	if c.Outcome == "transport" {
		if !afterDone {
			v.failf("an RPC started after the connection had failed never returned")
		} else if afterErr == nil {
			v.failf("an RPC started after the connection had failed succeeded")
		}
		// its stats: nothing at all, or a complete Begin..End pair with an error - never half
		for _, h := range cst {
			h.mu.Lock()
			if ev, ok := h.events[c.RPCs+1]; ok && len(ev) > 0 {
				nb, ne := 0, 0
				for _, e := range ev {
					if e == "Begin" {
						nb++
					}
					if e == "End" {
						ne++
					}
				}
				if nb != 1 || ne != 1 || ev[0] != "Begin" {
					v.failf("client stats handler %d: the RPC refused on the failed connection produced events %v: neither none nor one Begin..End pair", h.idx, ev)
				} else if h.endErr[c.RPCs+1][0] == nil {
					v.failf("client stats handler %d: the refused RPC ended with a nil error", h.idx)
				}
			}
			delete(h.events, c.RPCs+1)
			h.mu.Unlock()
		}
	}
	checkStats("client", cst, c.RPCs, func(i int) bool { return results[i].err == nil }, false)
	checkStats("server", sst, handlerRan, func(i int) bool { return c.Outcome == "ok" }, c.Outcome == "openfail" || c.Outcome == "transport")
	for _, h := range sst {
		if serveReturned && strings.Join(h.conn, ",") != "ConnBegin,ConnEnd" {
			v.failf("server stats handler %d: connection events %v, want exactly one ConnBegin and one ConnEnd", h.idx, h.conn)
		}
	}
	for _, h := range cst {
		if strings.Join(h.conn, ",") != "ConnBegin,ConnEnd" {
			v.failf("client stats handler %d: connection events %v, want exactly one ConnBegin and one ConnEnd", h.idx, h.conn)
		}
	}
	if !serveReturned {
		v.failf("Serve did not return at shutdown")
	}
	labels := []string{"kind=" + kit.KindNames[c.Kind], "outcome=" + c.Outcome, fmt.Sprintf("unread=%v", c.Unread), fmt.Sprintf("chain=%d", len(c.Server)), fmt.Sprintf("cchain=%d", len(c.Client)), fmt.Sprintf("single=%v", c.Single)}
	if c.LateCancel {
		labels = append(labels, "late_cancel=true")
	}
	if c.ServeCtxEnded {
		labels = append(labels, "serve_ctx_ended=true")
	}
	if c.Outcome == "herr" {
		labels = append(labels, "handler_error="+map[string]string{"": "status", "eof": "eof", "wrapped-eof": "eof"}[c.HErr])
	}
	if c.Outcome == "transport" {
		labels = append(labels, "transport_error="+c.ErrKind)
	}
	v.Info = kit.CaseInfo{Labels: labels, NonTrivial: len(c.Server) >= 3 || c.Outcome != "ok" || c.SStats >= 2 || c.CStats >= 2, Key: fmt.Sprintf("%+v", c), Sample: c}
	if v.Fail != "" {
		d := map[string]any{"traces": traces}
		for _, h := range append(append([]*recStats{}, cst...), sst...) {
			d[fmt.Sprintf("stats.client=%v.%d", h.client, h.idx)] = h.events
		}
		v.Detail = d
	}
	return
}

func TestC20(t *testing.T) { checkProp(t, "C20", "main", genC20, execC20) }

// ---- C20 overlap: two RPCs inside the server chain at the same time -------------------------

type C20Overlap struct {
	Kind   int    `json:"kind"`
	Chain  int    `json:"chain"`   // server chain length 2..6
	ParkAt int    `json:"park_at"` // the first RPC parks inside this interceptor (before calling the next stage)
	Ser    bool   `json:"ser"`
	Topo   string `json:"topo"` // direct | proxy | demux: what the server's chain sees must not depend on the path the call took
}

func genC20Overlap(t *rapid.T) C20Overlap {
	c := C20Overlap{Kind: rapid.SampledFrom([]int{kit.KindUnary, kit.KindBidi}).Draw(t, "kind"), Chain: rapid.IntRange(2, 6).Draw(t, "chain"), Ser: rapid.Bool().Draw(t, "ser")}
	c.ParkAt = rapid.IntRange(0, c.Chain-1).Draw(t, "park_at")
	c.Topo = rapid.SampledFrom([]string{"direct", "direct", "proxy", "demux"}).Draw(t, "topo")
	return c
}

func execC20Overlap(t *testing.T, c C20Overlap) (v Verdict) {
	var mu sync.Mutex
	traces := map[string][]string{}
	log := func(rpc, s string) {
		mu.Lock()
		traces[rpc] = append(traces[rpc], s)
		mu.Unlock()
	}
	rpcOf := func(ctx context.Context) string {
		md, _ := metadata.FromIncomingContext(ctx)
		if v := md["rpc"]; len(v) > 0 {
			return v[0]
		}
		return "?"
	}
	okCalls := 0
	res := kit.Bubble(t, func() {
		sched := kit.NewSched()
		var uis []grpc.UnaryServerInterceptor
		var sis []grpc.StreamServerInterceptor
		for i := 0; i < c.Chain; i++ {
			i := i
			uis = append(uis, func(ctx context.Context, req any, info *grpc.UnaryServerInfo, h grpc.UnaryHandler) (any, error) {
				r := rpcOf(ctx)
				log(r, fmt.Sprintf("S%d>", i))
				defer log(r, fmt.Sprintf("S%d<", i))
				if r == "first" && i == c.ParkAt {
					sched.Park(nil, "first")
				}
				return h(ctx, req)
			})
			sis = append(sis, func(srv any, ss grpc.ServerStream, info *grpc.StreamServerInfo, h grpc.StreamHandler) error {
				r := rpcOf(ss.Context())
				log(r, fmt.Sprintf("S%d>", i))
				defer log(r, fmt.Sprintf("S%d<", i))
				if r == "first" && i == c.ParkAt {
					sched.Park(nil, "first")
				}
				return h(srv, ss)
			})
		}
		svc := kit.NewSvc()
		svc.Unary("u", func(ctx context.Context, req []byte) ([]byte, error) {
			r := rpcOf(ctx)
			log(r, "H>")
			defer log(r, "H<")
			return req, nil
		})
		svc.Stream("s", true, true, func(s grpcServerStream) error {
			r := rpcOf(s.Context())
			log(r, "H>")
			defer log(r, "H<")
			b, err := kit.RecvBytes(s)
			if err != nil {
				return err
			}
			return kit.SendBytes(s, b)
		})
		topo := c.Topo
		if topo == "" {
			topo = "direct"
		}
		w := kit.NewWorld(kit.Topo{Kind: topo, Serialize: c.Ser, Clients: 1}, svc, []goat.ServerOption{goat.ChainUnaryInterceptor(uis...), goat.ChainStreamInterceptor(sis...)}, nil)
		firstMaySend := make(chan struct{})
		call := func(name string) {
			ctx := metadata.AppendToOutgoingContext(context.Background(), "rpc", name)
			if c.Kind == kit.KindUnary {
				if out, err := kit.Invoke(ctx, w.Conn(0), "u", []byte(name)); err == nil && string(out) == name {
					mu.Lock()
					okCalls++
					mu.Unlock()
				}
				return
			}
			cs, err := w.Conn(0).NewStream(ctx, kit.StreamDescFor(kit.KindBidi), kit.FullMethod("s"))
			if err != nil {
				return
			}
			if name == "first" {
				// its handler chain is parked and not reading yet: sending now would only park the connection's
				// read loop behind it (head-of-line blocking by design) and keep the second RPC out
				<-firstMaySend
			}
			_ = kit.SendBytes(cs, []byte(name))
			_ = cs.CloseSend()
			if out, err := kit.RecvBytes(cs); err == nil && string(out) == name {
				mu.Lock()
				okCalls++
				mu.Unlock()
			}
			_, _ = kit.RecvBytes(cs)
		}
		d1 := make(chan struct{})
		go func() { defer close(d1); call("first") }()
		kit.Settle() // the first RPC is parked inside interceptor ParkAt
		call("second")
		kit.Settle()
		close(firstMaySend)
		sched.ReleaseGate("first")
		<-d1
		kit.Settle()
		w.Shutdown()
		kit.Settle()
	})
	if res.Panic != nil {
		v.failf("panic: %v\n%s", res.Panic, res.Stack)
	}
	var want []string
	for i := 0; i < c.Chain; i++ {
		want = append(want, fmt.Sprintf("S%d>", i))
	}
	want = append(want, "H>", "H<")
	for i := c.Chain - 1; i >= 0; i-- {
		want = append(want, fmt.Sprintf("S%d<", i))
	}
	for _, r := range []string{"first", "second"} {
		if strings.Join(traces[r], " ") != strings.Join(want, " ") {
			v.failf("rpc %q (overlapping with another RPC inside the chain) ran [%s], want every interceptor exactly once in registration order [%s]", r, strings.Join(traces[r], " "), strings.Join(want, " "))
		}
	}
	if okCalls != 2 {
		v.failf("%d of 2 overlapping RPCs returned their own reply", okCalls)
	}
	v.Info = kit.CaseInfo{Labels: []string{"overlap", fmt.Sprintf("chain=%d", c.Chain)}, NonTrivial: true, Key: fmt.Sprintf("%+v", c), Sample: c}
	return
}

func TestC20Overlap(t *testing.T) { checkProp(t, "C20", "overlap", genC20Overlap, execC20Overlap) }

// ---- C20 send fault: the stats events of a stream whose caller's SendMsg fails in the transport --------------

// C20SendFault: a client-streaming or bidirectional call opens normally; its caller's J-th message is refused by the
// transport (an error of a drawn kind, the connection otherwise healthy); the caller then receives until the stream
// reports its end. "Each installed stats handler sees, for every RPC whatever its outcome, exactly one Begin before any
// other event of that RPC and exactly one End whose error is nil exactly when the RPC succeeded."
type C20SendFault struct {
	Kind    int    `json:"kind"`
	FailJ   int    `json:"fail_j"` // 0 = the first message after the open
	CStats  int    `json:"cstats"`
	SStats  int    `json:"sstats"`
	ErrKind string `json:"err_kind"`
	Ser     bool   `json:"ser"`
	Before  int    `json:"before"` // successful RPCs on the connection before this one
}

func genC20SendFault(t *rapid.T) C20SendFault {
	return C20SendFault{Kind: rapid.SampledFrom([]int{kit.KindClient, kit.KindBidi}).Draw(t, "kind"), FailJ: rapid.IntRange(0, 3).Draw(t, "fail_j"), CStats: rapid.IntRange(1, 3).Draw(t, "cstats"), SStats: rapid.IntRange(0, 2).Draw(t, "sstats"),
		ErrKind: rapid.SampledFrom(kit.FaultErrKinds).Draw(t, "err_kind"), Ser: rapid.Bool().Draw(t, "ser"), Before: rapid.IntRange(0, 2).Draw(t, "before")}
}

func execC20SendFault(t *testing.T, c C20SendFault) (v Verdict) {
	defer kit.UseFaultKind(c.ErrKind)()
	var cst, sst []*recStats
	var sendErr error
	var end *kit.ErrObs
	res := kit.Bubble(t, func() {
		svc := kit.NewSvc()
		svc.Unary("u", func(ctx context.Context, req []byte) ([]byte, error) { return req, nil })
		svc.Stream("f", true, c.Kind == kit.KindBidi, func(s grpcServerStream) error {
			for {
				if _, err := kit.RecvBytes(s); err != nil {
					if err == io.EOF {
						return nil
					}
					return err
				}
			}
		})
		var sopts []goat.ServerOption
		var dopts []goat.DialOption
		for i := 0; i < c.SStats; i++ {
			h := newRecStats(i, false)
			sst = append(sst, h)
			sopts = append(sopts, goat.StatsHandler(h))
		}
		for i := 0; i < c.CStats; i++ {
			h := newRecStats(i, true)
			cst = append(cst, h)
			dopts = append(dopts, goat.WithStatsHandler(h))
		}
		w := kit.NewWorld(kit.Topo{Kind: "direct", Serialize: c.Ser, Clients: 1}, svc, sopts, dopts)
		l := w.Links[0]
		marker := []byte{0xFA, 0x17, byte(c.FailJ)}
		l.A.FailWriteIf(func(r *kit.Rpc) bool { return bytes.Equal(unwrapBytes(r.GetBody().GetData()), marker) })
		cc := w.CC[0]
		for i := 0; i < c.Before; i++ {
			_, _ = kit.Invoke(context.Background(), cc, "u", []byte{byte(i)})
		}
		ctx, cancel := context.WithTimeout(context.Background(), time.Hour)
		defer cancel()
		cs, err := cc.NewStream(ctx, kit.StreamDescFor(c.Kind), kit.FullMethod("f"))
		if err != nil {
			v.failf("open: %v", err)
			return
		}
		for j := 0; j <= c.FailJ; j++ {
			sendErr = kit.SendBytes(cs, []byte{0xFA, 0x17, byte(j)})
		}
		kit.Settle()
		for k := 0; k < 4; k++ {
			if _, err := kit.RecvBytes(cs); err != nil {
				e := kit.Observe(err)
				end = &e
				break
			}
		}
		cancel()
		kit.Settle()
		w.Shutdown()
		cc.Close()
		kit.Settle()
	})
	if res.Panic != nil {
		v.failf("panic: %v\n%s", res.Panic, res.Stack)
	}
	if sendErr == nil {
		v.failf("harness: the send whose transport write was refused reported success")
	}
	if end == nil {
		v.failf("the caller's receives never reported the end of the stream")
	} else if end.EOF {
		v.failf("the stream whose caller's message was refused by the transport ended in io.EOF")
	}
	for _, h := range cst {
		h.mu.Lock()
		ev := h.events[c.Before+1]
		nb, ne := 0, 0
		for _, e := range ev {
			if e == "Begin" {
				nb++
			}
			if e == "End" {
				ne++
			}
		}
		if nb != 1 || ne != 1 || len(ev) == 0 || ev[0] != "Begin" {
			v.failf("client stats handler %d: the RPC whose message #%d was refused by the transport (%s) produced events %v, want exactly one Begin, first, and exactly one End", h.idx, c.FailJ, c.ErrKind, ev)
		} else if h.endErr[c.Before+1][0] == nil {
			v.failf("client stats handler %d: the RPC did not succeed but End carries a nil error", h.idx)
		}
		if len(h.untagged) > 0 {
			v.failf("client stats handler %d: events without the tag of TagRPC: %v", h.idx, h.untagged)
		}
		h.mu.Unlock()
	}
	for _, h := range sst {
		h.mu.Lock()
		for tag, ev := range h.events {
			nb, ne := 0, 0
			for _, e := range ev {
				if e == "Begin" {
					nb++
				}
				if e == "End" {
					ne++
				}
			}
			if len(ev) > 0 && (nb != 1 || ne != 1 || ev[0] != "Begin") {
				v.failf("server stats handler %d: RPC #%d produced events %v, want exactly one Begin, first, and exactly one End", h.idx, tag, ev)
			}
		}
		h.mu.Unlock()
	}
	v.Info = kit.CaseInfo{Labels: []string{"send-fault", "sendfault.err=" + c.ErrKind, "sendfault.kind=" + kit.KindNames[c.Kind]}, NonTrivial: true, Key: fmt.Sprintf("%+v", c), Sample: c}
	return
}

func TestC20SendFault(t *testing.T) {
	checkProp(t, "C20", "send-fault", genC20SendFault, execC20SendFault)
}
