package props

import (
	"bytes"
	"context"
	"fmt"
	"sort"
	"strings"
	"sync"
	"testing"
	"time"

	goat "github.com/avos-io/goat"
	"google.golang.org/grpc/codes"
	"google.golang.org/grpc/status"
	"pgregory.net/rapid"
	"verifharness/kit"
)

// ---- C14: bounded state -------------------------------------------------------

type C14RPC struct {
	Kind    int    `json:"kind"`
	Outcome string `json:"outcome"` // ok | herr | cancel | deadline | reset | openfail
	Msgs    int    `json:"msgs"`
}

type C14Case struct {
	// Stats: do-nothing stats handlers on server and client (kit.Topo.Stats)
	Stats bool `json:"stats,omitempty"`
	// ErrKind: the error value the failing transport returns (kit.FaultErrKinds)
	ErrKind string     `json:"err_kind,omitempty"`
	Rounds  [][]C14RPC `json:"rounds"` // each round: RPCs in flight together, then quiesce
	Ser     bool       `json:"ser"`
	// Via: how the client connection reaches the server: "" = directly, "proxy" = through a goat.Proxy (and the Demux
	// behind it), "demux" = as one logical connection of a goat.Demux keyed by the envelopes' source
	Via string `json:"via,omitempty"`
}

var c14Outcomes = []string{"ok", "ok", "herr", "cancel", "cancel-unread", "cancel-send", "deadline", "reset", "openfail", "pre-cancelled", "pre-expired", "nearly-expired"}

// c14ParkMarker is the payload of the message whose transport write is parked when the "cancel-send" outcome cancels
var c14ParkMarker = []byte{0xEE, 0x14, 0xEE}

func genC14(t *rapid.T) C14Case {
	c := C14Case{Ser: rapid.Bool().Draw(t, "ser"), Stats: rapid.IntRange(0, 3).Draw(t, "stats") == 0}
	c.ErrKind = rapid.SampledFrom(kit.FaultErrKinds).Draw(t, "err_kind")
	c.Via = rapid.SampledFrom([]string{"", "", "proxy", "demux"}).Draw(t, "via")
	nr := rapid.IntRange(1, 6).Draw(t, "rounds")
	for r := 0; r < nr; r++ {
		n := rapid.SampledFrom([]int{1, 4, 8, 16, 32}).Draw(t, "batchclass")
		n = rapid.IntRange(1, n).Draw(t, "batch")
		if c.Via == "proxy" && n > 2 {
			// the proxy drops envelopes once more than 16 are queued for one destination (known finding, C16): through it
			// at most two RPCs (<= 10 envelopes each way) are in flight together
			n = 2
		}
		var round []C14RPC
		for i := 0; i < n; i++ {
			x := C14RPC{Kind: rapid.SampledFrom(allKinds).Draw(t, "kind"), Outcome: rapid.SampledFrom(c14Outcomes).Draw(t, "outcome"), Msgs: rapid.IntRange(0, 3).Draw(t, "msgs")}
			if x.Kind == kit.KindUnary && x.Outcome == "reset" {
				x.Outcome = "herr"
			}
			if x.Kind == kit.KindUnary && x.Outcome == "nearly-expired" {
				x.Outcome = "deadline" // (a unary handler whose caller has gone is released by the harness' virtual clock)
			}
			if x.Outcome == "cancel-unread" && x.Kind != kit.KindServer && x.Kind != kit.KindBidi {
				x.Outcome = "cancel"
			}
			if x.Outcome == "cancel-send" && x.Kind != kit.KindClient && x.Kind != kit.KindBidi {
				x.Outcome = "cancel"
			}
			round = append(round, x)
		}
		c.Rounds = append(c.Rounds, round)
	}
	return c
}

func creationSites(stacks []string) []string {
	var out []string
	for _, s := range stacks {
		lines := strings.Split(strings.TrimSpace(s), "\n")
		site := "?"
		for i := len(lines) - 1; i >= 0; i-- {
			if strings.HasPrefix(lines[i], "created by ") {
				site = strings.Fields(lines[i])[2]
				break
			}
		}
		out = append(out, site)
	}
	sort.Strings(out)
	return out
}

func execC14(t *testing.T, c C14Case) (v Verdict) {
	defer kit.UseFaultKind(c.ErrKind)()
	total := 0
	outcomes := map[string]bool{}
	bigRound := false
	var failDetail any
	var liveMu sync.Mutex
	live := map[string]int{}
	res := kit.Bubble(t, func() {
		goat.VerifResetHandlers()
		svc := kit.NewSvc()
		svc.Unary("u-ok", func(ctx context.Context, req []byte) ([]byte, error) { return req, nil })
		svc.Unary("u-herr", func(ctx context.Context, req []byte) ([]byte, error) { return nil, status.Error(codes.Aborted, "no") })
		svc.Unary("u-wait", func(ctx context.Context, req []byte) ([]byte, error) {
			// A long-running handler that honours its context. goat does not convey a caller's
			// cancellation of a *unary* call to the server (the protocol has no reset for unary
			// calls), so a handler whose only exit is its context would occupy one of the eight
			// unary workers for the rest of the connection; eight of them stop the read loop.
			// That is an application-level hazard the property does not speak about, so the
			// handler also finishes by itself after 50 virtual milliseconds, and every quiescent
			// point first lets that time pass (otherwise requests queued behind eight such handlers,
			// e.g. a cancelled stream's reset, would still be waiting for a worker).
			select {
			case <-ctx.Done():
				return nil, status.FromContextError(ctx.Err()).Err()
			case <-time.After(50 * time.Millisecond):
				return req, nil
			}
		})
		streamH := func(mode string) kit.StreamFn {
			return func(s grpcServerStream) error {
				switch mode {
				case "ok":
					for {
						b, err := kit.RecvBytes(s)
						if err != nil {
							return nil
						}
						if kit.SendBytes(s, b) != nil {
							return nil
						}
					}
				case "herr":
					_, _ = kit.RecvBytes(s)
					return status.Error(codes.Aborted, "no")
				case "early": // returns at once; the caller's later bodies are answered by resets
					return status.Error(codes.Unavailable, "early")
				case "sendwait": // one response the caller will not read, then wait like "wait"
					_ = kit.SendBytes(s, []byte("unread"))
					fallthrough
				default: // wait: consume whatever arrives until the context ends
					// (a handler that ignores queued requests while it waits is the documented
					// head-of-line blocking, and would also stop the bubble's virtual clock:
					// goroutines queueing for the registry mutex are never durably blocked)
					for {
						if _, err := kit.RecvBytes(s); err != nil {
							break
						}
					}
					<-s.Context().Done()
					return status.FromContextError(s.Context().Err()).Err()
				}
			}
		}
		for _, m := range []string{"ok", "herr", "early", "wait", "sendwait"} {
			m := m
			inner := streamH(m)
			svc.Stream("s-"+m, true, true, func(s grpcServerStream) error {
				liveMu.Lock()
				live["s-"+m]++
				liveMu.Unlock()
				defer func() {
					liveMu.Lock()
					live["s-"+m]--
					liveMu.Unlock()
				}()
				return inner(s)
			})
		}
		topo := "direct"
		if c.Via != "" {
			topo = c.Via
		}
		w := kit.NewWorld(kit.Topo{Kind: topo, Serialize: c.Ser, Clients: 1, Stats: c.Stats}, svc, nil, nil)
		w.Links[0].Tap = nil
		l := w.Links[0]
		cc := w.CC[0]
		// "openfail": the transport write of an open envelope carrying the marker metadata fails
		l.A.FailWriteIf(func(r *kit.Rpc) bool {
			if r.GetTrailer() != nil || r.GetReset_() != nil {
				return false
			}
			for _, kv := range r.GetHeader().GetHeaders() { // stream opens and unary requests carry the caller's metadata
				if kv.GetKey() == "failopen" {
					return true
				}
			}
			return false
		})
		// "cancel-send": a message with the marker payload parks inside the transport write until its context ends
		l.A.Hold(func(r *kit.Rpc) bool { return bytes.Equal(unwrapBytes(r.GetBody().GetData()), c14ParkMarker) })
		kit.Settle()
		// warm-up: one successful RPC of each kind, so that anything the connection starts lazily
		// and keeps for its lifetime belongs to the idle level it must return to
		for kind := 0; kind < 4; kind++ {
			if kind == kit.KindUnary {
				_, _ = kit.Invoke(context.Background(), cc, "u-ok", []byte("w"))
				continue
			}
			if cs, err := cc.NewStream(context.Background(), kit.StreamDescFor(kind), kit.FullMethod("s-ok")); err == nil {
				_ = kit.SendBytes(cs, []byte("w"))
				_ = cs.CloseSend()
				for {
					if _, err := kit.RecvBytes(cs); err != nil {
						break
					}
				}
			}
		}
		kit.Settle()
		if n := goat.VerifClientCalls(cc) + goat.VerifServerStreams(); n != 0 {
			v.failf("warm-up: %d registrations left after four successful RPCs", n)
		}
		idle := creationSites(kit.LiveInBubble())
		for ri, round := range c.Rounds {
			var wg sync.WaitGroup
			for _, x := range round {
				x := x
				total++
				outcomes[x.Outcome] = true
				wg.Add(1)
				go func() {
					defer wg.Done()
					ctx, cancel := context.WithCancel(context.Background())
					defer cancel()
					if x.Outcome == "deadline" {
						ctx, cancel = context.WithTimeout(context.Background(), 25*time.Millisecond)
						defer cancel()
					}
					// calls started on a context that has already ended, or is about to
					switch x.Outcome {
					case "pre-cancelled":
						cancel()
					case "pre-expired":
						ctx, cancel = context.WithDeadline(context.Background(), time.Now().Add(-time.Second))
						defer cancel()
					case "nearly-expired":
						ctx, cancel = context.WithTimeout(context.Background(), 300*time.Microsecond)
						defer cancel()
					}
					if x.Kind == kit.KindUnary {
						name := map[string]string{"ok": "u-ok", "herr": "u-herr", "cancel": "u-wait", "deadline": "u-wait", "openfail": "u-ok", "pre-cancelled": "u-ok", "pre-expired": "u-ok", "nearly-expired": "u-wait"}[x.Outcome]
						if x.Outcome == "openfail" {
							ctx = metadataOutgoing(ctx, "failopen", "1") // the transport write of this request fails
						}
						if x.Outcome == "cancel" {
							go func() { time.Sleep(time.Millisecond); cancel() }()
						}
						_, _ = kit.Invoke(ctx, cc, name, []byte("x"))
						return
					}
					name := map[string]string{"ok": "s-ok", "herr": "s-herr", "cancel": "s-wait", "cancel-unread": "s-sendwait", "cancel-send": "s-wait", "deadline": "s-wait", "reset": "s-early", "openfail": "s-ok", "pre-cancelled": "s-ok", "pre-expired": "s-ok", "nearly-expired": "s-wait"}[x.Outcome]
					if x.Outcome == "openfail" {
						ctx = metadataOutgoing(ctx, "failopen", "1")
					}
					cs, err := cc.NewStream(ctx, kit.StreamDescFor(x.Kind), kit.FullMethod(name))
					if err != nil {
						return
					}
					for i := 0; i < x.Msgs; i++ {
						if kit.SendBytes(cs, []byte{byte(i)}) != nil {
							break
						}
						if x.Outcome == "ok" && x.Kind == kit.KindBidi {
							_, _ = kit.RecvBytes(cs)
						}
					}
					switch x.Outcome {
					case "cancel-unread":
						// virtual time only moves once everything is parked: by then the handler's message
						// has reached the client and sits unread in the stream's read loop
						time.Sleep(time.Millisecond)
						cancel()
					case "cancel":
						cancel()
					case "cancel-send":
						// the cancellation lands while this send is parked in the transport write (virtual time
						// only moves once everything is parked)
						go func() { time.Sleep(time.Millisecond); cancel() }()
						_ = kit.SendBytes(cs, c14ParkMarker)
					case "deadline", "nearly-expired":
					default:
						_ = cs.CloseSend()
					}
					for {
						if _, err := kit.RecvBytes(cs); err != nil {
							break
						}
					}
				}()
			}
			wg.Wait()
			kit.Settle()
			time.Sleep(200 * time.Millisecond) // lets the abandoned unary handlers above finish (virtual time)
			kit.Settle()
			if len(round) >= 8 {
				bigRound = true
			}
			// ---- invariant at the quiescent point ----
			if n := goat.VerifClientCalls(cc); n != 0 {
				v.failf("round %d: %d calls still registered in the client connection with no RPC in flight", ri, n)
			}
			if n := goat.VerifServerStreams(); n != 0 {
				liveMu.Lock()
				v.failf("round %d: %d streams still registered in the server connection with no RPC in flight (handlers still running: %v)", ri, n, live)
				liveMu.Unlock()
			}
			now := creationSites(kit.LiveInBubble())
			if strings.Join(now, "\n") != strings.Join(idle, "\n") {
				v.failf("round %d: live goroutines differ from the idle set: idle=%d now=%d", ri, len(idle), len(now))
				failDetail = map[string]any{"idle": idle, "now": now}
			}
			if v.Fail != "" {
				break
			}
		}
		w.Shutdown()
		kit.Settle()
	})
	if res.Panic != nil {
		v.failf("panic: %v\n%s", res.Panic, res.Stack)
	}
	kit.G().Count("rpcs", total)
	var labels []string
	for o := range outcomes {
		labels = append(labels, "outcome="+o)
	}
	sort.Strings(labels)
	via := c.Via
	if via == "" {
		via = "direct"
	}
	labels = append(labels, "via="+via)
	v.Info = kit.CaseInfo{Labels: labels, NonTrivial: len(outcomes) >= 3 && bigRound, Key: fmt.Sprintf("%+v", c), Sample: map[string]any{"rounds": len(c.Rounds), "rpcs": total, "first_round": headRPCs(c.Rounds[0])}}
	v.Detail = failDetail
	return
}

func headRPCs(r []C14RPC) []C14RPC {
	if len(r) > 6 {
		return r[:6]
	}
	return r
}

func TestC14(t *testing.T) { checkProp(t, "C14", "main", genC14, execC14) }

// ---- the server side of a connection is replaced under running streams -------------------------
//
// Behind a Demux the server's end of a client's connection can be cancelled and re-created (Cancel(key), next envelope
// opens a new logical connection with a new Serve). The new Serve knows nothing of the client's streams and answers
// their next message with a reset. Each such RPC must then end on the client and leave nothing registered - on either
// side.

type C14Restart struct {
	Streams int  `json:"streams"` // bidi streams running when the server side is replaced (1..4)
	Unary   int  `json:"unary"`   // unary calls made afterwards (0..2), which must work
	Ser     bool `json:"ser"`
	Stats   bool `json:"stats,omitempty"`
}

func genC14Restart(t *rapid.T) C14Restart {
	return C14Restart{Streams: rapid.IntRange(1, 4).Draw(t, "streams"), Unary: rapid.IntRange(0, 2).Draw(t, "unary"), Ser: rapid.Bool().Draw(t, "ser"), Stats: rapid.IntRange(0, 3).Draw(t, "stats") == 0}
}

func execC14Restart(t *testing.T, c C14Restart) (v Verdict) {
	ends := make([]*kit.ErrObs, c.Streams)
	unaryOK := 0
	var mu sync.Mutex
	res := kit.Bubble(t, func() {
		svc := kit.NewSvc()
		svc.Unary("u", func(ctx context.Context, req []byte) ([]byte, error) { return req, nil })
		svc.Stream("w", true, true, func(s grpcServerStream) error {
			for {
				b, err := kit.RecvBytes(s)
				if err != nil {
					return nil
				}
				if err := kit.SendBytes(s, b); err != nil {
					return err
				}
			}
		})
		w := kit.NewWorld(kit.Topo{Kind: "demux", Serialize: c.Ser, Clients: 1, Stats: c.Stats}, svc, nil, nil)
		cc := w.CC[0]
		next := make(chan struct{})
		var wg sync.WaitGroup
		for i := 0; i < c.Streams; i++ {
			i := i
			wg.Add(1)
			go func() {
				defer wg.Done()
				ctx, cancel := context.WithTimeout(context.Background(), time.Hour)
				defer cancel()
				cs, err := cc.NewStream(ctx, kit.StreamDescFor(kit.KindBidi), kit.FullMethod("w"))
				if err != nil {
					e := kit.Observe(err)
					mu.Lock()
					ends[i] = &e
					mu.Unlock()
					return
				}
				_ = kit.SendBytes(cs, []byte{1})
				_, _ = kit.RecvBytes(cs) // the stream is up and running
				<-next
				_ = kit.SendBytes(cs, []byte{2}) // lands at a server instance that has never heard of this stream
				for k := 0; k < 4; k++ {
					if _, err := kit.RecvBytes(cs); err != nil {
						e := kit.Observe(err)
						mu.Lock()
						ends[i] = &e
						mu.Unlock()
						return
					}
				}
			}()
		}
		kit.Settle()
		w.Demux.Cancel(kit.ClientName(0)) // the server's end of this client's connection goes away ...
		kit.Settle()
		close(next) // ... and the client, which cannot know, carries on
		kit.Settle()
		wgDone := make(chan struct{})
		go func() { wg.Wait(); close(wgDone) }()
		kit.Settle()
		select {
		case <-wgDone:
		default:
			v.failf("streams that were answered with a reset by the new server instance did not end on the client")
		}
		for i := 0; i < c.Unary; i++ {
			ctx, cancel := context.WithTimeout(context.Background(), time.Hour)
			if b, err := kit.Invoke(ctx, cc, "u", []byte{byte(i)}); err == nil && len(b) == 1 && b[0] == byte(i) {
				unaryOK++
			}
			cancel()
		}
		kit.Settle()
		if n := goat.VerifClientCalls(cc); n != 0 && v.Fail == "" {
			v.failf("%d calls still registered in the client connection although every RPC has ended", n)
		}
		if n := goat.VerifServerStreams(); n != 0 && v.Fail == "" {
			v.failf("%d streams still registered on the server although every RPC has ended", n)
		}
		w.Shutdown()
		kit.Settle()
	})
	if res.Panic != nil {
		v.failf("panic: %v\n%s", res.Panic, res.Stack)
	}
	for i, e := range ends {
		if e != nil && e.EOF {
			v.failf("stream %d, reset by a server instance that did not know it, ended in a clean io.EOF", i)
		}
	}
	if unaryOK != c.Unary {
		v.failf("%d of %d unary calls after the replacement succeeded", unaryOK, c.Unary)
	}
	v.Info = kit.CaseInfo{Labels: []string{"server-side-replaced"}, NonTrivial: true, Key: fmt.Sprintf("%+v", c), Sample: c}
	return
}

func TestC14Restart(t *testing.T) { checkProp(t, "C14", "restart", genC14Restart, execC14Restart) }
