package props

import (
	"bytes"
	"context"
	"crypto/sha256"
	"encoding/binary"
	"encoding/json"
	"fmt"
	"sync"
	"testing"
	"time"

	"pgregory.net/rapid"
	"verifharness/kit"
)

// ---- C01: unary exactness -------------------------------------------------

type C01Call struct {
	Client int         `json:"client"`
	Req    kit.Payload `json:"req"`
	Pad    kit.Payload `json:"pad"`
	Gate   bool        `json:"gate"` // handler parks at a scheduler gate before replying
}

type C01Case struct {
	Topo      kit.Topo  `json:"topo"`
	Calls     []C01Call `json:"calls"`
	GateReq   bool      `json:"gate_req"`   // hold request writes and release them one by one
	GateReply bool      `json:"gate_reply"` // hold reply writes likewise
	Tape      []byte    `json:"tape"`
	TickMs    int       `json:"tick_ms,omitempty"` // virtual time that passes at every quiescent point of the schedule
}

func c01Reply(req, pad []byte) []byte {
	h := sha256.Sum256(req)
	out := append([]byte{}, h[:]...)
	var l [8]byte
	binary.BigEndian.PutUint64(l[:], uint64(len(req)))
	out = append(out, l[:]...)
	return append(out, pad...)
}

func genTopo(t *rapid.T, maxClients int) kit.Topo {
	kind := rapid.SampledFrom([]string{"direct", "direct", "demux", "proxy"}).Draw(t, "topo")
	n := 1
	if rapid.Bool().Draw(t, "multi") {
		n = rapid.IntRange(1, maxClients).Draw(t, "clients")
	}
	return kit.Topo{Kind: kind, Serialize: rapid.Bool().Draw(t, "ser"), Clients: n, Stats: rapid.IntRange(0, 3).Draw(t, "stats") == 0}
}

func genC01(t *rapid.T) C01Case {
	c := C01Case{Topo: genTopo(t, 4)}
	maxN := 64
	if c.Topo.Kind == "proxy" {
		maxN = 12 // below the proxy's per-destination buffer (C16 known finding)
	}
	nclass := rapid.SampledFrom([]int{1, 8, 8, 16, maxN}).Draw(t, "nclass")
	if nclass > maxN {
		nclass = maxN
	}
	n := rapid.IntRange(1, nclass).Draw(t, "n")
	// keep total bytes bounded so that cases stay fast: big payloads only in small cases
	maxLen := 65536
	if n > 16 {
		maxLen = 4096
	}
	dup := rapid.Bool().Draw(t, "dups")
	for i := 0; i < n; i++ {
		call := C01Call{
			Client: rapid.IntRange(0, c.Topo.Clients-1).Draw(t, "client"),
			Req:    kit.GenPayload(maxLen).Draw(t, "req"),
			Pad:    kit.GenPayload(maxLen).Draw(t, "pad"),
			Gate:   i < 24 && rapid.Bool().Draw(t, "gate"),
		}
		if dup && i > 0 && rapid.IntRange(0, 3).Draw(t, "dup") == 0 {
			call.Req = c.Calls[0].Req // deliberately identical requests
		}
		c.Calls = append(c.Calls, call)
	}
	c.GateReq = rapid.Bool().Draw(t, "gate_req")
	c.GateReply = rapid.Bool().Draw(t, "gate_reply")
	c.Tape = rapid.SliceOfN(rapid.Byte(), 0, 3*n+8).Draw(t, "tape")
	c.TickMs = rapid.SampledFrom([]int{0, 0, 1, 20, 2000}).Draw(t, "tick_ms")
	return c
}

func execC01(t *testing.T, c C01Case) (v Verdict) {
	n := len(c.Calls)
	reqs := make([][]byte, n)
	want := make([][]byte, n)
	maxLen := 0
	hasEmpty := false
	for i, call := range c.Calls {
		reqs[i] = call.Req.Bytes()
		want[i] = c01Reply(reqs[i], call.Pad.Bytes())
		if len(reqs[i]) > maxLen {
			maxLen = len(reqs[i])
		}
		if len(reqs[i]) == 0 {
			hasEmpty = true
		}
	}

	type result struct {
		reply []byte
		err   error
		done  bool
	}
	results := make([]result, n)
	var hmu sync.Mutex
	seen := make([][][]byte, n) // requests each handler saw
	var tapEvs []kit.Ev
	var sched *kit.Sched
	var perConn map[int][]int

	res := kit.Bubble(t, func() {
		svc := kit.NewSvc()
		var w *kit.World
		sched = kit.NewSched()
		sched.Tick = time.Duration(c.TickMs) * time.Millisecond
		for i := range c.Calls {
			i := i
			svc.Unary(fmt.Sprintf("u%d", i), func(ctx context.Context, req []byte) ([]byte, error) {
				hmu.Lock()
				seen[i] = append(seen[i], append([]byte{}, req...))
				hmu.Unlock()
				if c.Calls[i].Gate {
					sched.Park(nil, fmt.Sprintf("h%03d", i))
				}
				return c01Reply(req, c.Calls[i].Pad.Bytes()), nil
			})
		}
		w = kit.NewWorld(c.Topo, svc, nil, nil)
		for _, l := range w.Links {
			sched.AddLink(l)
			if c.GateReq {
				l.A.Hold(func(*kit.Rpc) bool { return true })
			}
			if c.GateReply {
				l.B.Hold(func(*kit.Rpc) bool { return true })
			}
		}
		var wg sync.WaitGroup
		for i := range c.Calls {
			i := i
			wg.Add(1)
			go func() {
				defer wg.Done()
				r, err := kit.Invoke(context.Background(), w.Conn(c.Calls[i].Client), fmt.Sprintf("u%d", i), reqs[i])
				results[i] = result{r, err, true}
			}()
		}
		sched.Run(c.Tape, 100000, nil)
		sched.Drain()
		kit.Settle()
		tapEvs = w.Tap.Snapshot()
		w.Shutdown()
		// unblock whatever is left so that the bubble can end
		sched.Drain()
	})
	_ = perConn

	// ---- oracle ----
	if res.Panic != nil {
		v.failf("panic on main goroutine: %v\n%s", res.Panic, res.Stack)
	}
	for i := range c.Calls {
		r := results[i]
		switch {
		case !r.done:
			v.failf("call %d never returned", i)
		case r.err != nil:
			v.failf("call %d returned error %v", i, r.err)
		case !bytes.Equal(r.reply, want[i]):
			v.failf("call %d got a reply that is not the handler's reply to its request (got %s want %s)", i, kit.Digest(r.reply), kit.Digest(want[i]))
		}
		if len(seen[i]) != 1 {
			v.failf("handler %d ran %d times, want exactly once", i, len(seen[i]))
		} else if !bytes.Equal(seen[i][0], reqs[i]) {
			v.failf("handler %d saw request %s, caller sent %s", i, kit.Digest(seen[i][0]), kit.Digest(reqs[i]))
		}
	}
	// wire: per client link, one request and one response per id, ids distinct
	reordered := false
	for ci := 0; ci < c.Topo.Clients; ci++ {
		name := kit.ClientName(ci)
		reqOrder := []uint64{}
		reqSeen := map[uint64]int{}
		for _, e := range kit.Filter(tapEvs, name, kit.AtoB) {
			reqSeen[e.Rpc.GetId()]++
			reqOrder = append(reqOrder, e.Rpc.GetId())
		}
		respOrder := []uint64{}
		respSeen := map[uint64]int{}
		for _, e := range kit.Filter(tapEvs, name, kit.BtoA) {
			respSeen[e.Rpc.GetId()]++
			respOrder = append(respOrder, e.Rpc.GetId())
		}
		ncalls := 0
		for _, call := range c.Calls {
			if call.Client%c.Topo.Clients == ci {
				ncalls++
			}
		}
		if len(reqSeen) != ncalls {
			v.failf("client %s: %d distinct request ids on the wire for %d calls", name, len(reqSeen), ncalls)
		}
		for id, k := range reqSeen {
			if k != 1 {
				v.failf("client %s: id %d carried %d request envelopes", name, id, k)
			}
			if respSeen[id] != 1 {
				v.failf("client %s: id %d got %d response envelopes, want 1", name, id, respSeen[id])
			}
		}
		for id := range respSeen {
			if reqSeen[id] == 0 {
				v.failf("client %s: response for id %d that was never requested", name, id)
			}
		}
		if len(reqOrder) == len(respOrder) {
			for i := range reqOrder {
				if reqOrder[i] != respOrder[i] {
					reordered = true
				}
			}
		}
	}

	// ---- bookkeeping ----
	nclass := "1"
	switch {
	case n >= 17:
		nclass = "17-64"
	case n >= 9:
		nclass = "9-16"
	case n >= 2:
		nclass = "2-8"
	}
	v.Info.Labels = []string{"topo=" + c.Topo.Kind, fmt.Sprintf("ser=%v", c.Topo.Serialize), "n=" + nclass,
		"maxreq=" + kit.SizeClass(maxLen), fmt.Sprintf("reordered=%v", reordered), fmt.Sprintf("clients=%d", c.Topo.Clients), fmt.Sprintf("time_passes=%v", c.TickMs > 0), fmt.Sprintf("stats=%v", c.Topo.Stats)}
	v.Info.NonTrivial = (n >= 2 && reordered) || hasEmpty || maxLen >= 16384
	key, _ := json.Marshal(c)
	v.Info.Key = string(key)
	v.Info.Sample = map[string]any{"topo": c.Topo.String(), "calls": n, "reordered": reordered, "max_request_bytes": maxLen,
		"first_call": c.Calls[0], "schedule": headStr(sched.Trace, 12)}
	if v.Fail != "" {
		v.Detail = map[string]any{"schedule": sched.Trace, "wire": tapSummary(tapEvs, 200)}
	}
	return v
}

func headStr(s []string, n int) []string {
	if len(s) > n {
		return append(append([]string{}, s[:n]...), fmt.Sprintf("… (%d more)", len(s)-n))
	}
	return s
}

func TestC01(t *testing.T) {
	checkProp(t, "C01", "main", genC01, execC01)
}
