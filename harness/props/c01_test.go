package props

import (
	"bytes"
	"context"
	"crypto/sha256"
	"encoding/binary"
	"encoding/json"
	"fmt"
	"google.golang.org/grpc"
	"google.golang.org/grpc/metadata"
	"sync"
	"testing"
	"time"

	"google.golang.org/protobuf/types/known/wrapperspb"
	"pgregory.net/rapid"
	"verifharness/kit"
)

// ---- C01: unary exactness -------------------------------------------------

type C01Call struct {
	Client int         `json:"client"`
	Req    kit.Payload `json:"req"`
	Pad    kit.Payload `json:"pad"`
	Gate   bool        `json:"gate"`           // handler parks at a scheduler gate before replying
	Busy   bool        `json:"busy,omitempty"` // handler uses the metadata API on the way, including a call that is refused
}

type C01Case struct {
	Topo      kit.Topo  `json:"topo"`
	Calls     []C01Call `json:"calls"`
	GateReq   bool      `json:"gate_req"`   // hold request writes and release them one by one
	GateReply bool      `json:"gate_reply"` // hold reply writes likewise
	Tape      []byte    `json:"tape"`
	TickMs    int       `json:"tick_ms,omitempty"` // virtual time that passes at every quiescent point of the schedule
	// KeyReturns (demux and proxy topologies): before the calls, every client makes one warm-up call and the Demux in
	// front of the server is then told to Cancel that client's key - the server side of the connection is gone; the calls
	// of the case are the first envelopes of the key's next life
	KeyReturns bool `json:"key_returns,omitempty"`
}

func c01Reply(req, pad []byte) []byte {
	h := sha256.Sum256(req)
	out := append([]byte{}, h[:]...)
	var l [8]byte
	binary.BigEndian.PutUint64(l[:], uint64(len(req)))
	out = append(out, l[:]...)
	return append(out, pad...)
}

func genTopo(t *rapid.T, maxClients int) kit.Topo {
	kind := rapid.SampledFrom([]string{"direct", "direct", "demux", "proxy"}).Draw(t, "topo")
	n := 1
	if rapid.Bool().Draw(t, "multi") {
		n = rapid.IntRange(1, maxClients).Draw(t, "clients")
	}
	return kit.Topo{Kind: kind, Serialize: rapid.Bool().Draw(t, "ser"), Clients: n, Stats: rapid.IntRange(0, 3).Draw(t, "stats") == 0}
}

func genC01(t *rapid.T) C01Case {
	c := C01Case{Topo: genTopo(t, 4)}
	maxN := 64
	if c.Topo.Kind == "proxy" {
		maxN = 12 // below the proxy's per-destination buffer (C16 known finding)
	}
	nclass := rapid.SampledFrom([]int{1, 8, 8, 16, maxN}).Draw(t, "nclass")
	if nclass > maxN {
		nclass = maxN
	}
	n := rapid.IntRange(1, nclass).Draw(t, "n")
	// keep total bytes bounded so that cases stay fast: big payloads only in small cases
	maxLen := 65536
	if n > 16 {
		maxLen = 4096
	}
	dup := rapid.Bool().Draw(t, "dups")
	for i := 0; i < n; i++ {
		call := C01Call{
			Client: rapid.IntRange(0, c.Topo.Clients-1).Draw(t, "client"),
			Req:    kit.GenPayload(maxLen).Draw(t, "req"),
			Pad:    kit.GenPayload(maxLen).Draw(t, "pad"),
			Gate:   i < 24 && rapid.Bool().Draw(t, "gate"),
			Busy:   rapid.IntRange(0, 3).Draw(t, "busy") == 0,
		}
		if dup && i > 0 && rapid.IntRange(0, 3).Draw(t, "dup") == 0 {
			call.Req = c.Calls[0].Req // deliberately identical requests
		}
		c.Calls = append(c.Calls, call)
	}
	c.GateReq = rapid.Bool().Draw(t, "gate_req")
	c.GateReply = rapid.Bool().Draw(t, "gate_reply")
	c.Tape = rapid.SliceOfN(rapid.Byte(), 0, 3*n+8).Draw(t, "tape")
	c.TickMs = rapid.SampledFrom([]int{0, 0, 1, 20, 2000}).Draw(t, "tick_ms")
	c.KeyReturns = c.Topo.Kind != "direct" && rapid.IntRange(0, 2).Draw(t, "key_returns") == 0
	return c
}

func execC01(t *testing.T, c C01Case) (v Verdict) {
	n := len(c.Calls)
	reqs := make([][]byte, n)
	want := make([][]byte, n)
	maxLen := 0
	hasEmpty := false
	for i, call := range c.Calls {
		reqs[i] = call.Req.Bytes()
		want[i] = c01Reply(reqs[i], call.Pad.Bytes())
		if len(reqs[i]) > maxLen {
			maxLen = len(reqs[i])
		}
		if len(reqs[i]) == 0 {
			hasEmpty = true
		}
	}

	type result struct {
		reply []byte
		err   error
		done  bool
	}
	results := make([]result, n)
	var hmu sync.Mutex
	seen := make([][][]byte, n) // requests each handler saw
	var tapEvs []kit.Ev
	tapStart := 0
	var sched *kit.Sched
	var perConn map[int][]int

	res := kit.Bubble(t, func() {
		svc := kit.NewSvc()
		var w *kit.World
		sched = kit.NewSched()
		sched.Tick = time.Duration(c.TickMs) * time.Millisecond
		for i := range c.Calls {
			i := i
			svc.Unary(fmt.Sprintf("u%d", i), func(ctx context.Context, req []byte) ([]byte, error) {
				hmu.Lock()
				seen[i] = append(seen[i], append([]byte{}, req...))
				hmu.Unlock()
				if c.Calls[i].Busy {
					_ = grpc.SetHeader(ctx, metadata.Pairs("h", "1"))
					_ = grpc.SendHeader(ctx, metadata.Pairs("h", "2"))
					_ = grpc.SendHeader(ctx, metadata.Pairs("h", "3")) // refused: headers already sent
					_ = grpc.SetTrailer(ctx, metadata.Pairs("t", "1"))
				}
				if c.Calls[i].Gate {
					sched.Park(nil, fmt.Sprintf("h%03d", i))
				}
				return c01Reply(req, c.Calls[i].Pad.Bytes()), nil
			})
		}
		svc.Unary("warm", func(ctx context.Context, req []byte) ([]byte, error) { return req, nil })
		w = kit.NewWorld(c.Topo, svc, nil, nil)
		if c.KeyReturns && w.Demux != nil {
			for ci := 0; ci < c.Topo.Clients; ci++ {
				if r, err := kit.Invoke(context.Background(), w.Conn(ci), "warm", []byte{byte(ci)}); err != nil || !bytes.Equal(r, []byte{byte(ci)}) {
					v.failf("warm-up call of client %d: %v", ci, err)
				}
			}
			kit.Settle()
			for ci := 0; ci < c.Topo.Clients; ci++ {
				w.Demux.Cancel(kit.ClientName(ci))
			}
			kit.Settle()
			tapStart = w.Tap.Len() // the wire oracle below looks at the calls of the case only
		}
		for _, l := range w.Links {
			sched.AddLink(l)
			if c.GateReq {
				l.A.Hold(func(*kit.Rpc) bool { return true })
			}
			if c.GateReply {
				l.B.Hold(func(*kit.Rpc) bool { return true })
			}
		}
		var wg sync.WaitGroup
		for i := range c.Calls {
			i := i
			wg.Add(1)
			go func() {
				defer wg.Done()
				r, err := kit.Invoke(context.Background(), w.Conn(c.Calls[i].Client), fmt.Sprintf("u%d", i), reqs[i])
				results[i] = result{r, err, true}
			}()
		}
		sched.Run(c.Tape, 100000, nil)
		sched.Drain()
		kit.Settle()
		tapEvs = w.Tap.Snapshot()[tapStart:]
		w.Shutdown()
		// unblock whatever is left so that the bubble can end
		sched.Drain()
	})
	_ = perConn

	// ---- oracle ----
	if res.Panic != nil {
		v.failf("panic on main goroutine: %v\n%s", res.Panic, res.Stack)
	}
	for i := range c.Calls {
		r := results[i]
		switch {
		case !r.done:
			v.failf("call %d never returned", i)
		case r.err != nil:
			v.failf("call %d returned error %v", i, r.err)
		case !bytes.Equal(r.reply, want[i]):
			v.failf("call %d got a reply that is not the handler's reply to its request (got %s want %s)", i, kit.Digest(r.reply), kit.Digest(want[i]))
		}
		if len(seen[i]) != 1 {
			v.failf("handler %d ran %d times, want exactly once", i, len(seen[i]))
		} else if !bytes.Equal(seen[i][0], reqs[i]) {
			v.failf("handler %d saw request %s, caller sent %s", i, kit.Digest(seen[i][0]), kit.Digest(reqs[i]))
		}
	}
	// wire: per client link, one request and one response per id, ids distinct
	reordered := false
	for ci := 0; ci < c.Topo.Clients; ci++ {
		name := kit.ClientName(ci)
		reqOrder := []uint64{}
		reqSeen := map[uint64]int{}
		for _, e := range kit.Filter(tapEvs, name, kit.AtoB) {
			reqSeen[e.Rpc.GetId()]++
			reqOrder = append(reqOrder, e.Rpc.GetId())
		}
		respOrder := []uint64{}
		respSeen := map[uint64]int{}
		for _, e := range kit.Filter(tapEvs, name, kit.BtoA) {
			respSeen[e.Rpc.GetId()]++
			respOrder = append(respOrder, e.Rpc.GetId())
		}
		ncalls := 0
		for _, call := range c.Calls {
			if call.Client%c.Topo.Clients == ci {
				ncalls++
			}
		}
		if len(reqSeen) != ncalls {
			v.failf("client %s: %d distinct request ids on the wire for %d calls", name, len(reqSeen), ncalls)
		}
		for id, k := range reqSeen {
			if k != 1 {
				v.failf("client %s: id %d carried %d request envelopes", name, id, k)
			}
			if respSeen[id] != 1 {
				v.failf("client %s: id %d got %d response envelopes, want 1", name, id, respSeen[id])
			}
		}
		for id := range respSeen {
			if reqSeen[id] == 0 {
				v.failf("client %s: response for id %d that was never requested", name, id)
			}
		}
		if len(reqOrder) == len(respOrder) {
			for i := range reqOrder {
				if reqOrder[i] != respOrder[i] {
					reordered = true
				}
			}
		}
	}

	// ---- bookkeeping ----
	nclass := "1"
	switch {
	case n >= 17:
		nclass = "17-64"
	case n >= 9:
		nclass = "9-16"
	case n >= 2:
		nclass = "2-8"
	}
	v.Info.Labels = []string{"topo=" + c.Topo.Kind, fmt.Sprintf("ser=%v", c.Topo.Serialize), "n=" + nclass,
		"maxreq=" + kit.SizeClass(maxLen), fmt.Sprintf("reordered=%v", reordered), fmt.Sprintf("clients=%d", c.Topo.Clients), fmt.Sprintf("time_passes=%v", c.TickMs > 0), fmt.Sprintf("stats=%v", c.Topo.Stats), fmt.Sprintf("demux_key_returns=%v", c.KeyReturns)}
	v.Info.NonTrivial = (n >= 2 && reordered) || hasEmpty || maxLen >= 16384
	key, _ := json.Marshal(c)
	v.Info.Key = string(key)
	v.Info.Sample = map[string]any{"topo": c.Topo.String(), "calls": n, "reordered": reordered, "max_request_bytes": maxLen,
		"first_call": c.Calls[0], "schedule": headStr(sched.Trace, 12)}
	if v.Fail != "" {
		v.Detail = map[string]any{"schedule": sched.Trace, "wire": tapSummary(tapEvs, 200)}
	}
	return v
}

func headStr(s []string, n int) []string {
	if len(s) > n {
		return append(append([]string{}, s[:n]...), fmt.Sprintf("… (%d more)", len(s)-n))
	}
	return s
}

func TestC01(t *testing.T) {
	checkProp(t, "C01", "main", genC01, execC01)
}

// ---- C01 repeat: the same few methods called again and again ----------------------------------
//
// TestC01 gives every call its own method so that handlers can be gated individually. Real callers invoke the same
// method over and over on a long-lived connection; whatever the library keeps per method or per connection between
// calls must not leak from one call into the next.

type C01Repeat struct {
	Topo    kit.Topo `json:"topo"`
	Methods int      `json:"methods"` // 1..3 unary methods
	Rounds  [][]int  `json:"rounds"`  // per round: the method index of each call; the calls of a round run concurrently
	WithMD  bool     `json:"with_md"` // calls carry outgoing metadata
	Timeout bool     `json:"timeout"` // calls carry a (long) deadline
	Big     bool     `json:"big"`     // 2 KiB payloads instead of a few bytes
	// ReuseReply: the application keeps one reply object per concurrent slot and passes it to Invoke again in every round
	// (Invoke must overwrite it); every third call is answered with the empty message
	ReuseReply bool `json:"reuse_reply,omitempty"`
}

func genC01Repeat(t *rapid.T) C01Repeat {
	c := C01Repeat{Topo: genTopo(t, 3), Methods: rapid.IntRange(1, 3).Draw(t, "methods"), WithMD: rapid.IntRange(0, 2).Draw(t, "md") == 0, Timeout: rapid.IntRange(0, 2).Draw(t, "timeout") == 0, Big: rapid.Bool().Draw(t, "big"), ReuseReply: rapid.IntRange(0, 2).Draw(t, "reuse_reply") == 0}
	nr := rapid.IntRange(2, 6).Draw(t, "rounds")
	for r := 0; r < nr; r++ {
		n := rapid.SampledFrom([]int{1, 1, 2, 4}).Draw(t, "n")
		if c.Topo.Kind == "proxy" && n > 3 {
			n = 3
		}
		var round []int
		for i := 0; i < n; i++ {
			round = append(round, rapid.IntRange(0, c.Methods-1).Draw(t, "m"))
		}
		c.Rounds = append(c.Rounds, round)
	}
	return c
}

func execC01Repeat(t *testing.T, c C01Repeat) (v Verdict) {
	type call struct {
		method int
		client int
		reply  []byte
		err    error
		done   bool
	}
	var calls []*call
	var mu sync.Mutex
	handled := map[int]int{} // call index -> handler runs
	mkReq := func(idx int) []byte {
		b := []byte{0xC1, byte(idx >> 8), byte(idx)}
		if c.Big {
			for len(b) < 2048 {
				b = append(b, byte(idx))
			}
		}
		return b
	}
	res := kit.Bubble(t, func() {
		svc := kit.NewSvc()
		for m := 0; m < c.Methods; m++ {
			m := m
			svc.Unary(fmt.Sprintf("r%d", m), func(ctx context.Context, req []byte) ([]byte, error) {
				if len(req) >= 3 {
					mu.Lock()
					handled[int(req[1])<<8|int(req[2])]++
					mu.Unlock()
				}
				if c.ReuseReply && len(req) >= 3 && (int(req[1])<<8|int(req[2]))%3 == 2 {
					return nil, nil // the empty message
				}
				return append([]byte{byte('A' + m)}, req...), nil
			})
		}
		w := kit.NewWorld(c.Topo, svc, nil, nil)
		outs := map[int]*wrapperspb.BytesValue{}
		for _, round := range c.Rounds {
			var wg sync.WaitGroup
			for i, m := range round {
				if outs[i] == nil {
					outs[i] = new(wrapperspb.BytesValue)
				}
				out := outs[i]
				cl := &call{method: m, client: i % c.Topo.Clients}
				idx := len(calls)
				calls = append(calls, cl)
				wg.Add(1)
				go func() {
					defer wg.Done()
					ctx := context.Background()
					if c.WithMD {
						ctx = metadataOutgoing(ctx, "call", fmt.Sprint(idx))
					}
					if c.Timeout {
						var cancel context.CancelFunc
						ctx, cancel = context.WithTimeout(ctx, time.Hour)
						defer cancel()
					}
					if c.ReuseReply {
						var b []byte
						b, cl.err = kit.InvokeInto(ctx, w.Conn(cl.client), fmt.Sprintf("r%d", cl.method), mkReq(idx), out)
						cl.reply = append([]byte{}, b...)
					} else {
						cl.reply, cl.err = kit.Invoke(ctx, w.Conn(cl.client), fmt.Sprintf("r%d", cl.method), mkReq(idx))
					}
					cl.done = true
				}()
			}
			wg.Wait()
			kit.Settle()
		}
		w.Shutdown()
		kit.Settle()
	})
	if res.Panic != nil {
		v.failf("panic: %v\n%s", res.Panic, res.Stack)
	}
	for idx, cl := range calls {
		want := append([]byte{byte('A' + cl.method)}, mkReq(idx)...)
		if c.ReuseReply && idx%3 == 2 {
			want = []byte{}
		}
		switch {
		case !cl.done:
			v.failf("call %d (method r%d, the %d-th call on this connection set) never returned", idx, cl.method, idx+1)
		case cl.err != nil:
			v.failf("call %d (method r%d) failed: %v - earlier calls of the same methods on the same connections succeeded", idx, cl.method, cl.err)
		case !bytes.Equal(cl.reply, want):
			v.failf("call %d (method r%d) got a reply that is not its handler's reply to its request", idx, cl.method)
		}
		if handled[idx] != 1 {
			v.failf("the handler ran %d times for call %d, want exactly once", handled[idx], idx)
		}
	}
	v.Info = kit.CaseInfo{Labels: []string{"repeat", "repeat.topo=" + c.Topo.Kind, fmt.Sprintf("repeat.ser=%v", c.Topo.Serialize), fmt.Sprintf("repeat.plain_calls=%v", !c.WithMD && !c.Timeout)}, NonTrivial: len(calls) >= 3,
		Key: fmt.Sprintf("%+v", c), Sample: map[string]any{"topo": c.Topo.String(), "methods": c.Methods, "calls": len(calls), "rounds": len(c.Rounds)}}
	return
}

func TestC01Repeat(t *testing.T) { checkProp(t, "C01", "repeat", genC01Repeat, execC01Repeat) }

// ---- C01 long-lived connection: calls that stay in flight while hundreds of others come and go ----------------

// C01Long: 1..3 slow unary calls are in flight on a connection while Quick other calls (300..1500) complete on it, a
// few at a time; then the slow handlers are released. Every call - the slow ones included - returns its own handler's
// reply to its own request, and every handler ran once.
type C01Long struct {
	Slow  int  `json:"slow"`
	Quick int  `json:"quick"`
	Wave  int  `json:"wave"`
	Ser   bool `json:"ser"`
	Stats bool `json:"stats,omitempty"`
}

func genC01Long(t *rapid.T) C01Long {
	return C01Long{Slow: rapid.IntRange(1, 3).Draw(t, "slow"), Quick: rapid.SampledFrom([]int{300, 520, 1100, 1500}).Draw(t, "quick"), Wave: rapid.IntRange(1, 6).Draw(t, "wave"), Ser: rapid.Bool().Draw(t, "ser"), Stats: rapid.IntRange(0, 3).Draw(t, "stats") == 0}
}

func execC01Long(t *testing.T, c C01Long) (v Verdict) {
	slowOK, quickOK, slowRuns, quickRuns := 0, 0, 0, 0
	var mu sync.Mutex
	slowDone := 0
	res := kit.Bubble(t, func() {
		svc := kit.NewSvc()
		gate := make(chan struct{})
		svc.Unary("slow", func(ctx context.Context, req []byte) ([]byte, error) {
			mu.Lock()
			slowRuns++
			mu.Unlock()
			<-gate
			return append([]byte("slow:"), req...), nil
		})
		svc.Unary("q", func(ctx context.Context, req []byte) ([]byte, error) {
			mu.Lock()
			quickRuns++
			mu.Unlock()
			return append([]byte("q:"), req...), nil
		})
		w := kit.NewWorld(kit.Topo{Kind: "direct", Serialize: c.Ser, Clients: 1, Stats: c.Stats}, svc, nil, nil)
		w.Links[0].Tap = nil
		var swg sync.WaitGroup
		for i := 0; i < c.Slow; i++ {
			i := i
			swg.Add(1)
			go func() {
				defer swg.Done()
				r, err := kit.Invoke(context.Background(), w.Conn(0), "slow", []byte{byte(i)})
				mu.Lock()
				slowDone++
				if err == nil && bytes.Equal(r, append([]byte("slow:"), byte(i))) {
					slowOK++
				}
				mu.Unlock()
			}()
		}
		kit.Settle()
		for n := 0; n < c.Quick; {
			var wg sync.WaitGroup
			for k := 0; k < c.Wave && n < c.Quick; k++ {
				req := []byte{byte(n >> 8), byte(n)}
				n++
				wg.Add(1)
				go func() {
					defer wg.Done()
					r, err := kit.Invoke(context.Background(), w.Conn(0), "q", req)
					if err == nil && bytes.Equal(r, append([]byte("q:"), req...)) {
						mu.Lock()
						quickOK++
						mu.Unlock()
					}
				}()
			}
			wg.Wait()
		}
		close(gate)
		kit.Settle()
		w.Shutdown() // whatever is still waiting is released by the end of the connection
		kit.Settle()
		swg.Wait()
	})
	if res.Panic != nil {
		v.failf("panic: %v\n%s", res.Panic, res.Stack)
	}
	if quickOK != c.Quick || quickRuns != c.Quick {
		v.failf("%d of %d quick calls returned their handler's reply (handler runs: %d)", quickOK, c.Quick, quickRuns)
	}
	if slowOK != c.Slow || slowRuns != c.Slow {
		v.failf("%d of %d calls that were in flight while %d other calls completed on the connection returned their handler's reply (handler runs %d, calls returned %d)", slowOK, c.Slow, c.Quick, slowRuns, slowDone)
	}
	v.Info = kit.CaseInfo{Labels: []string{"long-lived", fmt.Sprintf("long.quick>=1000=%v", c.Quick >= 1000)}, NonTrivial: true, Key: fmt.Sprintf("%+v", c), Sample: c}
	return
}

func TestC01Long(t *testing.T) { checkProp(t, "C01", "long-lived", genC01Long, execC01Long) }
