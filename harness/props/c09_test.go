package props

import (
	"bytes"
	"context"
	"fmt"
	"google.golang.org/grpc/codes"
	"sync"
	"testing"

	goat "github.com/avos-io/goat"
	"pgregory.net/rapid"
	"verifharness/kit"
)

// ---- C09: client transport failure ------------------------------------------

type C09Call struct {
	Kind   int  `json:"kind"`
	Bodies int  `json:"bodies"` // stream: number of response bodies the server will send
	Header bool `json:"header"` // stream: server sends a separate header envelope first; caller calls Header()
	// Lazy: the caller of this stream does not receive until the whole response script has been written (messages back
	// up inside the connection meanwhile); SendFirst: it then sends a message before its first receive
	Lazy      bool `json:"lazy,omitempty"`
	SendFirst bool `json:"send_first,omitempty"`
}

type C09Case struct {
	Calls      []C09Call `json:"calls"`
	Order      []byte    `json:"order"`       // interleaving of the response envelopes
	Pos        int       `json:"pos"`         // read fails after this many delivered envelopes (clamped to L); -1 = enumerate all
	WriteFails bool      `json:"write_fails"` // write side fails together with the read side
	Window     string    `json:"window"`      // "" | unary | stream : a call parked between the failure check and its registration
	Ser        bool      `json:"ser"`
	ErrKind    string    `json:"err_kind,omitempty"` // which error value the failing transport returns (kit.FaultErrKinds)
	Stats      bool      `json:"stats,omitempty"`    // the client connection has a (do-nothing) stats handler
}

type c09WindowKey struct{}

func genC09(t *rapid.T) C09Case {
	c := C09Case{Ser: rapid.Bool().Draw(t, "ser"), WriteFails: rapid.Bool().Draw(t, "write_fails"), ErrKind: rapid.SampledFrom(kit.FaultErrKinds).Draw(t, "err_kind"), Stats: rapid.IntRange(0, 2).Draw(t, "stats") == 0}
	n := rapid.IntRange(1, 5).Draw(t, "ncalls")
	for i := 0; i < n; i++ {
		call := C09Call{Kind: rapid.SampledFrom(allKinds).Draw(t, "kind")}
		if call.Kind == kit.KindServer || call.Kind == kit.KindBidi {
			call.Bodies = rapid.IntRange(0, 3).Draw(t, "bodies")
		} else if call.Kind == kit.KindClient {
			call.Bodies = 1
		}
		if call.Kind != kit.KindUnary {
			call.Header = rapid.Bool().Draw(t, "header")
			call.Lazy = rapid.IntRange(0, 3).Draw(t, "lazy") == 0
			call.SendFirst = call.Lazy && call.Kind != kit.KindServer && rapid.Bool().Draw(t, "send_first")
		}
		c.Calls = append(c.Calls, call)
	}
	c.Order = rapid.SliceOfN(rapid.Byte(), 0, 20).Draw(t, "order")
	c.Window = rapid.SampledFrom([]string{"", "", "unary", "stream"}).Draw(t, "window")
	c.Pos = -1
	return c
}

type c09CallObs struct {
	done    bool
	err     error
	reply   []byte
	recv    [][]byte
	end     *kit.ErrObs
	hdrDone bool
	openErr error
	// sendFirst: what the send before the first receive returned (lazy callers that send first)
	sendFirst string
}

// responseScript returns the envelopes the scripted server sends for call i.
func (c C09Case) responseScript(i int) []kit.EnvSpec {
	call := c.Calls[i]
	if call.Kind == kit.KindUnary {
		return []kit.EnvSpec{{Body: &kit.Payload{Class: "lit", Lit: []byte{0xA0, byte(i)}}, Wrap: true, Trailer: true}}
	}
	var out []kit.EnvSpec
	if call.Header {
		out = append(out, kit.EnvSpec{HdrMD: []kit.RawKV{{K: "h", V: "v"}}})
	}
	for b := 0; b < call.Bodies; b++ {
		out = append(out, kit.EnvSpec{Body: &kit.Payload{Class: "lit", Lit: []byte{0xB0, byte(i), byte(b)}}, Wrap: true})
	}
	out = append(out, kit.EnvSpec{Status: &kit.StatusSpec{Code: 0, Msg: "OK"}, Trailer: true})
	return out
}

type c09Run struct {
	L       int
	obs     []*c09CallObs
	after   [2]*c09CallObs // unary and stream started after the failure
	window  *c09CallObs
	lastIdx []int // index in the delivery order of each call's last envelope
	res     kit.RunResult
	tap     []kit.Ev
}

func runC09(t *testing.T, c C09Case, pos int) *c09Run {
	r := &c09Run{}
	n := len(c.Calls)
	r.obs = make([]*c09CallObs, n)
	for i := range r.obs {
		r.obs[i] = &c09CallObs{}
	}
	r.after = [2]*c09CallObs{{}, {}}
	r.window = &c09CallObs{}
	var mu sync.Mutex
	windowRelease := make(chan struct{}) // recreated inside the bubble below
	r.res = kit.Bubble(t, func() {
		windowRelease = make(chan struct{})
		tp := kit.NewTap()
		l := kit.NewLink("c0", tp, c.Ser)
		l.A.SetFaultErr(kit.FaultErr(c.ErrKind))
		goat.VerifSetHook(func(ctx context.Context, name string) {
			if name != "mux.unary.beforeRegister" && name != "mux.stream.beforeRegister" {
				return
			}
			if ctx.Value(c09WindowKey{}) != nil {
				<-windowRelease // parked between the failure check and the registration
			}
		})
		defer goat.VerifSetHook(nil)
		var dopts []goat.DialOption
		if c.Stats {
			dopts = append(dopts, goat.WithStatsHandler(nopStats{}))
		}
		cc := goat.NewClientConn(l.A, "c0", kit.ServerName, dopts...)
		bg := context.Background()

		lazyRelease := make(chan struct{})
		runStream := func(ctx context.Context, kind int, name string, o *c09CallObs, wantHeader bool, lazy, sendFirst bool) {
			cs, err := cc.NewStream(ctx, kit.StreamDescFor(kind), kit.FullMethod(name))
			if err != nil {
				mu.Lock()
				o.openErr, o.done = err, true
				mu.Unlock()
				return
			}
			if wantHeader {
				_, _ = cs.Header()
				mu.Lock()
				o.hdrDone = true
				mu.Unlock()
			}
			if lazy {
				<-lazyRelease
				if sendFirst {
					serr := kit.SendBytes(cs, []byte("late")) // may fail or not; what matters is what the receives report next
					mu.Lock()
					o.sendFirst = fmt.Sprintf("%v", serr)
					mu.Unlock()
				}
			}
			for n := 0; ; n++ {
				if n > 8 {
					// more receives have returned than the server ever sent messages: stop (the judge sees the surplus)
					mu.Lock()
					o.done = true
					mu.Unlock()
					return
				}
				b, err := kit.RecvBytes(cs)
				if err != nil {
					e := kit.Observe(err)
					mu.Lock()
					o.end, o.done = &e, true
					mu.Unlock()
					return
				}
				mu.Lock()
				o.recv = append(o.recv, b)
				mu.Unlock()
			}
		}
		for i, call := range c.Calls {
			i, call := i, call
			o := r.obs[i]
			name := fmt.Sprintf("m%d", i)
			go func() {
				if call.Kind == kit.KindUnary {
					rep, err := kit.Invoke(bg, cc, name, []byte{byte(i)})
					mu.Lock()
					o.reply, o.err, o.done = rep, err, true
					mu.Unlock()
					return
				}
				runStream(bg, call.Kind, name, o, call.Header, call.Lazy, call.SendFirst)
			}()
		}
		// the window call starts now and parks in the hook until the failure has been recorded
		if c.Window != "" {
			wctx := context.WithValue(bg, c09WindowKey{}, true)
			go func() {
				if c.Window == "unary" {
					rep, err := kit.Invoke(wctx, cc, "w", []byte("w"))
					mu.Lock()
					r.window.reply, r.window.err, r.window.done = rep, err, true
					mu.Unlock()
					return
				}
				runStream(wctx, kit.KindBidi, "w", r.window, false, false, false)
			}()
		}
		kit.Settle()
		// scripted server: learn the ids, then emit the responses in the drawn interleaving
		ids := map[string]uint64{}
		for _, rq := range l.B.ReadAvailable() {
			m := rq.GetHeader().GetMethod()
			if _, ok := ids[m]; !ok {
				ids[m] = rq.GetId()
			}
		}
		type pending struct {
			call int
			envs []kit.EnvSpec
		}
		var q []pending
		for i := range c.Calls {
			q = append(q, pending{i, c.responseScript(i)})
		}
		r.lastIdx = make([]int, n)
		l.A.FailReadAfter(pos)
		step := 0
		delivered := 0
		for len(q) > 0 {
			k := 0
			if step < len(c.Order) {
				k = int(c.Order[step]) % len(q)
			}
			step++
			p := &q[k]
			e := p.envs[0]
			p.envs = p.envs[1:]
			method := kit.FullMethod(fmt.Sprintf("m%d", p.call))
			_ = l.B.Write(bg, e.Build(ids[method], method, kit.ServerName, "c0"))
			r.lastIdx[p.call] = delivered
			delivered++
			if len(p.envs) == 0 {
				q = append(q[:k], q[k+1:]...)
			}
			kit.Settle()
			if delivered == pos && c.WriteFails {
				l.A.FailWrites(nil)
			}
		}
		r.L = delivered
		if pos == 0 && c.WriteFails {
			l.A.FailWrites(nil)
		}
		kit.Settle()
		if pos > r.L {
			// no failure was injected during the trace: inject it now (position L)
			l.A.FailReads(nil)
			if c.WriteFails {
				l.A.FailWrites(nil)
			}
			kit.Settle()
		}
		// the lazy callers start receiving now (until then the connection's read loop may have been parked on their
		// streams, short of the failure point)
		close(lazyRelease)
		kit.Settle()
		// the failure has been recorded: let the window call continue, and start calls "afterwards"
		close(windowRelease)
		go func() {
			rep, err := kit.Invoke(bg, cc, "after-u", []byte("x"))
			mu.Lock()
			r.after[0].reply, r.after[0].err, r.after[0].done = rep, err, true
			mu.Unlock()
		}()
		go runStream(bg, kit.KindBidi, "after-s", r.after[1], true, false, false)
		kit.Settle()
		r.tap = tp.Snapshot()
		// end of observation: everything must have returned by now. Clean up.
		l.Close()
		cc.Close()
		kit.Settle()
	})
	return r
}

func judgeC09(c C09Case, pos int, r *c09Run) string {
	tag := fmt.Sprintf("readfail@%d/%d", pos, r.L)
	if r.res.Panic != nil {
		return fmt.Sprintf("%s: panic: %v\n%s", tag, r.res.Panic, r.res.Stack)
	}
	for i, call := range c.Calls {
		o := r.obs[i]
		complete := r.lastIdx[i] < pos // its whole response was handed to Read before the failure
		if !o.done {
			return fmt.Sprintf("%s: call %d (%s) in flight at the failure never returned", tag, i, kit.KindNames[call.Kind])
		}
		if call.Kind == kit.KindUnary {
			if o.err == nil {
				if !complete {
					return fmt.Sprintf("%s: unary call %d succeeded although its reply was never delivered", tag, i)
				}
				if !bytes.Equal(o.reply, []byte{0xA0, byte(i)}) {
					return fmt.Sprintf("%s: unary call %d returned a fabricated reply", tag, i)
				}
			}
			continue
		}
		if o.openErr != nil {
			continue
		}
		if call.Header && !o.hdrDone {
			return fmt.Sprintf("%s: Header() of call %d blocked", tag, i)
		}
		var want [][]byte
		for b := 0; b < call.Bodies; b++ {
			want = append(want, []byte{0xB0, byte(i), byte(b)})
		}
		if !kit.IsPrefix(o.recv, want) {
			return fmt.Sprintf("%s: stream %d received %v which is not a prefix of what the server sent", tag, i, digests(o.recv))
		}
		if o.end == nil {
			return fmt.Sprintf("%s: stream %d never observed an end (%d receives returned without an error, the server sent %d messages)", tag, i, len(o.recv), len(want))
		}
		if o.end.EOF && (!complete || len(o.recv) != len(want)) {
			return fmt.Sprintf("%s: stream %d ended in io.EOF after %d of %d messages although the transport failed before its trailer (complete response handed to Read before the failure: %v; lazy=%v, its send before the first receive returned %q)", tag, i, len(o.recv), len(want), complete, call.Lazy, o.sendFirst)
		}
	}
	for k, o := range r.after {
		what := []string{"unary call", "stream"}[k]
		if !o.done {
			return fmt.Sprintf("%s: a %s started after the failure is waiting for a response that can never arrive (write side writable=%v)", tag, what, !c.WriteFails)
		}
		if k == 0 && o.err == nil {
			return fmt.Sprintf("%s: a unary call started after the failure succeeded", tag)
		}
		if k == 1 && o.openErr == nil && (o.end == nil || o.end.EOF) {
			return fmt.Sprintf("%s: a stream started after the failure ended cleanly", tag)
		}
	}
	if c.Window != "" {
		o := r.window
		if !o.done {
			return fmt.Sprintf("%s: a %s call that passed the failure check just before the failure was recorded hangs forever (write side writable=%v)", tag, c.Window, !c.WriteFails)
		}
		if c.Window == "unary" && o.err == nil {
			return fmt.Sprintf("%s: window unary call succeeded without a reply", tag)
		}
		if c.Window == "stream" && o.openErr == nil && (o.end == nil || o.end.EOF) {
			return fmt.Sprintf("%s: window stream ended cleanly", tag)
		}
	}
	return ""
}

func execC09(t *testing.T, c C09Case) (v Verdict) {
	base := runC09(t, c, 1<<30)
	L := base.L
	positions := []int{}
	if c.Pos >= 0 {
		positions = []int{min(c.Pos, L)}
	} else {
		for p := 0; p <= L; p++ {
			positions = append(positions, p)
		}
	}
	var failRun *c09Run
	failPos := -1
	for _, p := range positions {
		r := runC09(t, c, p)
		kit.G().Count("positions", 1)
		if msg := judgeC09(c, p, r); msg != "" {
			v.failf("%s", msg)
			failRun, failPos = r, p
			break
		}
	}
	if v.Fail == "" {
		if msg := judgeC09(c, L+1, base); msg != "" {
			v.failf("%s", msg)
			failRun, failPos = base, L+1
		}
	}
	labels := []string{fmt.Sprintf("write_fails=%v", c.WriteFails), "window=" + c.Window, fmt.Sprintf("calls=%d", len(c.Calls)), "read_error=" + c.ErrKind, fmt.Sprintf("stats=%v", c.Stats)}
	lazy := false
	for _, call := range c.Calls {
		labels = append(labels, "kind="+kit.KindNames[call.Kind])
		lazy = lazy || call.Lazy
	}
	labels = append(labels, fmt.Sprintf("lazy_receiver=%v", lazy))
	v.Info = kit.CaseInfo{Labels: labels, NonTrivial: L >= 2 || c.Window != "" || !c.WriteFails, Key: fmt.Sprintf("%+v", c),
		Sample: map[string]any{"scenario": c, "trace_len": L, "positions": len(positions)}}
	if v.Fail != "" && failRun != nil {
		v.Detail = map[string]any{"position": failPos, "wire": tapSummary(failRun.tap, 60)}
		fc := c
		fc.Pos = failPos
		_ = fc
	}
	return
}

func TestC09(t *testing.T) { checkProp(t, "C09", "main", genC09, execC09) }

// TestC09GiveUp: the family of TestC09 cases in which a caller gives up on its stream (a send that fails) at the very
// moment the connection's read loop gets round to that stream's envelopes: a lazy server stream Y with three or more
// messages comes first in the response script (the read loop parks on it), a lazy stream X that sends before it
// receives comes next, the write side fails. When both callers are released, X's teardown and the delivery of X's
// message and trailer meet. Same executor and oracle as TestC09.
func TestC09GiveUp(t *testing.T) {
	checkProp(t, "C09", "give-up", func(t *rapid.T) C09Case {
		c := C09Case{Ser: rapid.Bool().Draw(t, "ser"), WriteFails: true, ErrKind: rapid.SampledFrom(kit.FaultErrKinds).Draw(t, "err_kind"), Stats: rapid.IntRange(0, 2).Draw(t, "stats") == 0, Pos: -1}
		c.Calls = append(c.Calls, C09Call{Kind: rapid.SampledFrom([]int{kit.KindServer, kit.KindBidi}).Draw(t, "ykind"), Bodies: rapid.IntRange(3, 4).Draw(t, "ybodies"), Lazy: true})
		nx := rapid.IntRange(1, 3).Draw(t, "nx")
		for i := 0; i < nx; i++ {
			c.Calls = append(c.Calls, C09Call{Kind: rapid.SampledFrom([]int{kit.KindClient, kit.KindBidi}).Draw(t, "xkind"), Bodies: 1, Header: rapid.Bool().Draw(t, "xheader"), Lazy: true, SendFirst: true})
		}
		if rapid.Bool().Draw(t, "bystander") {
			c.Calls = append(c.Calls, C09Call{Kind: kit.KindUnary})
		}
		return c // Order empty: the script answers the calls one after the other, Y first
	}, execC09)
}

// ---- C09 storm: calls starting at the very moment the read loop fails (no hook) --------------

type C09Storm struct {
	Callers    int    `json:"callers"`
	Streams    bool   `json:"streams"`
	WriteFails bool   `json:"write_fails"`
	Ser        bool   `json:"ser"`
	ErrKind    string `json:"err_kind,omitempty"`
	Stats      bool   `json:"stats,omitempty"`
	// InFlight: this many unary calls are already in flight on the connection (started, unanswered) when the storm begins
	InFlight int `json:"in_flight,omitempty"`
}

func genC09Storm(t *rapid.T) C09Storm {
	return C09Storm{Callers: rapid.SampledFrom([]int{8, 16, 32, 64}).Draw(t, "callers"), Streams: rapid.Bool().Draw(t, "streams"), WriteFails: rapid.IntRange(0, 3).Draw(t, "wf") == 0, Ser: rapid.Bool().Draw(t, "ser"), ErrKind: rapid.SampledFrom(kit.FaultErrKinds).Draw(t, "err_kind"), Stats: rapid.IntRange(0, 2).Draw(t, "stats") == 0, InFlight: rapid.SampledFrom([]int{0, 0, 0, 0, 40, 300, 600}).Draw(t, "in_flight")}
}

func execC09Storm(t *testing.T, c C09Storm) (v Verdict) {
	returned, succeeded := 0, 0
	var mu sync.Mutex
	res := kit.Bubble(t, func() {
		tp := kit.NewTap()
		l := kit.NewLink("c0", tp, c.Ser)
		l.A.SetFaultErr(kit.FaultErr(c.ErrKind))
		var dopts []goat.DialOption
		if c.Stats {
			dopts = append(dopts, goat.WithStatsHandler(nopStats{}))
		}
		cc := goat.NewClientConn(l.A, "c0", kit.ServerName, dopts...)
		bg := context.Background()
		for i := 0; i < c.InFlight; i++ {
			i := i
			go func() {
				_, err := kit.Invoke(bg, cc, "early", []byte{byte(i)})
				mu.Lock()
				returned++
				if err == nil {
					succeeded++
				}
				mu.Unlock()
			}()
		}
		kit.Settle()
		start := make(chan struct{})
		for i := 0; i < c.Callers; i++ {
			i := i
			go func() {
				<-start
				var err error
				if c.Streams && i%2 == 1 {
					var cs grpcClientStreamIface
					cs, err = cc.NewStream(bg, kit.StreamDescFor(kit.KindBidi), kit.FullMethod("s"))
					if err == nil {
						_, err = kit.RecvBytes(cs)
					}
				} else {
					_, err = kit.Invoke(bg, cc, "u", []byte{byte(i)})
				}
				mu.Lock()
				returned++
				if err == nil {
					succeeded++
				}
				mu.Unlock()
			}()
		}
		kit.Settle()
		// the failure and the call starts happen in the same instant, with no quiescent point in between
		go func() {
			l.A.FailReads(nil)
			if c.WriteFails {
				l.A.FailWrites(nil)
			}
		}()
		close(start)
		kit.Settle()
		mu.Lock()
		r := returned
		mu.Unlock()
		if r != c.Callers+c.InFlight {
			v.failf("%d of %d calls in flight when, or started while, the transport's read failed are still waiting for a response that can never arrive (%d were in flight before; nobody answers on this connection; write side writable=%v)", c.Callers+c.InFlight-r, c.Callers+c.InFlight, c.InFlight, !c.WriteFails)
		}
		l.Close()
		cc.Close()
		kit.Settle()
	})
	if res.Panic != nil {
		v.failf("panic: %v\n%s", res.Panic, res.Stack)
	}
	if succeeded > 0 {
		v.failf("%d calls succeeded although no response was ever sent", succeeded)
	}
	v.Info = kit.CaseInfo{Labels: []string{"storm", fmt.Sprintf("storm.callers=%d", c.Callers), fmt.Sprintf("storm.many_in_flight=%v", c.InFlight >= 300)}, NonTrivial: true, Key: fmt.Sprintf("%+v", c), Sample: c}
	return
}

type grpcClientStreamIface interface {
	RecvMsg(any) error
}

func TestC09Storm(t *testing.T) { checkProp(t, "C09", "storm", genC09Storm, execC09Storm) }

// ---- late readers: responses delivered before the failure, read after it ----------------------
//
// "... every call in flight returns an error (or the exact result, if its complete response had already been
// delivered)". Here the callers do not touch their streams until the connection has failed: a stream whose last envelope
// had arrived must still yield exactly its messages and its status; one whose trailer had not arrived must end in an
// error (after at most the messages that did arrive) - and none may block.

type C09LateStream struct {
	Bodies   int  `json:"bodies"`   // response messages delivered before the failure (0..1 with the trailer, 0..2 without)
	Complete bool `json:"complete"` // the trailer was delivered too
	Code     int  `json:"code"`     // status of that trailer (0 = OK)
}

type C09Late struct {
	Streams    []C09LateStream `json:"streams"`
	WriteFails bool            `json:"write_fails"`
	ErrKind    string          `json:"err_kind"`
	Stats      bool            `json:"stats,omitempty"`
	Ser        bool            `json:"ser"`
}

func genC09Late(t *rapid.T) C09Late {
	c := C09Late{WriteFails: rapid.Bool().Draw(t, "wf"), ErrKind: rapid.SampledFrom(kit.FaultErrKinds).Draw(t, "err_kind"), Stats: rapid.IntRange(0, 2).Draw(t, "stats") == 0, Ser: rapid.Bool().Draw(t, "ser")}
	n := rapid.IntRange(1, 4).Draw(t, "n")
	for i := 0; i < n; i++ {
		// at most two envelopes per stream: the client buffers that many for a caller that is not reading (more would
		// block the connection's dispatch, which is documented head-of-line blocking, not a failure)
		s := C09LateStream{Complete: rapid.Bool().Draw(t, "complete")}
		if s.Complete {
			s.Bodies = rapid.IntRange(0, 1).Draw(t, "bodies")
			s.Code = rapid.SampledFrom([]int{0, 0, 5, 13}).Draw(t, "code")
		} else {
			s.Bodies = rapid.IntRange(0, 2).Draw(t, "bodies")
		}
		c.Streams = append(c.Streams, s)
	}
	return c
}

func execC09Late(t *testing.T, prop string, c C09Late) (v Verdict) {
	defer kit.UseFaultKind(c.ErrKind)()
	n := len(c.Streams)
	type obs struct {
		recv [][]byte
		end  *kit.ErrObs
		done bool
	}
	o := make([]obs, n)
	var mu sync.Mutex
	res := kit.Bubble(t, func() {
		bg := context.Background()
		tp := kit.NewTap()
		l := kit.NewLink("c0", tp, c.Ser)
		var dopts []goat.DialOption
		if c.Stats {
			dopts = append(dopts, goat.WithStatsHandler(nopStats{}))
		}
		cc := goat.NewClientConn(l.A, "c0", kit.ServerName, dopts...)
		read := make(chan struct{})
		for i := range c.Streams {
			i := i
			go func() {
				cs, err := cc.NewStream(bg, kit.StreamDescFor(kit.KindServer), kit.FullMethod(fmt.Sprintf("m%d", i)))
				if err != nil {
					e := kit.Observe(err)
					mu.Lock()
					o[i].end, o[i].done = &e, true
					mu.Unlock()
					return
				}
				_ = kit.SendBytes(cs, []byte("q"))
				_ = cs.CloseSend()
				<-read // the caller gets round to its stream only after the connection has failed
				for k := 0; k < 8; k++ {
					b, err := kit.RecvBytes(cs)
					if err != nil {
						e := kit.Observe(err)
						mu.Lock()
						o[i].end, o[i].done = &e, true
						mu.Unlock()
						return
					}
					mu.Lock()
					o[i].recv = append(o[i].recv, b)
					mu.Unlock()
				}
			}()
			kit.Settle()
		}
		ids := map[string]uint64{}
		for _, rq := range l.B.ReadAvailable() {
			if m := rq.GetHeader().GetMethod(); ids[m] == 0 {
				ids[m] = rq.GetId()
			}
		}
		for i, s := range c.Streams {
			m := kit.FullMethod(fmt.Sprintf("m%d", i))
			for j := 0; j < s.Bodies; j++ {
				e := kit.EnvSpec{Body: &kit.Payload{Class: "lit", Lit: []byte{byte(i), byte(j)}}, Wrap: true}
				_ = l.B.Write(bg, e.Build(ids[m], m, kit.ServerName, "c0"))
				kit.Settle()
			}
			if s.Complete {
				e := kit.EnvSpec{Status: &kit.StatusSpec{Code: int32(s.Code), Msg: "done"}, Trailer: true}
				_ = l.B.Write(bg, e.Build(ids[m], m, kit.ServerName, "c0"))
				kit.Settle()
			}
		}
		l.A.FailReads(nil)
		if c.WriteFails {
			l.A.FailWrites(nil)
		}
		kit.Settle()
		close(read)
		kit.Settle()
		l.Close()
		cc.Close()
		kit.Settle()
	})
	if res.Panic != nil {
		v.failf("panic: %v\n%s", res.Panic, res.Stack)
	}
	mu.Lock()
	defer mu.Unlock()
	completeN := 0
	for i, s := range c.Streams {
		if !o[i].done {
			v.failf("stream %d: the caller's receives never ended although the connection had failed", i)
			continue
		}
		var want [][]byte
		for j := 0; j < s.Bodies; j++ {
			want = append(want, []byte{byte(i), byte(j)})
		}
		if s.Complete {
			completeN++
			if !kit.BytesEq(o[i].recv, want) {
				v.failf("stream %d: its complete response (%d messages and the trailer) had been delivered before the connection failed, the caller got %d messages", i, s.Bodies, len(o[i].recv))
			}
			if s.Code == 0 && !o[i].end.EOF {
				v.failf("stream %d: its complete response with an OK trailer had been delivered before the connection failed, the caller got %q instead of io.EOF", i, o[i].end.Raw)
			}
			if s.Code != 0 && o[i].end.Code != codes.Code(s.Code).String() {
				v.failf("stream %d: its complete response with status %s had been delivered before the connection failed, the caller got %q", i, codes.Code(s.Code), o[i].end.Raw)
			}
			continue
		}
		if o[i].end.EOF {
			v.failf("stream %d: no trailer had arrived when the connection failed, the caller got a clean io.EOF", i)
		}
		if len(o[i].recv) > len(want) {
			v.failf("stream %d: the caller got %d messages, only %d had been sent", i, len(o[i].recv), len(want))
		}
		for k, b := range o[i].recv {
			if !bytes.Equal(b, want[k]) {
				v.failf("stream %d: message %d is not the one that was sent", i, k)
			}
		}
	}
	v.Info = kit.CaseInfo{Labels: []string{"late-readers", fmt.Sprintf("late.some_complete=%v", completeN > 0), "late.read_error=" + c.ErrKind}, NonTrivial: true, Key: fmt.Sprintf("%+v", c), Sample: c}
	return
}

func TestC09Late(t *testing.T) {
	checkProp(t, "C09", "late", genC09Late, func(t *testing.T, c C09Late) Verdict { return execC09Late(t, "C09", c) })
}

// The same scenario is C02's business too: what was delivered completely is delivered exactly.
func TestC02Late(t *testing.T) {
	checkProp(t, "C02", "late", genC09Late, func(t *testing.T, c C09Late) Verdict { return execC09Late(t, "C02", c) })
}
