package props

import (
	"context"
	"fmt"
	"runtime"
	"sync"
	"sync/atomic"
	"testing"
	"time"

	goat "github.com/avos-io/goat"
	"pgregory.net/rapid"
	"verifharness/kit"
)

// ---- C15: data races -----------------------------------------------------------
//
// The workloads of the other properties, compiled with -race and run at several GOMAXPROCS values
// (go test -cpu), with a yield-injecting callback at every verif hook point. The only oracle is the
// race detector: a report whose stacks contain goat frames fails the process (GORACE=halt_on_error=1);
// the other properties' oracles are not evaluated here.

type C15Case struct {
	Family string     `json:"family"`
	Yield  []byte     `json:"yield"`
	C01    *C01Case   `json:"c01,omitempty"`
	Conv   *ConvCase  `json:"conv,omitempty"`
	C07    *C07Case   `json:"c07,omitempty"`
	C09    *C09Case   `json:"c09,omitempty"`
	C10    *C10Case   `json:"c10,omitempty"`
	C11    *C11Case   `json:"c11,omitempty"`
	C16    *C16Case   `json:"c16,omitempty"`
	C17    *C17Case   `json:"c17,omitempty"`
	C18    *C18Case   `json:"c18,omitempty"`
	C20    *C20Case   `json:"c20,omitempty"`
	Storm  *C18Storm  `json:"c18storm,omitempty"`
	Send   *C15Send   `json:"sendstorm,omitempty"`
	Burst  *C16Burst  `json:"c16burst,omitempty"`
	Net    *C01Net    `json:"c01net,omitempty"`
	Duplex *C15Duplex `json:"duplex,omitempty"`
	Conc   *C19Conc   `json:"c19conc,omitempty"`
}

// C15Duplex: handlers that receive in one goroutine and send in another (as the API allows), callers likewise; in the
// middle of the traffic the streams end abruptly: the caller cancels or runs into its deadline, the server is stopped,
// or the server's transport read fails.
type C15Duplex struct {
	Streams int    `json:"streams"`
	End     string `json:"end"`
	Ser     bool   `json:"ser"`
}

func execC15Duplex(t *testing.T, c C15Duplex) (v Verdict) {
	res := kit.Bubble(t, func() {
		svc := kit.NewSvc()
		svc.Stream("d", true, true, func(s grpcServerStream) error {
			done := make(chan struct{})
			go func() {
				defer close(done)
				for k := 0; k < 400; k++ {
					if kit.SendBytes(s, []byte{byte(k)}) != nil {
						return
					}
				}
			}()
			for {
				if _, err := kit.RecvBytes(s); err != nil {
					break
				}
			}
			<-done
			return nil
		})
		w := kit.NewWorld(kit.Topo{Kind: "direct", Serialize: c.Ser, Clients: 1}, svc, nil, nil)
		var wg sync.WaitGroup
		cancels := make([]context.CancelFunc, c.Streams)
		for i := 0; i < c.Streams; i++ {
			i := i
			ctx, cancel := context.WithCancel(context.Background())
			if c.End == "deadline" {
				ctx, cancel = context.WithTimeout(context.Background(), 5*time.Millisecond)
			}
			cancels[i] = cancel
			wg.Add(1)
			go func() {
				defer wg.Done()
				cs, err := w.Conn(0).NewStream(ctx, kit.StreamDescFor(kit.KindBidi), kit.FullMethod("d"))
				if err != nil {
					return
				}
				sdone := make(chan struct{})
				go func() {
					defer close(sdone)
					for k := 0; k < 400; k++ {
						if kit.SendBytes(cs, []byte{byte(k)}) != nil {
							return
						}
					}
				}()
				for {
					if _, err := kit.RecvBytes(cs); err != nil {
						break
					}
				}
				<-sdone
			}()
		}
		for k := 0; k < 200; k++ {
			runtime.Gosched() // traffic flows in both directions meanwhile (no settle: both sides are busy)
		}
		switch c.End {
		case "cancel":
			for _, f := range cancels {
				f()
			}
		case "deadline":
			time.Sleep(10 * time.Millisecond)
		case "stop":
			w.Server.Stop()
		case "readfail":
			w.Links[0].B.FailReads(nil)
		}
		for _, f := range cancels {
			defer f()
		}
		wgDone := make(chan struct{})
		go func() { wg.Wait(); close(wgDone) }()
		select {
		case <-wgDone:
		case <-time.After(time.Hour):
		}
		for _, f := range cancels {
			f()
		}
		w.Shutdown()
		kit.Settle()
	})
	if res.Panic != nil {
		v.failf("panic: %v\n%s", res.Panic, res.Stack)
	}
	v.Info = kit.CaseInfo{Labels: []string{"duplex", "duplex.end=" + c.End}, NonTrivial: true, Key: fmt.Sprintf("%+v", c), Sample: c}
	return
}

// C15Send: streams that keep sending while the connection's write side and read side fail in the same instant.
type C15Send struct {
	Streams int  `json:"streams"`
	Unary   int  `json:"unary"`
	Ser     bool `json:"ser"`
}

func execC15Send(t *testing.T, c C15Send) (v Verdict) {
	res := kit.Bubble(t, func() {
		svc := kit.NewSvc()
		svc.Unary("u", func(ctx context.Context, req []byte) ([]byte, error) { return req, nil })
		svc.Stream("sink", true, true, func(s grpcServerStream) error {
			for {
				if _, err := kit.RecvBytes(s); err != nil {
					return nil
				}
			}
		})
		w := kit.NewWorld(kit.Topo{Kind: "direct", Serialize: c.Ser, Clients: 1}, svc, nil, nil)
		l := w.Links[0]
		stop := make(chan struct{})
		var wg sync.WaitGroup
		for i := 0; i < c.Streams; i++ {
			wg.Add(1)
			go func() {
				defer wg.Done()
				cs, err := w.Conn(0).NewStream(context.Background(), kit.StreamDescFor(kit.KindClient), kit.FullMethod("sink"))
				if err != nil {
					return
				}
				for k := 0; k < 400; k++ {
					select {
					case <-stop:
						return
					default:
					}
					if kit.SendBytes(cs, []byte{byte(k)}) != nil {
						return
					}
				}
			}()
		}
		for i := 0; i < c.Unary; i++ {
			wg.Add(1)
			go func() {
				defer wg.Done()
				for k := 0; k < 400; k++ {
					select {
					case <-stop:
						return
					default:
					}
					if _, err := kit.Invoke(context.Background(), w.Conn(0), "u", []byte{byte(k)}); err != nil {
						return
					}
				}
			}()
		}
		// let them run for a moment of real scheduling, then fail both directions at once
		for k := 0; k < 50; k++ {
			runtime.Gosched()
		}
		go l.A.FailWrites(nil)
		go l.A.FailReads(nil)
		wgDone := make(chan struct{})
		go func() { wg.Wait(); close(wgDone) }()
		kit.Settle()
		close(stop)
		kit.Settle()
		w.Shutdown()
		kit.Settle()
	})
	if res.Panic != nil {
		v.failf("panic: %v\n%s", res.Panic, res.Stack)
	}
	v.Info = kit.CaseInfo{Labels: []string{"sendstorm"}, NonTrivial: true, Key: fmt.Sprintf("%+v", c), Sample: c}
	return
}

var c15Families = []string{"c01", "c02", "c02", "c03", "c04", "c07", "c09", "c10", "c11", "c16", "c16rpc", "c17", "c18", "c18rpc", "c18storm", "c20", "sendstorm", "c16burst", "c01net", "c19conc", "duplex", "duplex"}

func genC15(t *rapid.T) C15Case {
	c := C15Case{Family: rapid.SampledFrom(c15Families).Draw(t, "family"), Yield: rapid.SliceOfN(rapid.Byte(), 1, 16).Draw(t, "yield")}
	switch c.Family {
	case "c01":
		x := genC01(t)
		c.C01 = &x
	case "c02":
		x := genC02(t)
		// the concurrency the API permits: separate sender and receiver goroutines, Header() concurrent with sends
		for i := range x.Convs {
			if x.Convs[i].Kind != kit.KindUnary {
				x.Convs[i].Concurrent = true
			}
		}
		c.Conv = &x
	case "c03":
		x := genC03Base(t)
		c.Conv = &x
	case "c04":
		x := genC04(t)
		// header and trailer calls concurrent with sends, on the handler side too
		for i := range x.Convs {
			if x.Convs[i].Kind != kit.KindUnary && rapid.Bool().Draw(t, "concmd") {
				x.Convs[i].H.ConcurrentMD = true
				x.Convs[i].Concurrent = true
			}
		}
		c.Conv = &x
	case "c07":
		x := genC07(t)
		c.C07 = &x
	case "c09":
		x := genC09(t)
		c.C09 = &x
	case "c10":
		x := genC10(t)
		c.C10 = &x
	case "c11":
		x := genC11(t)
		c.C11 = &x
	case "c16":
		x := genC16(t)
		x.ConcAttach = true // peers attach while traffic is flowing
		c.C16 = &x
	case "c16rpc":
		x := genC16RPC(t)
		c.Conv = &x
	case "c17":
		x := genC17(t)
		c.C17 = &x
	case "c18":
		x := genC18(t)
		c.C18 = &x
	case "c18rpc":
		x := genC18RPC(t)
		c.Conv = &x
	case "c20":
		x := genC20(t)
		c.C20 = &x
	case "c18storm":
		x := genC18Storm(t)
		c.Storm = &x
	case "c16burst":
		x := genC16Burst(t) // more than the proxy's per-destination buffer outstanding: the overflow path runs
		c.Burst = &x
	case "duplex":
		c.Duplex = &C15Duplex{Streams: rapid.IntRange(1, 4).Draw(t, "streams"), End: rapid.SampledFrom([]string{"cancel", "deadline", "stop", "readfail"}).Draw(t, "end"), Ser: rapid.Bool().Draw(t, "ser")}
	case "c01net":
		x := genC01Net(t) // concurrent calls on a ClientConn over the shipped network transports (real sockets, real time)
		c.Net = &x
	case "c19conc":
		x := genC19Conc(t)
		c.Conc = &x
	case "sendstorm":
		c.Send = &C15Send{Streams: rapid.IntRange(1, 8).Draw(t, "streams"), Unary: rapid.IntRange(0, 4).Draw(t, "unary"), Ser: rapid.Bool().Draw(t, "ser")}
	}
	return c
}

func execC15(t *testing.T, c C15Case) (v Verdict) {
	var n atomic.Uint64
	goat.VerifSetHook(func(ctx context.Context, name string) {
		i := n.Add(1)
		if c.Yield[int(i)%len(c.Yield)]&1 == 1 {
			runtime.Gosched()
		}
	})
	defer goat.VerifSetHook(nil)
	var inner Verdict
	switch c.Family {
	case "c01":
		inner = execC01(t, *c.C01)
	case "c02", "c18rpc":
		x := *c.Conv
		x.ArmEnd = false
		inner = execC02(t, x)
	case "c03":
		inner = execC03(t, *c.Conv)
	case "c04":
		inner = execC04(t, *c.Conv)
	case "c07":
		r := runC07(t, *c.C07, int(c.Yield[0])%12)
		_ = r
	case "c09":
		r := runC09(t, *c.C09, int(c.Yield[0])%6)
		_ = r
	case "c10":
		inner = execC10(t, *c.C10)
	case "c11":
		inner = execC11(t, *c.C11)
	case "c16":
		inner = execC16(t, *c.C16)
	case "c16rpc":
		inner = execC02(t, *c.Conv)
	case "c17":
		inner = execC17(t, *c.C17)
	case "c18":
		inner = execC18(t, *c.C18)
	case "c18storm":
		inner = execC18Storm(t, *c.Storm)
	case "c16burst":
		inner = execC15Burst(t, *c.Burst)
	case "duplex":
		inner = execC15Duplex(t, *c.Duplex)
	case "c01net":
		inner = execC01Net(t, *c.Net)
	case "c19conc":
		inner = execC19Conc(t, *c.Conc)
	case "sendstorm":
		inner = execC15Send(t, *c.Send)
	case "c20":
		inner = execC20(t, *c.C20)
	}
	multi := true
	if c.Family == "c01" && len(c.C01.Calls) < 2 {
		multi = false
	}
	v.Info = kit.CaseInfo{Labels: []string{"family=" + c.Family, "gomaxprocs=" + itoa(runtime.GOMAXPROCS(0))}, NonTrivial: multi, Key: c.Family + inner.Info.Key,
		Sample: map[string]any{"family": c.Family, "gomaxprocs": runtime.GOMAXPROCS(0), "workload": inner.Info.Sample}}
	return
}

func itoa(i int) string {
	if i == 0 {
		return "0"
	}
	s := ""
	for i > 0 {
		s = string(rune('0'+i%10)) + s
		i /= 10
	}
	return s
}

func TestC15(t *testing.T) { checkProp(t, "C15", "race", genC15, execC15) }

// execC15Burst: one source floods a destination whose transport is slow (every write to it parks and is released a
// little later by a concurrent goroutine), so that the proxy's overflow path and its write loop run at the same time.
// Only the race detector judges.
func execC15Burst(t *testing.T, c C16Burst) (v Verdict) {
	res := kit.Bubble(t, func() {
		bg := context.Background()
		w := newPxWorld(c.Ser, nil)
		src, dst := w.attach("c0"), w.attach("c1")
		kit.Settle()
		dst.B.Hold(func(*kit.Rpc) bool { return true })
		var wg sync.WaitGroup
		stop := make(chan struct{})
		wg.Add(2)
		go func() {
			defer wg.Done()
			for i := 0; i < 3*c.N; i++ {
				_ = src.A.Write(bg, pxEnv("c0", "c1", 7000+i))
				if i%8 == 7 {
					runtime.Gosched()
				}
			}
		}()
		go func() {
			defer wg.Done()
			for k := 0; k < 4000; k++ {
				select {
				case <-stop:
					return
				default:
				}
				for _, h := range dst.Held() {
					h.Release()
				}
				dst.A.ReadAvailable()
				runtime.Gosched()
			}
		}()
		for k := 0; k < 200; k++ {
			runtime.Gosched()
		}
		kit.Settle()
		close(stop)
		wg.Wait()
		dst.B.Hold(nil)
		for _, h := range dst.Held() {
			h.Release()
		}
		kit.Settle()
		w.cancel()
		src.Close()
		dst.Close()
		kit.Settle()
	})
	if res.Panic != nil {
		v.failf("panic: %v\n%s", res.Panic, res.Stack)
	}
	v.Info = kit.CaseInfo{Labels: []string{"proxy-overflow-storm"}, NonTrivial: true, Key: fmt.Sprintf("%+v", c), Sample: c}
	return
}
