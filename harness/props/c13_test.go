package props

import (
	"bytes"
	"context"
	"fmt"
	"strings"
	"sync"
	"testing"
	"time"

	goat "github.com/avos-io/goat"
	"pgregory.net/rapid"
	"verifharness/kit"
)

// ---- C13: no envelope sequence from a peer can crash a client or leave a call hanging ----

type c13Shape struct {
	Name string
	Env  kit.EnvSpec
}

func c13Alphabet() []c13Shape {
	body := &kit.Payload{Class: "lit", Lit: []byte("data")}
	garbage := &kit.Payload{Class: "lit", Lit: []byte{0xff, 0xff, 0xff, 0x07}}
	okst := &kit.StatusSpec{Code: 0, Msg: "OK"}
	errst := &kit.StatusSpec{Code: 9, Msg: "nope"}
	badMD := []kit.RawKV{{K: "x-bin", V: "!!!not-base64!!!"}}
	return []c13Shape{
		{"reply", kit.EnvSpec{Body: body, Wrap: true, Trailer: true}},
		{"reply-ok-status", kit.EnvSpec{Body: body, Wrap: true, Status: okst, Trailer: true}},
		{"status", kit.EnvSpec{Status: errst, Trailer: true}},
		{"status+body", kit.EnvSpec{Body: body, Wrap: true, Status: errst, Trailer: true}},
		{"no-header", kit.EnvSpec{NoHeader: true, Body: body, Wrap: true, Trailer: true}},
		{"header-badmd", kit.EnvSpec{HdrMD: badMD}},
		{"header-only", kit.EnvSpec{HdrMD: []kit.RawKV{{K: "k", V: "v"}}}},
		{"body", kit.EnvSpec{Body: body, Wrap: true}},
		{"body-garbage", kit.EnvSpec{Body: garbage}},
		{"trailer-ok", kit.EnvSpec{Status: okst, Trailer: true}},
		{"trailer-err", kit.EnvSpec{Status: errst, Trailer: true, TrlMD: []kit.RawKV{{K: "t", V: "v"}}}},
		{"trailer-badmd", kit.EnvSpec{Status: okst, Trailer: true, TrlMD: badMD}},
		{"reset", kit.EnvSpec{Reset: "RST_STREAM", Trailer: true}},
		{"reset+status", kit.EnvSpec{Reset: "RST_STREAM", Status: errst, Trailer: true}},
		{"reset+ok-status", kit.EnvSpec{Reset: "RST_STREAM", Status: okst, Trailer: true}},
		{"reset+ok-status-no-trailer", kit.EnvSpec{Reset: "RST_STREAM", Status: okst}},
		{"empty", kit.EnvSpec{Empty: true}},
		{"request-shaped", kit.EnvSpec{Src: sp("c0"), Dst: sp(kit.ServerName), Body: body, Wrap: true}},
		{"body+trailer", kit.EnvSpec{Body: body, Wrap: true, Status: okst, Trailer: true}},
		{"trailer-no-status", kit.EnvSpec{Trailer: true}},
		{"body-nohdr", kit.EnvSpec{NoHeader: true, Body: body, Wrap: true}},
		{"status-no-trailer", kit.EnvSpec{Status: errst}},
	}
}

type C13Sym struct {
	Shape  int `json:"shape"`
	Target int `json:"target"` // 0 = call A, 1 = call B, 2 = an id nobody uses
}

type C13Case struct {
	KindA       int      `json:"kind_a"`
	KindB       int      `json:"kind_b"`
	Seq         []C13Sym `json:"seq"`
	Stats       bool     `json:"stats"`        // a stats handler is installed
	Deadline    bool     `json:"deadline"`     // callers have a (long) deadline
	HeaderFirst bool     `json:"header_first"` // stream callers call Header() before receiving
	Ser         bool     `json:"ser"`
	// Burst: the whole sequence is written back to back, without waiting for the client to digest each envelope
	Burst bool `json:"burst,omitempty"`
	// Ghost: the "id nobody uses" (target 2) is the id of a third call whose opening write was still parked in the
	// transport when its caller's context ended ("stream" or "unary"); "" = an arbitrary unused number
	Ghost string `json:"ghost,omitempty"`
	// ErrKind: the error value with which the transport fails when the connection is closed at the end (kit.FaultErrKinds)
	ErrKind string `json:"err_kind,omitempty"`
}

func (c C13Case) names() []string {
	al := c13Alphabet()
	var out []string
	for _, s := range c.Seq {
		out = append(out, fmt.Sprintf("%s>%s", al[s.Shape].Name, []string{"A", "B", "unknown"}[s.Target]))
	}
	return out
}

func genC13(t *rapid.T) C13Case {
	al := c13Alphabet()
	c := C13Case{KindA: rapid.SampledFrom(allKinds).Draw(t, "ka"), KindB: rapid.SampledFrom(allKinds).Draw(t, "kb"),
		Stats: rapid.Bool().Draw(t, "stats"), Deadline: rapid.Bool().Draw(t, "deadline"), HeaderFirst: rapid.Bool().Draw(t, "hf"), Ser: rapid.Bool().Draw(t, "ser")}
	c.Burst = rapid.Bool().Draw(t, "burst")
	c.Ghost = rapid.SampledFrom([]string{"", "", "stream", "unary"}).Draw(t, "ghost")
	c.ErrKind = rapid.SampledFrom(kit.FaultErrKinds).Draw(t, "err_kind")
	n := rapid.IntRange(1, 30).Draw(t, "len")
	for i := 0; i < n; i++ {
		// runs of the same envelope matter (they fill the one-slot queues), so repeat the previous symbol with probability 1/3
		if i > 0 && rapid.IntRange(0, 2).Draw(t, "repeat") == 0 {
			c.Seq = append(c.Seq, c.Seq[i-1])
			continue
		}
		c.Seq = append(c.Seq, C13Sym{Shape: rapid.IntRange(0, len(al)-1).Draw(t, "shape"), Target: rapid.SampledFrom([]int{0, 0, 1, 1, 2}).Draw(t, "target")})
	}
	return c
}

// c13Enum: i-th configuration of sequences of exactly length n, crossed with the call kinds and options by index.
func c13Enum(n, i int) C13Case {
	al := len(c13Alphabet()) * 3
	c := C13Case{}
	for k := 0; k < n; k++ {
		d := i % al
		i /= al
		c.Seq = append(c.Seq, C13Sym{Shape: d / 3, Target: d % 3})
	}
	// the remaining index bits choose the configuration
	c.KindA = i % 4
	i /= 4
	c.KindB = i % 4
	i /= 4
	c.Stats = i%2 == 1
	i /= 2
	c.HeaderFirst = i%2 == 1
	i /= 2
	c.Deadline = i%2 == 1
	return c
}

type c13Obs struct {
	done    bool
	uErr    error
	uReply  []byte
	recv    [][]byte
	end     *kit.ErrObs
	openErr error
}

type nopStats struct{}

func (nopStats) TagRPC(ctx context.Context, _ *statsRPCTagInfo) context.Context   { return ctx }
func (nopStats) HandleRPC(context.Context, statsRPCStats)                         {}
func (nopStats) TagConn(ctx context.Context, _ *statsConnTagInfo) context.Context { return ctx }
func (nopStats) HandleConn(context.Context, statsConnStats)                       {}

func execC13(t *testing.T, c C13Case) (v Verdict) {
	defer kit.UseFaultKind(c.ErrKind)()
	al := c13Alphabet()
	obs := []*c13Obs{{}, {}}
	var mu sync.Mutex
	ghostDone := c.Ghost == ""
	var tap []kit.Ev
	kinds := []int{c.KindA, c.KindB}
	res := kit.Bubble(t, func() {
		tp := kit.NewTap()
		l := kit.NewLink("c0", tp, c.Ser)
		var dopts []goat.DialOption
		if c.Stats {
			dopts = append(dopts, goat.WithStatsHandler(nopStats{}))
		}
		cc := goat.NewClientConn(l.A, "c0", kit.ServerName, dopts...)
		ctx := context.Background()
		var cancel context.CancelFunc = func() {}
		if c.Deadline {
			ctx, cancel = context.WithTimeout(ctx, 1000*time.Hour)
		}
		defer cancel()
		for i := 0; i < 2; i++ {
			i := i
			o := obs[i]
			name := fmt.Sprintf("m%d", i)
			go func() {
				defer func() {
					mu.Lock()
					o.done = true
					mu.Unlock()
				}()
				if kinds[i] == kit.KindUnary {
					rep, err := kit.Invoke(ctx, cc, name, []byte("q"))
					mu.Lock()
					o.uReply, o.uErr = rep, err
					mu.Unlock()
					return
				}
				cs, err := cc.NewStream(ctx, kit.StreamDescFor(kinds[i]), kit.FullMethod(name))
				if err != nil {
					mu.Lock()
					o.openErr = err
					mu.Unlock()
					return
				}
				if c.HeaderFirst {
					_, _ = cs.Header()
				}
				for k := 0; k < 1000; k++ {
					b, err := kit.RecvBytes(cs)
					if err != nil {
						e := kit.Observe(err)
						mu.Lock()
						o.end = &e
						mu.Unlock()
						break
					}
					mu.Lock()
					o.recv = append(o.recv, b)
					mu.Unlock()
				}
				_, _ = cs.Header()
				_ = cs.Trailer()
			}()
			kit.Settle() // so that A gets the first id and B the second
		}
		ids := []uint64{0, 0, 424242}
		if c.Ghost != "" {
			l.A.Hold(func(r *kit.Rpc) bool { return r.GetHeader().GetMethod() == kit.FullMethod("m2") })
			gctx, gcancel := context.WithCancel(context.Background())
			go func() {
				defer func() {
					mu.Lock()
					ghostDone = true
					mu.Unlock()
				}()
				if c.Ghost == "unary" {
					_, _ = kit.Invoke(gctx, cc, "m2", []byte("g"))
					return
				}
				if cs, err := cc.NewStream(gctx, kit.StreamDescFor(kit.KindBidi), kit.FullMethod("m2")); err == nil {
					_, _ = kit.RecvBytes(cs)
				}
			}()
			kit.Settle()
			if held := l.Held(); len(held) == 1 {
				ids[2] = held[0].Rpc.GetId()
			}
			gcancel() // the parked opening write fails with the context's error: the call never reached the wire
			kit.Settle()
			l.A.Hold(nil)
		}
		for _, rq := range l.B.ReadAvailable() {
			for i := 0; i < 2; i++ {
				if rq.GetHeader().GetMethod() == kit.FullMethod(fmt.Sprintf("m%d", i)) && ids[i] == 0 {
					ids[i] = rq.GetId()
				}
			}
		}
		for _, s := range c.Seq {
			method := kit.FullMethod("m0")
			if s.Target == 1 {
				method = kit.FullMethod("m1")
			}
			e := al[s.Shape].Env
			_ = l.B.Write(context.Background(), e.Build(ids[s.Target], method, kit.ServerName, "c0"))
			if !c.Burst {
				kit.Settle()
			}
		}
		kit.Settle()
		tap = tp.Snapshot()
		// the connection is closed: every call must now terminate
		l.Close()
		kit.Settle()
		cc.Close()
		kit.Settle()
	})
	if res.Panic != nil {
		v.failf("panic: %v\n%s", res.Panic, res.Stack)
	}
	mu.Lock()
	defer mu.Unlock()
	if !ghostDone {
		v.failf("the call whose opening write failed with its context has not terminated")
	}
	for i := 0; i < 2; i++ {
		o := obs[i]
		who := []string{"A", "B"}[i]
		if !o.done {
			v.failf("call %s (%s) has not terminated although the connection was closed", who, kit.KindNames[kinds[i]])
			continue
		}
		// what did the peer address to this call?
		var bodies [][]byte
		okTrailerBeforeReset := false
		sawReset := false
		for _, s := range c.Seq {
			if s.Target != i {
				continue
			}
			e := al[s.Shape].Env
			if e.Body != nil && e.Wrap {
				bodies = append(bodies, e.Body.Bytes())
			}
			if e.Reset != "" {
				sawReset = true
			}
			if e.Trailer && e.Reset == "" && (e.Status == nil || e.Status.Code == 0) && !sawReset {
				okTrailerBeforeReset = true
			}
		}
		if kinds[i] == kit.KindUnary {
			if o.uErr == nil {
				found := false
				for _, b := range bodies {
					if bytes.Equal(b, o.uReply) {
						found = true
					}
				}
				if !found {
					v.failf("unary call %s reported success with data %q that no envelope addressed to it carried", who, o.uReply)
				}
			}
			continue
		}
		if o.openErr != nil {
			continue
		}
		if len(o.recv) > len(bodies) {
			v.failf("stream %s returned %d messages from %d body envelopes addressed to it", who, len(o.recv), len(bodies))
		}
		// in-order subsequence
		k := 0
		for _, got := range o.recv {
			for k < len(bodies) && !bytes.Equal(bodies[k], got) {
				k++
			}
			if k == len(bodies) {
				v.failf("stream %s returned a message (%q) that the envelopes addressed to it did not carry in that order", who, got)
				break
			}
			k++
		}
		if o.end == nil {
			v.failf("stream %s: receive loop did not end", who)
		} else if o.end.EOF && !okTrailerBeforeReset {
			v.failf("stream %s ended in io.EOF without a trailer with OK/absent status addressed to it (or after a reset)", who)
		}
	}
	lenClass := "len>4"
	if len(c.Seq) <= 4 {
		lenClass = fmt.Sprintf("len=%d", len(c.Seq))
	}
	hits := 0
	for _, s := range c.Seq {
		if s.Target < 2 {
			hits++
		}
	}
	v.Info = kit.CaseInfo{Labels: []string{lenClass, "A=" + kit.KindNames[c.KindA], "B=" + kit.KindNames[c.KindB], fmt.Sprintf("stats=%v", c.Stats), fmt.Sprintf("burst=%v", c.Burst), fmt.Sprintf("ghost_id=%v", c.Ghost != "")},
		NonTrivial: hits >= 1, Key: fmt.Sprintf("%+v", c), Sample: map[string]any{"calls": []string{kit.KindNames[c.KindA], kit.KindNames[c.KindB]}, "sequence": c.names(), "stats": c.Stats}}
	if v.Fail != "" {
		v.Detail = map[string]any{"sequence": c.names(), "wire": tapSummary(tap, 100)}
	}
	return
}

func TestC13(t *testing.T) { checkProp(t, "C13", "random", genC13, execC13) }

// TestC13Enum: all sequences of length<=2 (x configuration sample) in quick; <=3 in thorough; samples one longer.
func TestC13Enum(t *testing.T) {
	al := len(c13Alphabet()) * 3
	full, sampled, stride := 2, 3, 30
	if thorough() {
		full, sampled, stride = 3, 4, 40
	}
	seed := 0
	fmt.Sscanf(getenv("VERIF_SEED", "1"), "%d", &seed)
	for n := 1; n <= full; n++ {
		total := 1
		for k := 0; k < n; k++ {
			total *= al
		}
		n := n
		// every sequence, each under a configuration (call kinds, stats, header-first, deadline) that rotates with the index
		enumProp(t, "C13", fmt.Sprintf("enum%d", n), total, func(i int) C13Case {
			cfg := (i*7 + seed) % 128
			return c13Enum(n, i+cfg*total)
		}, execC13)
		if t.Failed() {
			return
		}
	}
	kit.G().MarkExhaustive(fmt.Sprintf("all response sequences of length<=%d over %d symbols (each under one of 128 rotating call configurations)", full, al))
	total := 1
	for k := 0; k < sampled; k++ {
		total *= al
	}
	enumProp(t, "C13", fmt.Sprintf("sample%d", sampled), total/stride, func(i int) C13Case {
		j := (i*stride + seed) % total
		return c13Enum(sampled, j+((i*13+seed)%128)*total)
	}, execC13)
}

// FuzzC13: coverage-guided search over response sequences; byte 0 selects the configuration, then (shape, target) pairs.
func FuzzC13(f *testing.F) {
	f.Add([]byte{0, 0, 0, 7, 1, 9, 1})
	f.Add([]byte{0x5b, 5, 0, 11, 1, 12, 0, 0, 0})
	f.Add([]byte{0xff, 1, 0, 1, 0, 4, 0, 14, 2})
	f.Fuzz(func(t *testing.T, data []byte) {
		if len(data) < 3 {
			return
		}
		al := len(c13Alphabet())
		cfg := int(data[0])
		c := C13Case{KindA: cfg % 4, KindB: (cfg / 4) % 4, Stats: (cfg/16)%2 == 1, HeaderFirst: (cfg/32)%2 == 1, Deadline: (cfg/64)%2 == 1, Ser: (cfg/128)%2 == 1, Burst: len(data)%2 == 0}
		for i := 1; i+1 < len(data) && i < 80; i += 2 {
			c.Seq = append(c.Seq, C13Sym{Shape: int(data[i]) % al, Target: int(data[i+1]) % 3})
		}
		journal("C13", "random", c)
		if v := execC13(t, c); v.Fail != "" {
			writeReplay("C13", "random", v.Fail, c, v.Detail)
			t.Fatalf("VERIF-FAIL C13/fuzz: %s", v.Fail)
		}
	})
}

// ---- C13 twins: calls that start at the same instant, then the connection closes ------------------------------

// C13Twins: 2..6 calls (unary and streaming) pass the point where a call takes its id within nanoseconds of each other
// (spin barrier at the verif hook points); the scripted peer answers the ids it saw with a reply or nothing; then the
// connection is closed. "Once the connection is closed every call it issued has terminated with a result or an error."
type C13Twins struct {
	Kinds  []int `json:"kinds"`
	Answer bool  `json:"answer"` // the peer answers every id it saw once (unary reply / trailer) before the close
	Ser    bool  `json:"ser"`
	Rounds int   `json:"rounds"`
}

func genC13Twins(t *rapid.T) C13Twins {
	return C13Twins{Kinds: rapid.SliceOfN(rapid.SampledFrom([]int{kit.KindUnary, kit.KindBidi}), 2, 6).Draw(t, "kinds"), Answer: rapid.Bool().Draw(t, "answer"), Ser: rapid.Bool().Draw(t, "ser"), Rounds: rapid.IntRange(1, 4).Draw(t, "rounds")}
}

func execC13Twins(t *testing.T, c C13Twins) (v Verdict) {
	n := len(c.Kinds)
	for r := 0; r < c.Rounds && v.Fail == ""; r++ {
		done := make([]bool, n)
		var mu sync.Mutex
		res := kit.Bubble(t, func() {
			defer spinBarrier([]string{"mux.unary.beforeRegister", "mux.stream.beforeRegister"}, n, n)()
			l := kit.NewLink("c0", kit.NewTap(), c.Ser)
			cc := goat.NewClientConn(l.A, "c0", kit.ServerName)
			bg := context.Background()
			for i, k := range c.Kinds {
				i, k := i, k
				go func() {
					defer func() {
						mu.Lock()
						done[i] = true
						mu.Unlock()
					}()
					if k == kit.KindUnary {
						_, _ = kit.Invoke(bg, cc, "u", []byte{byte(i)})
						return
					}
					cs, err := cc.NewStream(bg, kit.StreamDescFor(kit.KindBidi), kit.FullMethod("s"))
					if err != nil {
						return
					}
					for {
						if _, err := kit.RecvBytes(cs); err != nil {
							return
						}
					}
				}()
			}
			kit.Settle()
			if c.Answer {
				seen := map[uint64]bool{}
				for _, rq := range l.B.ReadAvailable() {
					if seen[rq.GetId()] {
						continue
					}
					seen[rq.GetId()] = true
					e := kit.EnvSpec{Status: &kit.StatusSpec{Code: 0, Msg: "OK"}, Trailer: true}
					if rq.GetBody() != nil {
						e = kit.EnvSpec{Body: &kit.Payload{Class: "lit", Lit: []byte("r")}, Wrap: true, Trailer: true}
					}
					_ = l.B.Write(bg, e.Build(rq.GetId(), rq.GetHeader().GetMethod(), kit.ServerName, "c0"))
				}
				kit.Settle()
			}
			l.Close()
			cc.Close()
			kit.Settle()
		})
		if res.Panic != nil && !strings.Contains(fmt.Sprint(res.Panic), "deadlock") {
			v.failf("panic: %v\n%s", res.Panic, res.Stack)
		}
		mu.Lock()
		for i, d := range done {
			if !d {
				v.failf("call %d (%s), one of %d started at the same instant, has not terminated although the connection was closed (round %d)", i, kit.KindNames[c.Kinds[i]], n, r)
				break
			}
		}
		mu.Unlock()
	}
	v.Info = kit.CaseInfo{Labels: []string{"twins", fmt.Sprintf("twins.calls=%d", n)}, NonTrivial: true, Key: fmt.Sprintf("%+v", c), Sample: c}
	return
}

func TestC13Twins(t *testing.T) { checkProp(t, "C13", "twins", genC13Twins, execC13Twins) }

// ---- C13 lazy: envelopes that were addressed to a call before its caller looked, then the caller goes away --------

// C13Lazy: the scripted peer sends Bodies messages (and possibly the trailer) for a streaming call whose caller has not
// called Recv yet; the caller's context then ends (cancel or deadline) and only afterwards does the caller receive, a
// few times. Whatever each receive returns, "a call reports success only with data that the envelopes addressed to it
// carried": a message the peer sent, in order - or an error.
type C13Lazy struct {
	Kind     int  `json:"kind"`
	Bodies   int  `json:"bodies"`
	Trailer  bool `json:"trailer"`
	Deadline bool `json:"deadline"`
	Ser      bool `json:"ser"`
	Stats    bool `json:"stats"`
}

func genC13Lazy(t *rapid.T) C13Lazy {
	return C13Lazy{Kind: rapid.SampledFrom([]int{kit.KindServer, kit.KindBidi}).Draw(t, "kind"), Bodies: rapid.IntRange(0, 4).Draw(t, "bodies"), Trailer: rapid.Bool().Draw(t, "trailer"), Deadline: rapid.Bool().Draw(t, "deadline"), Ser: rapid.Bool().Draw(t, "ser"), Stats: rapid.IntRange(0, 2).Draw(t, "stats") == 0}
}

func execC13Lazy(t *testing.T, c C13Lazy) (v Verdict) {
	type rres struct {
		data []byte
		err  error
	}
	var results []rres
	res := kit.Bubble(t, func() {
		l := kit.NewLink("c0", kit.NewTap(), c.Ser)
		var dopts []goat.DialOption
		if c.Stats {
			dopts = append(dopts, goat.WithStatsHandler(nopStats{}))
		}
		cc := goat.NewClientConn(l.A, "c0", kit.ServerName, dopts...)
		bg := context.Background()
		ctx, cancel := context.WithCancel(bg)
		if c.Deadline {
			ctx, cancel = context.WithTimeout(bg, 50*time.Millisecond)
		}
		defer cancel()
		cs, err := cc.NewStream(ctx, kit.StreamDescFor(c.Kind), kit.FullMethod("s"))
		if err != nil {
			v.failf("open: %v", err)
			return
		}
		if c.Kind == kit.KindServer {
			_ = kit.SendBytes(cs, []byte("rq"))
			_ = cs.CloseSend()
		}
		kit.Settle()
		var id uint64
		for _, rq := range l.B.ReadAvailable() {
			id = rq.GetId()
		}
		for b := 0; b < c.Bodies; b++ {
			e := kit.EnvSpec{Body: &kit.Payload{Class: "lit", Lit: []byte{0xB1, byte(b)}}, Wrap: true}
			_ = l.B.Write(bg, e.Build(id, kit.FullMethod("s"), kit.ServerName, "c0"))
			kit.Settle()
		}
		if c.Trailer {
			e := kit.EnvSpec{Status: &kit.StatusSpec{Code: 0, Msg: "OK"}, Trailer: true}
			_ = l.B.Write(bg, e.Build(id, kit.FullMethod("s"), kit.ServerName, "c0"))
			kit.Settle()
		}
		if c.Deadline {
			time.Sleep(60 * time.Millisecond)
		} else {
			cancel()
		}
		kit.Settle()
		for k := 0; k < c.Bodies+3; k++ {
			b, err := kit.RecvBytes(cs)
			results = append(results, rres{append([]byte{}, b...), err})
		}
		l.Close()
		cc.Close()
		kit.Settle()
	})
	if res.Panic != nil {
		v.failf("panic: %v\n%s", res.Panic, res.Stack)
	}
	next := 0
	for k, r := range results {
		if r.err != nil {
			continue
		}
		if next >= c.Bodies || !bytes.Equal(r.data, []byte{0xB1, byte(next)}) {
			v.failf("receive #%d after the caller's context had ended reported success with data %v: not the next of the %d messages the peer had sent (%d were returned before)", k+1, r.data, c.Bodies, next)
			break
		}
		next++
	}
	v.Info = kit.CaseInfo{Labels: []string{"lazy-then-gone", fmt.Sprintf("lazy.unread=%d", c.Bodies)}, NonTrivial: c.Bodies >= 1, Key: fmt.Sprintf("%+v", c), Sample: c}
	return
}

func TestC13Lazy(t *testing.T) { checkProp(t, "C13", "lazy-then-gone", genC13Lazy, execC13Lazy) }
