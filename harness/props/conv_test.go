package props

import (
	"bytes"
	"context"
	"encoding/json"
	"fmt"
	"sync"
	"testing"
	"time"

	goat "github.com/avos-io/goat"
	"google.golang.org/grpc"
	"pgregory.net/rapid"
	"verifharness/kit"
)

// ConvCase is the shared case type of the RPC-level properties (C02-C04, C06, C20, ...).
type ConvCase struct {
	Topo  kit.Topo   `json:"topo"`
	Convs []kit.Conv `json:"convs"`
	GateA bool       `json:"gate_a"`
	GateB bool       `json:"gate_b"`
	Tape  []byte     `json:"tape"`
	// ArmEnd places every caller's end-observing receive inside the window
	// between RecvMsg's done-check and its select (hook client.RecvMsg.afterDoneCheck).
	ArmEnd bool `json:"arm_end,omitempty"`
	// Intercept installs pass-through unary and stream interceptors on the server and the client.
	Intercept bool `json:"intercept,omitempty"`
	// Stats installs a (do-nothing) stats handler on the server and on every client connection.
	Stats bool `json:"stats,omitempty"`
	// TickMs: virtual time that passes at every quiescent point of the schedule, so that timers inside goat fire
	TickMs int `json:"tick_ms,omitempty"`
	// DeadCalls: calls made beforehand on every connection with an already cancelled context
	DeadCalls int `json:"dead_calls,omitempty"`
}

func (c ConvCase) key() string {
	b, _ := json.Marshal(c)
	return string(b)
}

func genConvCase(t *rapid.T, maxConvs int, kinds []int, o kit.GenOpts, topoKinds []string) ConvCase {
	c := ConvCase{}
	c.Topo = kit.Topo{Kind: rapid.SampledFrom(topoKinds).Draw(t, "topo"), Serialize: rapid.Bool().Draw(t, "ser"), Clients: 1}
	if c.Topo.Kind == "proxy" {
		c.Topo.Alias = rapid.Bool().Draw(t, "alias")
	}
	if rapid.IntRange(0, 3).Draw(t, "multi") == 0 {
		c.Topo.Clients = rapid.IntRange(2, 3).Draw(t, "clients")
	}
	o.Clients = c.Topo.Clients
	if c.Topo.Kind == "proxy" {
		// stay below the proxy's 16-slot per-destination buffer (C16 known finding)
		if maxConvs > 3 {
			maxConvs = 3
		}
		if o.MaxMsgs > 3 {
			o.MaxMsgs = 3
		}
	}
	c.Convs = kit.GenConvs(t, maxConvs, kinds, o)
	c.GateA = rapid.Bool().Draw(t, "gate_a")
	c.GateB = rapid.Bool().Draw(t, "gate_b")
	c.Intercept = rapid.IntRange(0, 3).Draw(t, "intercept") == 0
	c.Stats = rapid.IntRange(0, 3).Draw(t, "stats") == 0
	c.TickMs = rapid.SampledFrom([]int{0, 0, 0, 1, 20, 2000}).Draw(t, "tick_ms")
	c.DeadCalls = rapid.SampledFrom([]int{0, 0, 0, 1, 2}).Draw(t, "dead_calls")
	if c.GateA || c.GateB {
		c.Tape = rapid.SliceOfN(rapid.Byte(), 0, 64).Draw(t, "tape")
	}
	return c
}

func (c ConvCase) opts() kit.RunOpts {
	o := kit.RunOpts{Topo: c.Topo, GateA: c.GateA, GateB: c.GateB, Tape: c.Tape, Tick: time.Duration(c.TickMs) * time.Millisecond, DeadCalls: c.DeadCalls}
	if c.Stats {
		o.SOpts = append(o.SOpts, goat.StatsHandler(nopStats{}))
		o.DOpts = append(o.DOpts, goat.WithStatsHandler(nopStats{}))
	}
	if c.Intercept {
		o.SOpts = append(o.SOpts,
			goat.UnaryInterceptor(func(ctx context.Context, req any, _ *grpc.UnaryServerInfo, h grpc.UnaryHandler) (any, error) {
				return h(ctx, req)
			}),
			goat.StreamInterceptor(func(srv any, ss grpc.ServerStream, _ *grpc.StreamServerInfo, h grpc.StreamHandler) error {
				return h(srv, ss)
			}),
		)
		o.DOpts = append(o.DOpts,
			goat.WithUnaryInterceptor(func(ctx context.Context, m string, req, reply any, cc *grpc.ClientConn, inv grpc.UnaryInvoker, opts ...grpc.CallOption) error {
				return inv(ctx, m, req, reply, cc, opts...)
			}),
			goat.WithStreamInterceptor(func(ctx context.Context, d *grpc.StreamDesc, cc *grpc.ClientConn, m string, st grpc.Streamer, opts ...grpc.CallOption) (grpc.ClientStream, error) {
				return st(ctx, d, cc, m, opts...)
			}),
		)
	}
	return o
}

// convLabels computes the common labels of a conv case.
func convLabels(c ConvCase, tap []kit.Ev) (labels []string, interleaved bool, maxMsgs int, concurrent bool) {
	labels = append(labels, fmt.Sprintf("proxy_rewrites_address=%v", c.Topo.Alias), "topo="+c.Topo.Kind, fmt.Sprintf("ser=%v", c.Topo.Serialize), fmt.Sprintf("gated=%v", c.GateA || c.GateB), fmt.Sprintf("intercept=%v", c.Intercept), fmt.Sprintf("stats=%v", c.Stats), fmt.Sprintf("time_passes=%v", c.TickMs > 0), fmt.Sprintf("dead_calls_before=%v", c.DeadCalls > 0))
	nstreams := 0
	for _, cv := range c.Convs {
		labels = append(labels, "kind="+kit.KindNames[cv.Kind])
		if cv.Kind != kit.KindUnary {
			nstreams++
			ns, nr := 0, 0
			for _, o := range cv.COps {
				if o.Op == "send" {
					ns++
				}
			}
			for _, o := range cv.H.Ops {
				if o.Op == "send" {
					nr++
				}
			}
			if ns > maxMsgs {
				maxMsgs = ns
			}
			if nr > maxMsgs {
				maxMsgs = nr
			}
			if cv.Concurrent {
				concurrent = true
			}
		}
	}
	switch {
	case len(c.Convs) == 1:
		labels = append(labels, "convs=1")
	case len(c.Convs) <= 4:
		labels = append(labels, "convs=2-4")
	case len(c.Convs) <= 8:
		labels = append(labels, "convs=5-8")
	default:
		labels = append(labels, "convs=9+")
	}
	// interleaved: on some connection, envelopes of one id are separated by another id's
	last := map[string]uint64{}
	closed := map[string]map[uint64]bool{}
	for _, e := range tap {
		k := fmt.Sprintf("%s/%d", e.Conn, e.Dir)
		id := e.Rpc.GetId()
		if closed[k] == nil {
			closed[k] = map[uint64]bool{}
		}
		if l, ok := last[k]; ok && l != id {
			closed[k][l] = true
		}
		if closed[k][id] {
			interleaved = true
		}
		last[k] = id
	}
	labels = append(labels, fmt.Sprintf("interleaved=%v", interleaved), fmt.Sprintf("concurrent=%v", concurrent))
	if maxMsgs >= 11 {
		labels = append(labels, "msgs>=11")
	}
	return
}

func convSample(c ConvCase) any {
	type brief struct {
		Kind  string   `json:"kind"`
		COps  []string `json:"caller"`
		HOps  []string `json:"handler"`
		Ret   string   `json:"ret"`
		Split bool     `json:"split,omitempty"`
	}
	var bs []brief
	for i, cv := range c.Convs {
		if i >= 3 {
			break
		}
		b := brief{Kind: kit.KindNames[cv.Kind], Ret: cv.H.Ret.Kind, Split: cv.Concurrent}
		if cv.Kind == kit.KindUnary {
			b.Ret = cv.UErr.Kind
			b.COps = []string{"invoke " + cv.Req.String()}
		}
		for j, o := range cv.COps {
			if j >= 12 {
				b.COps = append(b.COps, "…")
				break
			}
			b.COps = append(b.COps, o.Op)
		}
		for j, o := range cv.H.Ops {
			if j >= 12 {
				b.HOps = append(b.HOps, "…")
				break
			}
			b.HOps = append(b.HOps, o.Op)
		}
		bs = append(bs, b)
	}
	return map[string]any{"topo": c.Topo.String(), "convs": len(c.Convs), "first": bs, "gate_a": c.GateA, "gate_b": c.GateB}
}

func convDetail(outs []*kit.ConvOut, tap []kit.Ev, sched *kit.Sched) any {
	d := map[string]any{"wire": tapSummary(tap, 300)}
	if sched != nil {
		d["schedule"] = headStr(sched.Trace, 100)
	}
	var hs []any
	for _, o := range outs {
		hs = append(hs, map[string]any{"name": o.Name, "id": o.ID, "caller": o.C, "handler": o.H, "unary_err": o.UErr, "unary_done": o.UDone})
	}
	d["histories"] = hs
	return d
}

var streamKinds = []int{kit.KindClient, kit.KindServer, kit.KindBidi}
var allKinds = []int{kit.KindUnary, kit.KindClient, kit.KindServer, kit.KindBidi}

// ---- C02 ------------------------------------------------------------------

func genC02(t *rapid.T) ConvCase {
	kinds := []int{kit.KindClient, kit.KindServer, kit.KindBidi, kit.KindBidi, kit.KindBidi, kit.KindUnary}
	c := genConvCase(t, 32, kinds, kit.GenOpts{MaxMsgs: 200, MaxPayload: 65536, OKBias: 75}, []string{"direct", "direct", "direct", "demux", "proxy"})
	c.ArmEnd = rapid.IntRange(0, 3).Draw(t, "arm_end") == 0
	return c
}

type convIdxKey struct{}

// armEndWindow installs the hook that parks a caller's RecvMsg, once it has
// received everything the handler sends, between the done-check and the select
// until the stream's context is done (i.e. until teardown has run).
func armEndWindow(c ConvCase, o *kit.RunOpts) (outsRef *[]*kit.ConvOut, cleanup func()) {
	var outs []*kit.ConvOut
	expect := make([]int, len(c.Convs))
	for i := range c.Convs {
		expect[i] = len(handlerSendPayloads(&c.Convs[i]))
	}
	o.Ctx = func(i int, ctx context.Context) context.Context { return context.WithValue(ctx, convIdxKey{}, i) }
	o.Setup = func(w *kit.World, s *kit.Sched) {}
	goat.VerifSetHook(func(ctx context.Context, name string) {
		if name != "client.RecvMsg.afterDoneCheck" {
			return
		}
		i, ok := ctx.Value(convIdxKey{}).(int)
		if !ok || outs == nil || i >= len(outs) {
			return
		}
		if len(outs[i].C.Snapshot().Recv) >= expect[i] {
			<-ctx.Done()
		}
	})
	return &outs, func() { goat.VerifSetHook(nil) }
}

func execC02(t *testing.T, c ConvCase) (v Verdict) {
	o := c.opts()
	if c.ArmEnd {
		ref, cleanup := armEndWindow(c, &o)
		defer cleanup()
		o.Setup = func(w *kit.World, s *kit.Sched) {}
		o.OnOuts = func(outs []*kit.ConvOut) { *ref = outs }
	}
	outs, tap, res, sched := kit.RunConvs(t, c.Convs, o)
	if res.Panic != nil {
		v.failf("panic: %v\n%s", res.Panic, res.Stack)
	}
	for _, o := range outs {
		var msg string
		if o.Conv.Kind == kit.KindUnary {
			msg = oracleUnary(o)
		} else {
			msg = oracleDelivery(o)
		}
		if msg != "" {
			v.failf("%s", msg)
		}
	}
	labels, inter, maxMsgs, conc := convLabels(c, tap)
	labels = append(labels, fmt.Sprintf("arm_end=%v", c.ArmEnd))
	v.Info = kit.CaseInfo{Labels: labels, NonTrivial: inter || maxMsgs >= 11 || conc || c.ArmEnd, Key: c.key(), Sample: convSample(c)}
	if v.Fail != "" {
		v.Detail = convDetail(outs, tap, sched)
	}
	return
}

func TestC02(t *testing.T) { checkProp(t, "C02", "main", genC02, execC02) }

// The trailer-vs-reset scenario of C03 with a handler that returns success: the caller must see io.EOF.
func TestC02Race(t *testing.T) {
	checkProp(t, "C02", "race", func(t *rapid.T) C03Race {
		c := genC03Race(t)
		c.Ret = kit.ErrSpec{Kind: "nil"}
		return c
	}, execC03Race)
}

// ---- C02 write fault: one transport write of a stream message fails while the connection stays healthy ----

type C02Fault struct {
	// ErrKind: the error value the failing transport returns (kit.FaultErrKinds)
	ErrKind string `json:"err_kind,omitempty"`
	Kind    int    `json:"kind"`   // client or bidi
	N       int    `json:"n"`      // messages the caller tries to send
	FailJ   int    `json:"fail_j"` // index of the message whose transport write fails
	Ser     bool   `json:"ser"`
}

func genC02Fault(t *rapid.T) C02Fault {
	c := C02Fault{Kind: rapid.SampledFrom([]int{kit.KindClient, kit.KindBidi}).Draw(t, "kind"), N: rapid.IntRange(1, 8).Draw(t, "n"), Ser: rapid.Bool().Draw(t, "ser")}
	c.ErrKind = rapid.SampledFrom(kit.FaultErrKinds).Draw(t, "err_kind")
	c.FailJ = rapid.IntRange(0, c.N-1).Draw(t, "fail_j")
	return c
}

func execC02Fault(t *testing.T, c C02Fault) (v Verdict) {
	defer kit.UseFaultKind(c.ErrKind)()
	var got [][]byte
	var sendErrs []error
	var end *kit.ErrObs
	res := kit.Bubble(t, func() {
		svc := kit.NewSvc()
		svc.Stream("s", true, true, func(s grpcServerStream) error {
			for {
				b, err := kit.RecvBytes(s)
				if err != nil {
					return nil
				}
				got = append(got, b)
			}
		})
		w := kit.NewWorld(kit.Topo{Kind: "direct", Serialize: c.Ser, Clients: 1}, svc, nil, nil)
		marker := []byte{0xFA, byte(c.FailJ), 0x17}
		w.Links[0].A.FailWriteIf(func(r *kit.Rpc) bool { return bytes.Equal(unwrapBytes(r.GetBody().GetData()), marker) })
		cs, err := w.Conn(0).NewStream(context.Background(), kit.StreamDescFor(c.Kind), kit.FullMethod("s"))
		if err != nil {
			v.failf("open: %v", err)
			return
		}
		for i := 0; i < c.N; i++ {
			msg := []byte{0xFA, byte(i), 0x17}
			sendErrs = append(sendErrs, kit.SendBytes(cs, msg))
			kit.Settle()
		}
		_ = cs.CloseSend()
		done := make(chan struct{})
		go func() {
			defer close(done)
			for {
				if _, err := kit.RecvBytes(cs); err != nil {
					e := kit.Observe(err)
					end = &e
					return
				}
			}
		}()
		kit.Settle()
		w.Shutdown()
		kit.Settle()
	})
	if res.Panic != nil {
		v.failf("panic: %v", res.Panic)
	}
	// every message whose SendMsg reported success must have reached the handler, in order; the one whose
	// transport write failed must not be reported as sent
	var okSent [][]byte
	for i, e := range sendErrs {
		if e == nil {
			okSent = append(okSent, []byte{0xFA, byte(i), 0x17})
		}
	}
	if len(sendErrs) > c.FailJ && sendErrs[c.FailJ] == nil {
		v.failf("the transport write of message #%d failed but SendMsg reported success", c.FailJ)
	}
	if !kit.BytesEq(got, okSent) {
		v.failf("handler received %v, the caller's successful sends were %v", digests(got), digests(okSent))
	}
	if end != nil && end.EOF && len(got) < len(sendErrs) && v.Fail == "" {
		// a clean end with messages missing is only acceptable if the caller was told that those sends failed
		for i := len(got); i < len(sendErrs); i++ {
			if sendErrs[i] == nil {
				v.failf("stream ended in io.EOF although message #%d was reported sent and never arrived", i)
			}
		}
	}
	v.Info = kit.CaseInfo{Labels: []string{"writefault", "kind=" + kit.KindNames[c.Kind]}, NonTrivial: true, Key: fmt.Sprintf("%+v", c), Sample: c}
	return
}

func TestC02Fault(t *testing.T) { checkProp(t, "C02", "writefault", genC02Fault, execC02Fault) }

// ---- C02 burst: many streams opened in the same instant ------------------------------------

type C02Burst struct {
	Streams int  `json:"streams"` // opened in the same scheduler step
	Msgs    int  `json:"msgs"`    // messages each caller sends (and expects echoed)
	Rounds  int  `json:"rounds"`
	Ser     bool `json:"ser"`
	Spin    int  `json:"spin,omitempty"` // >0: spin barrier of this group size at the id-allocation hook point
}

func genC02Burst(t *rapid.T) C02Burst {
	return C02Burst{Streams: rapid.SampledFrom([]int{2, 8, 32, 64, 64}).Draw(t, "streams"), Msgs: rapid.IntRange(1, 4).Draw(t, "msgs"), Rounds: rapid.IntRange(1, 3).Draw(t, "rounds"), Ser: rapid.Bool().Draw(t, "ser"), Spin: rapid.SampledFrom([]int{0, 2, 4, 8}).Draw(t, "spin")}
}

// execC02Burst: every stream must get exactly the echoes of its own messages, in order, then io.EOF, and every
// handler instance must see the messages of exactly one caller - also when all streams are opened at the same instant.
func execC02Burst(t *testing.T, c C02Burst) (v Verdict) {
	type obs struct {
		got [][]byte
		end *kit.ErrObs
	}
	total := c.Streams * c.Rounds
	o := make([]obs, total)
	var mu sync.Mutex
	var handlerSaw [][][]byte
	res := kit.Bubble(t, func() {
		svc := kit.NewSvc()
		svc.Stream("e", true, true, func(s grpcServerStream) error {
			var mine [][]byte
			defer func() {
				mu.Lock()
				handlerSaw = append(handlerSaw, mine)
				mu.Unlock()
			}()
			for {
				b, err := kit.RecvBytes(s)
				if err != nil {
					return nil
				}
				mine = append(mine, b)
				if err := kit.SendBytes(s, b); err != nil {
					return err
				}
			}
		})
		w := kit.NewWorld(kit.Topo{Kind: "direct", Serialize: c.Ser, Clients: 1}, svc, nil, nil)
		for r := 0; r < c.Rounds; r++ {
			if c.Spin > 0 {
				defer spinBarrier([]string{"mux.stream.beforeRegister"}, c.Streams, c.Spin)()
			}
			start := make(chan struct{})
			var wg sync.WaitGroup
			for i := 0; i < c.Streams; i++ {
				idx := r*c.Streams + i
				wg.Add(1)
				go func() {
					defer wg.Done()
					<-start
					cs, err := w.Conn(0).NewStream(context.Background(), kit.StreamDescFor(kit.KindBidi), kit.FullMethod("e"))
					if err != nil {
						e := kit.Observe(err)
						o[idx].end = &e
						return
					}
					for j := 0; j < c.Msgs; j++ {
						_ = kit.SendBytes(cs, []byte{0xB2, byte(idx >> 8), byte(idx), byte(j)})
					}
					_ = cs.CloseSend()
					for {
						b, err := kit.RecvBytes(cs)
						if err != nil {
							e := kit.Observe(err)
							o[idx].end = &e
							return
						}
						o[idx].got = append(o[idx].got, b)
					}
				}()
			}
			kit.Settle()
			close(start)
			wg.Wait()
		}
		w.Shutdown()
		kit.Settle()
	})
	if res.Panic != nil {
		v.failf("panic: %v\n%s", res.Panic, res.Stack)
	}
	for idx := range o {
		var want [][]byte
		for j := 0; j < c.Msgs; j++ {
			want = append(want, []byte{0xB2, byte(idx >> 8), byte(idx), byte(j)})
		}
		if !kit.BytesEq(o[idx].got, want) {
			v.failf("stream %d (one of %d opened in the same instant) received %v, want the echoes of its own %d messages in order", idx, c.Streams, digests(o[idx].got), c.Msgs)
		}
		if o[idx].end == nil || !o[idx].end.EOF {
			v.failf("stream %d did not end in io.EOF: %+v", idx, o[idx].end)
		}
	}
	mu.Lock()
	if len(handlerSaw) != total {
		v.failf("%d handler runs for %d streams", len(handlerSaw), total)
	}
	for _, mine := range handlerSaw {
		for _, b := range mine {
			if len(b) != 4 || len(mine[0]) != 4 || b[1] != mine[0][1] || b[2] != mine[0][2] {
				v.failf("one handler instance received messages of more than one caller, or an invented message: %v", digests(mine))
			}
		}
		if len(mine) != c.Msgs {
			v.failf("a handler instance received %d messages, its caller sent %d", len(mine), c.Msgs)
		}
	}
	mu.Unlock()
	v.Info = kit.CaseInfo{Labels: []string{fmt.Sprintf("burst.streams=%d", c.Streams), fmt.Sprintf("burst.spin_barrier=%v", c.Spin > 0)}, NonTrivial: c.Streams >= 8, Key: fmt.Sprintf("%+v", c), Sample: c}
	return
}

func TestC02Burst(t *testing.T) { checkProp(t, "C02", "burst", genC02Burst, execC02Burst) }

// ---- C02 other connection's Serve context: what happens to one connection must not reach another --------------

// C02OtherCtx: one Server serves 2..3 connections, each through its own Serve call with its own context. A ping-pong
// stream runs on connection 0. Between two of its messages the context that was passed to Serve for ANOTHER connection
// is cancelled (the application gave up on that peer). The stream on connection 0 must still deliver every message in
// order and end with io.EOF; a connection attached to the same Server afterwards must work as well.
type C02OtherCtx struct {
	Conns    int  `json:"conns"`
	Msgs     int  `json:"msgs"`
	CancelAt int  `json:"cancel_at"` // after this many round trips
	Ser      bool `json:"ser"`
	Stats    bool `json:"stats,omitempty"`
}

func genC02OtherCtx(t *rapid.T) C02OtherCtx {
	c := C02OtherCtx{Conns: rapid.IntRange(2, 3).Draw(t, "conns"), Msgs: rapid.IntRange(1, 6).Draw(t, "msgs"), Ser: rapid.Bool().Draw(t, "ser"), Stats: rapid.IntRange(0, 3).Draw(t, "stats") == 0}
	c.CancelAt = rapid.IntRange(0, c.Msgs).Draw(t, "cancel_at")
	return c
}

func execC02OtherCtx(t *testing.T, c C02OtherCtx) (v Verdict) {
	var got [][]byte
	var end *kit.ErrObs
	var lateReply []byte
	var lateErr error
	res := kit.Bubble(t, func() {
		svc := kit.NewSvc()
		svc.Unary("u", func(ctx context.Context, req []byte) ([]byte, error) { return req, nil })
		svc.Stream("pp", true, true, func(s grpcServerStream) error {
			for {
				b, err := kit.RecvBytes(s)
				if err != nil {
					return nil
				}
				if err := kit.SendBytes(s, append([]byte("pp:"), b...)); err != nil {
					return err
				}
			}
		})
		w := kit.NewWorld(kit.Topo{Kind: "direct", Serialize: c.Ser, Clients: c.Conns, Stats: c.Stats}, svc, nil, nil)
		ctx, cancel := context.WithTimeout(context.Background(), time.Hour)
		defer cancel()
		cs, err := w.Conn(0).NewStream(ctx, kit.StreamDescFor(kit.KindBidi), kit.FullMethod("pp"))
		if err != nil {
			v.failf("open: %v", err)
			return
		}
		for k := 0; k <= c.Msgs; k++ {
			if k == c.CancelAt {
				kit.Settle()
				w.CancelServeCtxOf(kit.ClientName(c.Conns - 1)) // the application gives up on another peer
				kit.Settle()
			}
			if k == c.Msgs {
				break
			}
			if err := kit.SendBytes(cs, []byte{byte(k)}); err != nil {
				v.failf("send %d on connection 0 failed after the Serve context of connection %d had been cancelled: %v", k, c.Conns-1, err)
				return
			}
			b, err := kit.RecvBytes(cs)
			if err != nil {
				e := kit.Observe(err)
				end = &e
				break
			}
			got = append(got, b)
		}
		if end == nil {
			_ = cs.CloseSend()
			_, err := kit.RecvBytes(cs)
			e := kit.Observe(err)
			end = &e
		}
		// a connection that joins the same Server afterwards
		late := kit.NewLink("late", w.Tap, c.Ser)
		go func() { _ = w.Server.Serve(context.Background(), late.B) }()
		lcc := goat.NewClientConn(late.A, "late", kit.ServerName)
		lateReply, lateErr = kit.Invoke(ctx, lcc, "u", []byte("late"))
		late.Close()
		lcc.Close()
		w.Shutdown()
		kit.Settle()
	})
	if res.Panic != nil {
		v.failf("panic: %v\n%s", res.Panic, res.Stack)
	}
	for k, b := range got {
		if !bytes.Equal(b, []byte{'p', 'p', ':', byte(k)}) {
			v.failf("stream on connection 0: reply %d is %v", k, b)
		}
	}
	if end == nil || !end.EOF || len(got) != c.Msgs {
		raw := "(none)"
		if end != nil {
			raw = end.Raw
		}
		v.failf("stream on connection 0 got %d of %d replies and ended with %q after the Serve context of connection %d (another connection of the same Server) was cancelled; want all of them and io.EOF", len(got), c.Msgs, raw, c.Conns-1)
	}
	if lateErr != nil || !bytes.Equal(lateReply, []byte("late")) {
		v.failf("a connection served by the same Server afterwards does not work: %v", lateErr)
	}
	v.Info = kit.CaseInfo{Labels: []string{"other-serve-ctx", fmt.Sprintf("otherctx.mid_stream=%v", c.CancelAt > 0 && c.CancelAt < c.Msgs)}, NonTrivial: c.Msgs >= 2, Key: fmt.Sprintf("%+v", c), Sample: c}
	return
}

func TestC02OtherCtx(t *testing.T) {
	checkProp(t, "C02", "other-serve-ctx", genC02OtherCtx, execC02OtherCtx)
}
