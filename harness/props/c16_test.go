package props

import (
	"bytes"
	"context"
	"encoding/json"
	"fmt"
	"os"
	"sort"
	"strings"
	"sync"
	"testing"
	"time"

	goat "github.com/avos-io/goat"
	"github.com/avos-io/goat/gen/goatorepo"
	"google.golang.org/protobuf/proto"
	"pgregory.net/rapid"
	"verifharness/kit"
)

// ---- known findings ----------------------------------------------------------

var knownOnce sync.Once
var knownSet map[string]bool

// isKnown reports whether (property, key) is listed with status "known" in known_findings.json.
func isKnown(prop, key string) bool {
	knownOnce.Do(func() {
		knownSet = map[string]bool{}
		data, err := os.ReadFile(getenv("VERIF_KNOWN", "/verif/known_findings.json"))
		if err != nil {
			return
		}
		var doc struct {
			Findings []struct {
				Property, Key, Status string
			}
		}
		if json.Unmarshal(data, &doc) == nil {
			for _, f := range doc.Findings {
				if f.Status == "known" {
					knownSet[f.Property+"/"+f.Key] = true
				}
			}
		}
	})
	return knownSet[prop+"/"+key]
}

// ---- proxy world ---------------------------------------------------------------

// pxWorld is a proxy with scripted peers (each peer is the far end of a Link).
type pxWorld struct {
	Tap         *kit.Tap
	Proxy       *goat.Proxy
	cancel      context.CancelFunc
	mu          sync.Mutex
	peers       map[string]*kit.Link // by peer name; end A is the peer's, end B the proxy's
	gen         map[string]int       // how many connections a name has had
	dialable    map[string]bool
	dialErr     map[string]bool
	dials       []string
	disconnects []string
	ser         bool
	served      chan struct{}
	// slowDial, if set, makes a dial of "tarpit" block until it is closed, and then fail.
	slowDial chan struct{}
	// deaf: names whose proxy-side Read ignores its context (a transport that only returns when data arrives or it fails)
	deaf map[string]bool
	// blockGate, if set, parks the address-rewriting callback for destination "block" until closed
	blockGate chan struct{}
	// onDisconnect, if set, runs inside the proxy's disconnect callback (after the bookkeeping)
	onDisconnect func(id string)
}

func newPxWorld(ser bool, rewrite goat.RpcIntercepter) *pxWorld {
	w := &pxWorld{Tap: kit.NewTap(), peers: map[string]*kit.Link{}, gen: map[string]int{}, dialable: map[string]bool{}, dialErr: map[string]bool{}, ser: ser, served: make(chan struct{})}
	ctx, cancel := context.WithCancel(context.Background())
	w.cancel = cancel
	w.Proxy = goat.NewProxy(ctx, "px",
		func(id string) (goat.RpcReadWriter, error) {
			w.mu.Lock()
			sd := w.slowDial
			w.mu.Unlock()
			if strings.HasPrefix(id, "tarpit") && sd != nil {
				<-sd
				return nil, fmt.Errorf("dial of %q failed after a long time", id)
			}
			w.mu.Lock()
			defer w.mu.Unlock()
			w.dials = append(w.dials, id)
			if !w.dialable[id] || w.dialErr[id] {
				return nil, fmt.Errorf("cannot dial %q", id)
			}
			l := w.newLinkLocked(id)
			return l.B, nil
		},
		rewrite,
		func(id string, reason error) {
			w.mu.Lock()
			w.disconnects = append(w.disconnects, id)
			f := w.onDisconnect
			w.mu.Unlock()
			if f != nil {
				f(id)
			}
		})
	go func() {
		w.Proxy.Serve()
		close(w.served)
	}()
	return w
}

func (w *pxWorld) newLinkLocked(name string) *kit.Link {
	w.gen[name]++
	l := kit.NewLink(fmt.Sprintf("%s.%d", name, w.gen[name]), w.Tap, w.ser)
	l.B.IgnoreReadCtx = w.deaf[name]
	w.peers[name] = l
	return l
}

// attach pre-attaches a peer and returns its link.
func (w *pxWorld) attach(name string) *kit.Link {
	w.mu.Lock()
	l := w.newLinkLocked(name)
	w.mu.Unlock()
	w.Proxy.AddClient(name, l.B)
	return l
}

func (w *pxWorld) link(name string) *kit.Link {
	w.mu.Lock()
	defer w.mu.Unlock()
	return w.peers[name]
}

// ---- C16 envelope level ----------------------------------------------------------

type C16Env struct {
	From string   `json:"from"`
	To   string   `json:"to"`
	Next []string `json:"next,omitempty"` // return route (last element is the next hop)
	Rec  []string `json:"rec,omitempty"`  // route record so far
	Tok  int      `json:"tok"`
	// Spec, if set, supplies everything but the routing fields: status, body, trailer, reset, header metadata, method
	Spec *RpcSpec `json:"spec,omitempty"`
	// Bad: the envelope is one the proxy must not forward: "nohdr" = no header at all, "foreign" = a source that is not
	// the sending connection's name. It is dropped - and must leave the sender's own routing untouched.
	Bad string `json:"bad,omitempty"`
}

type C16Case struct {
	Clients int      `json:"clients"` // attached c0..
	Servers int      `json:"servers"` // s0.. ; the first PreAtt are pre-attached, the rest dial-on-demand
	PreAtt  int      `json:"pre_att"`
	Rewrite string   `json:"rewrite"` // none | alias | badalias | errsrc
	Envs    []C16Env `json:"envs"`
	Batch   int      `json:"batch"` // settle after this many envelopes (<=12)
	Ser     bool     `json:"ser"`
	// ConcAttach: further peers attach from another goroutine while envelopes are flowing (race workloads)
	ConcAttach bool `json:"conc_attach,omitempty"`
	// LateAt >= 0: the last server cannot be dialled until envelope number LateAt has been sent (dials before that fail);
	// such cases settle after every envelope so that each failed dial is fully processed
	LateAt int `json:"late_at"`
	// ReattachAt >= 0: before envelope number ReattachAt, client c0 attaches again under its name (its old connection
	// stays up, merely superseded); from then on everything for c0 must reach the new connection and nothing the old one
	ReattachAt int `json:"reattach_at"`
}

func genC16(t *rapid.T) C16Case {
	c := C16Case{Clients: rapid.IntRange(1, 8).Draw(t, "clients"), Servers: rapid.IntRange(1, 4).Draw(t, "servers"), Ser: rapid.Bool().Draw(t, "ser")}
	c.PreAtt = rapid.IntRange(0, c.Servers).Draw(t, "preatt")
	c.Rewrite = rapid.SampledFrom([]string{"none", "none", "alias", "badalias", "errsrc"}).Draw(t, "rewrite")
	c.Batch = rapid.IntRange(1, 12).Draw(t, "batch")
	c.LateAt = -1
	if c.PreAtt < c.Servers && rapid.IntRange(0, 3).Draw(t, "late") == 0 {
		c.LateAt = rapid.IntRange(0, 20).Draw(t, "late_at")
		c.Batch = 1
	}
	var names []string
	for i := 0; i < c.Clients; i++ {
		names = append(names, fmt.Sprintf("c%d", i))
	}
	var dests []string
	dests = append(dests, names...)
	for i := 0; i < c.Servers; i++ {
		dests = append(dests, fmt.Sprintf("s%d", i))
		names = append(names, fmt.Sprintf("s%d", i)) // servers can send too, once they are connected
	}
	dests = append(dests, "ghost", "alias", "badalias")
	n := rapid.IntRange(1, 40).Draw(t, "nenvs")
	for i := 0; i < n; i++ {
		e := C16Env{From: rapid.SampledFrom(names[:c.Clients+c.PreAtt]).Draw(t, "from"), To: rapid.SampledFrom(dests).Draw(t, "to"), Tok: i}
		if strings.HasPrefix(e.From, "s") {
			// only pre-attached servers can originate before anyone dialled them
			k := 0
			fmt.Sscanf(e.From, "s%d", &k)
			if k >= c.PreAtt {
				e.From = "c0"
			}
		}
		if rapid.IntRange(0, 4).Draw(t, "route") == 0 {
			e.Next = []string{rapid.SampledFrom(dests[:c.Clients+c.Servers]).Draw(t, "hop")}
			if rapid.Bool().Draw(t, "twohops") {
				e.Next = append([]string{"far"}, e.Next...)
			}
		}
		if rapid.IntRange(0, 4).Draw(t, "rec") == 0 {
			e.Rec = []string{"upstream"}
		}
		if rapid.Bool().Draw(t, "full") {
			sp := genRpcSpec(t, 512, true)
			e.Spec = &sp
		}
		if rapid.IntRange(0, 7).Draw(t, "bad") == 0 {
			e.Bad = rapid.SampledFrom([]string{"nohdr", "foreign"}).Draw(t, "bad_kind")
		}
		c.Envs = append(c.Envs, e)
	}
	c.ReattachAt = -1
	if rapid.IntRange(0, 3).Draw(t, "reattach") == 0 {
		c.ReattachAt = rapid.IntRange(0, n).Draw(t, "reattach_at")
	}
	return c
}

// modelProxy computes, per destination peer, the envelopes it must receive, in order per (source,destination).
type pxDelivery struct {
	to   string
	from string
	tok  int
	rec  []string
	next []string
	dst  string // header destination after rewriting
}

func (c C16Case) model() []pxDelivery {
	attached := map[string]bool{}
	for i := 0; i < c.Clients; i++ {
		attached[fmt.Sprintf("c%d", i)] = true
	}
	for i := 0; i < c.Servers; i++ {
		attached[fmt.Sprintf("s%d", i)] = true // pre-attached or dialable: reachable either way
	}
	var out []pxDelivery
	for _, e := range c.Envs {
		if e.Bad != "" {
			continue // never forwarded
		}
		dst := e.To
		switch c.Rewrite {
		case "alias":
			if dst == "alias" {
				dst = "s0"
			}
		case "badalias":
			if dst == "badalias" {
				dst = "ghost"
			}
		case "errsrc":
			if e.From == "c1" {
				continue // interceptor error: dropped
			}
		}
		rec := append(append([]string{}, e.Rec...), "px")
		hop := dst
		next := e.Next
		if len(next) > 0 {
			hop = next[len(next)-1]
			next = next[:len(next)-1]
		}
		if !attached[hop] {
			continue // unknown peer: dial fails, envelope lost with it
		}
		if c.LateAt >= 0 && hop == fmt.Sprintf("s%d", c.Servers-1) && e.Tok < c.LateAt {
			continue // not reachable yet: this dial fails too
		}
		out = append(out, pxDelivery{to: hop, from: e.From, tok: e.Tok, rec: rec, next: append([]string{}, next...), dst: dst})
	}
	return out
}

func c16Build(e C16Env) *kit.Rpc {
	if e.Bad != "" {
		good := e
		good.Bad = ""
		r := c16Build(good)
		if e.Bad == "nohdr" {
			r.Header = nil
		} else {
			r.Header.Source = "intruder"
		}
		return r
	}
	if e.Spec != nil {
		r := e.Spec.Build()
		r.Id = uint64(1000 + e.Tok)
		r.Header.Source, r.Header.Destination, r.Header.ProxyNext, r.Header.ProxyRecord = e.From, e.To, e.Next, e.Rec
		return r
	}
	return &kit.Rpc{Id: uint64(1000 + e.Tok), Header: &goatorepo.RequestHeader{Method: "/x/y", Source: e.From, Destination: e.To, ProxyNext: e.Next, ProxyRecord: e.Rec,
		Headers: []*goatorepo.KeyValue{{Key: "tok", Value: fmt.Sprint(e.Tok)}}}, Body: &goatorepo.Body{Data: []byte{byte(e.Tok), 0x16}}}
}

func execC16(t *testing.T, c C16Case) (v Verdict) {
	got := map[string][]*kit.Rpc{}
	drops0 := goat.VerifCounter("proxy.drop")
	var drops int64
	strayOld := 0
	res := kit.Bubble(t, func() {
		var rewrite goat.RpcIntercepter
		switch c.Rewrite {
		case "alias":
			rewrite = func(h *goatorepo.RequestHeader) error {
				if h.Destination == "alias" {
					h.Destination = "s0"
				}
				return nil
			}
		case "badalias":
			rewrite = func(h *goatorepo.RequestHeader) error {
				if h.Destination == "badalias" {
					h.Destination = "ghost"
				}
				return nil
			}
		case "errsrc":
			rewrite = func(h *goatorepo.RequestHeader) error {
				if h.Source == "c1" {
					return fmt.Errorf("refused")
				}
				return nil
			}
		}
		w := newPxWorld(c.Ser, rewrite)
		for i := 0; i < c.Clients; i++ {
			w.attach(fmt.Sprintf("c%d", i))
		}
		for i := 0; i < c.Servers; i++ {
			if i < c.PreAtt {
				w.attach(fmt.Sprintf("s%d", i))
			} else {
				w.dialable[fmt.Sprintf("s%d", i)] = true
				if c.LateAt >= 0 && i == c.Servers-1 {
					w.dialErr[fmt.Sprintf("s%d", i)] = true
				}
			}
		}
		kit.Settle()
		collect := func() {
			w.mu.Lock()
			names := make([]string, 0, len(w.peers))
			for n := range w.peers {
				names = append(names, n)
			}
			w.mu.Unlock()
			for _, n := range names {
				got[n] = append(got[n], w.link(n).A.ReadAvailable()...)
			}
		}
		attached := make(chan struct{})
		if c.ConcAttach {
			go func() {
				defer close(attached)
				for i := 0; i < 4; i++ {
					w.attach(fmt.Sprintf("late%d", i))
				}
			}()
		} else {
			close(attached)
		}
		var superseded *kit.Link
		for i, e := range c.Envs {
			if c.ReattachAt >= 0 && i == c.ReattachAt {
				kit.Settle()
				collect()
				superseded = w.link("c0")
				w.attach("c0") // c0 connects again under its name; the old connection is not told
				kit.Settle()
			}
			if c.LateAt >= 0 && i == c.LateAt {
				w.mu.Lock()
				delete(w.dialErr, fmt.Sprintf("s%d", c.Servers-1)) // the peer comes up
				w.mu.Unlock()
			}
			l := w.link(e.From)
			if l == nil {
				continue // a sender that is only reachable by dialling and has not been dialled yet cannot originate
			}
			_ = l.A.Write(context.Background(), c16Build(e))
			if (i+1)%c.Batch == 0 {
				kit.Settle()
				collect()
			}
		}
		kit.Settle()
		<-attached
		collect()
		if superseded != nil {
			if stray := superseded.A.ReadAvailable(); len(stray) > 0 {
				strayOld = len(stray)
			}
			superseded.Close()
		}
		drops = goat.VerifCounter("proxy.drop") - drops0
		w.cancel()
		w.mu.Lock()
		for _, l := range w.peers {
			l.Close()
		}
		w.mu.Unlock()
		kit.Settle()
	})
	if res.Panic != nil {
		v.failf("panic: %v\n%s", res.Panic, res.Stack)
	}
	if strayOld > 0 {
		v.failf("%d envelopes for c0 were written to the connection that c0 had replaced by attaching again", strayOld)
	}
	if drops != 0 {
		v.failf("proxy dropped %d envelopes although at most %d were outstanding per destination", drops, c.Batch)
	}
	want := c.model()
	// per peer, per source: sequences must match exactly; across sources any interleaving is fine
	type key struct{ to, from string }
	wantSeq := map[key][]pxDelivery{}
	for _, d := range want {
		wantSeq[key{d.to, d.from}] = append(wantSeq[key{d.to, d.from}], d)
	}
	gotSeq := map[key][]*kit.Rpc{}
	for to, rs := range got {
		for _, r := range rs {
			k := key{to, r.GetHeader().GetSource()}
			gotSeq[k] = append(gotSeq[k], r)
		}
	}
	for k, ws := range wantSeq {
		gs := gotSeq[k]
		if len(gs) != len(ws) {
			v.failf("peer %s received %d envelopes from %s, the routing model says %d (lost, duplicated or misrouted)", k.to, len(gs), k.from, len(ws))
			continue
		}
		for i, d := range ws {
			g := gs[i]
			e := c.Envs[d.tok]
			if g.GetId() != uint64(1000+d.tok) {
				v.failf("peer %s, from %s: envelope #%d has id %d, want %d (order not preserved)", k.to, k.from, i, g.GetId(), 1000+d.tok)
				break
			}
			h := g.GetHeader()
			if strings.Join(h.GetProxyRecord(), ",") != strings.Join(d.rec, ",") {
				v.failf("tok %d: route record %v, want %v (own name appended exactly once)", d.tok, h.GetProxyRecord(), d.rec)
			}
			if strings.Join(h.GetProxyNext(), ",") != strings.Join(d.next, ",") {
				v.failf("tok %d: return route %v, want %v", d.tok, h.GetProxyNext(), d.next)
			}
			if h.GetDestination() != d.dst {
				v.failf("tok %d: header destination %q, want %q", d.tok, h.GetDestination(), d.dst)
			}
			// unchanged except for the routing fields
			orig := c16Build(e)
			norm := proto.Clone(g).(*kit.Rpc)
			norm.Header.Destination, norm.Header.ProxyNext, norm.Header.ProxyRecord = orig.Header.Destination, orig.Header.ProxyNext, orig.Header.ProxyRecord
			if !proto.Equal(norm, orig) {
				v.failf("tok %d: envelope changed in transit beyond its routing fields:\n got  %s\n sent %s", d.tok, truncStr(norm.String()), truncStr(orig.String()))
			}
		}
	}
	for k, gs := range gotSeq {
		if len(wantSeq[k]) == 0 && len(gs) > 0 {
			v.failf("peer %s received %d envelopes from %s that the routing model does not deliver there", k.to, len(gs), k.from)
		}
	}
	multi := map[string]map[string]bool{}
	for _, d := range want {
		if multi[d.to] == nil {
			multi[d.to] = map[string]bool{}
		}
		multi[d.to][d.from] = true
	}
	nbad := 0
	for _, e := range c.Envs {
		if e.Bad != "" {
			nbad++
		}
	}
	nt := c.Rewrite != "none" || c.PreAtt < c.Servers
	for _, m := range multi {
		if len(m) >= 2 {
			nt = true
		}
	}
	v.Info = kit.CaseInfo{Labels: []string{"rewrite=" + c.Rewrite, fmt.Sprintf("dial_on_demand=%v", c.PreAtt < c.Servers), fmt.Sprintf("batch<=%d", c.Batch), fmt.Sprintf("late_dialable=%v", c.LateAt >= 0), fmt.Sprintf("reattach=%v", c.ReattachAt >= 0), fmt.Sprintf("refused_envelopes=%v", nbad > 0)}, NonTrivial: nt,
		Key: fmt.Sprintf("%+v", c), Sample: map[string]any{"clients": c.Clients, "servers": c.Servers, "pre_attached": c.PreAtt, "rewrite": c.Rewrite, "envelopes": len(c.Envs), "first": c.Envs[0]}}
	return
}

func TestC16(t *testing.T) { checkProp(t, "C16", "envelopes", genC16, execC16) }

// ---- C16 RPC level: the C01-C04 generators through clients -> proxy -> Demux -> Serve ----

func genC16RPC(t *rapid.T) ConvCase {
	var c ConvCase
	switch rapid.IntRange(0, 3).Draw(t, "family") {
	case 0:
		c = genConvCase(t, 3, []int{kit.KindUnary}, kit.GenOpts{MaxPayload: 65536, OKBias: 80}, []string{"proxy"})
	case 1:
		c = genConvCase(t, 3, streamKinds, kit.GenOpts{MaxMsgs: 3, MaxPayload: 4096, OKBias: 75}, []string{"proxy"})
	case 2:
		c = genConvCase(t, 3, allKinds, kit.GenOpts{MaxMsgs: 3, MaxPayload: 256, OKBias: 25, WithMD: true}, []string{"proxy"})
	default:
		c = genConvCase(t, 3, allKinds, kit.GenOpts{MaxMsgs: 3, MaxPayload: 64, OKBias: 70, WithMD: true}, []string{"proxy"})
	}
	c.Topo.Clients = rapid.IntRange(1, 4).Draw(t, "pclients")
	for i := range c.Convs {
		c.Convs[i].Client = rapid.IntRange(0, c.Topo.Clients-1).Draw(t, "pclient")
	}
	return c
}

func execC16RPC(t *testing.T, c ConvCase) (v Verdict) {
	drops0 := goat.VerifCounter("proxy.drop")
	v = execC02(t, c) // delivery + unary exactness
	if v.Fail == "" {
		v3 := execC03(t, c) // status fidelity on the same case
		if v3.Fail != "" {
			v.Fail = v3.Fail
			v.Detail = v3.Detail
		}
	}
	if d := goat.VerifCounter("proxy.drop") - drops0; d != 0 && v.Fail == "" {
		v.failf("proxy dropped %d envelopes in a workload that keeps at most 12 outstanding per destination", d)
	}
	v.Info.Labels = append(v.Info.Labels, fmt.Sprintf("proxy_clients=%d", c.Topo.Clients))
	v.Info.NonTrivial = v.Info.NonTrivial || c.Topo.Clients >= 2
	return
}

func TestC16RPC(t *testing.T) { checkProp(t, "C16", "rpc", genC16RPC, execC16RPC) }

// ---- C16 burst: more than the per-destination buffer outstanding ---------------------

type C16Burst struct {
	N   int  `json:"n"` // envelopes sent to one slow destination (17..60)
	Ser bool `json:"ser"`
	RPC bool `json:"rpc"` // a server stream of N messages to a slow caller instead of bare envelopes
}

func genC16Burst(t *rapid.T) C16Burst {
	return C16Burst{N: rapid.IntRange(17, 60).Draw(t, "n"), Ser: rapid.Bool().Draw(t, "ser"), RPC: rapid.Bool().Draw(t, "rpc")}
}

func execC16Burst(t *testing.T, c C16Burst) (v Verdict) {
	drops0 := goat.VerifCounter("proxy.drop")
	var drops int64
	var ids []uint64
	var recvN int
	var recvEnd *kit.ErrObs
	res := kit.Bubble(t, func() {
		if !c.RPC {
			w := newPxWorld(c.Ser, nil)
			src := w.attach("c0")
			dst := w.attach("s0")
			// the destination is slow: the proxy's writes to it are parked
			dst.B.Hold(func(*kit.Rpc) bool { return true })
			for i := 0; i < c.N; i++ {
				_ = src.A.Write(context.Background(), c16Build(C16Env{From: "c0", To: "s0", Tok: i}))
			}
			kit.Settle()
			dst.ReleaseAll()
			kit.Settle()
			for _, r := range dst.A.ReadAvailable() {
				ids = append(ids, r.GetId())
			}
			drops = goat.VerifCounter("proxy.drop") - drops0
			w.cancel()
			src.Close()
			dst.Close()
			kit.Settle()
			return
		}
		// RPC level: a server stream of N messages relayed to a caller whose link is slow
		svc := kit.NewSvc()
		svc.Stream("burst", false, true, func(s grpcServerStream) error {
			if _, err := kit.RecvBytes(s); err != nil {
				return err
			}
			for i := 0; i < c.N; i++ {
				if err := kit.SendBytes(s, []byte{byte(i)}); err != nil {
					return err
				}
			}
			return nil
		})
		w := kit.NewWorld(kit.Topo{Kind: "proxy", Serialize: c.Ser, Clients: 1}, svc, nil, nil)
		l := w.Links[0]
		cs, err := w.Conn(0).NewStream(context.Background(), kit.StreamDescFor(kit.KindServer), kit.FullMethod("burst"))
		if err != nil {
			v.failf("open: %v", err)
			return
		}
		l.B.Hold(func(*kit.Rpc) bool { return true }) // proxy -> caller writes are parked
		_ = kit.SendBytes(cs, []byte("go"))
		_ = cs.CloseSend()
		kit.Settle()
		l.ReleaseAll()
		done := make(chan struct{})
		go func() {
			defer close(done)
			for {
				b, err := kit.RecvBytes(cs)
				if err != nil {
					e := kit.Observe(err)
					recvEnd = &e
					return
				}
				if len(b) == 1 && int(b[0]) == recvN {
					recvN++
				} else {
					recvN = -1000 // out of order / duplicate
				}
			}
		}()
		kit.Settle()
		drops = goat.VerifCounter("proxy.drop") - drops0
		w.Shutdown()
		kit.Settle()
	})
	if res.Panic != nil {
		v.failf("panic: %v\n%s", res.Panic, res.Stack)
	}
	lost := 0
	if !c.RPC {
		// what arrived must be an in-order subsequence without duplicates
		last := uint64(0)
		for _, id := range ids {
			if id <= last {
				v.failf("burst: envelopes duplicated or reordered (%d after %d)", id, last)
			}
			last = id
		}
		lost = c.N - len(ids)
	} else {
		if recvN < 0 {
			v.failf("burst stream: messages duplicated or reordered")
		}
		if recvEnd != nil && recvEnd.EOF && recvN >= 0 && recvN < c.N {
			lost = c.N - recvN
		}
	}
	if v.Fail == "" && lost > 0 {
		if int64(lost) == drops || (c.RPC && drops > 0) {
			msg := fmt.Sprintf("%d of %d envelopes to one slow destination were silently dropped by the proxy's full 16-slot buffer (drop counter %d)", lost, c.N, drops)
			if c.RPC {
				msg = fmt.Sprintf("a %d-message server stream relayed by the proxy to a slow caller ended in a clean io.EOF after %d messages (drop counter %d)", c.N, recvN, drops)
			}
			v.Fail = msg
			if isKnown("C16", "proxy-drop") {
				v.Known = "proxy-drop"
			}
		} else {
			v.failf("burst: %d envelopes lost but the proxy's drop counter says %d: loss not explained by buffer overflow", lost, drops)
		}
	}
	v.Info = kit.CaseInfo{Labels: []string{fmt.Sprintf("burst.rpc=%v", c.RPC), fmt.Sprintf("burst.lost=%v", lost > 0)}, NonTrivial: true, Key: fmt.Sprintf("%+v", c), Sample: map[string]any{"burst": c, "lost": lost, "drops": drops}}
	return
}

func TestC16Burst(t *testing.T) { checkProp(t, "C16", "burst", genC16Burst, execC16Burst) }

var _ = sort.Strings

// ---- C16 attach: peers attaching while the first envelope for their name is in flight ----------

type C16Attach struct {
	N      int    `json:"n"` // names tried in one proxy
	Ser    bool   `json:"ser"`
	Sender string `json:"sender"` // who sends the probe after the attach: "same" client as the racing envelope or "other"
	Burst  int    `json:"burst"`  // envelopes racing with the attach (1..3)
}

func genC16Attach(t *rapid.T) C16Attach {
	return C16Attach{N: rapid.IntRange(4, 32).Draw(t, "n"), Ser: rapid.Bool().Draw(t, "ser"), Sender: rapid.SampledFrom([]string{"same", "other"}).Draw(t, "sender"), Burst: rapid.IntRange(1, 3).Draw(t, "burst")}
}

// execC16Attach: for each of N names that cannot be dialled, a peer attaches under the name at the very moment
// envelopes for that name arrive (no quiescent point in between). Whatever happens to the racing envelopes (they are
// forwarded if the attach won, refused if the failed dial won), an envelope sent once both have completed is addressed
// to an attached peer and must reach it, exactly once.
func execC16Attach(t *testing.T, c C16Attach) (v Verdict) {
	racedTotal := 0
	res := kit.Bubble(t, func() {
		bg := context.Background()
		w := newPxWorld(c.Ser, nil)
		c0, c1 := w.attach("c0"), w.attach("c1")
		kit.Settle()
		for i := 0; i < c.N && v.Fail == ""; i++ {
			name := fmt.Sprintf("r%d", i)
			start := make(chan struct{})
			var nl *kit.Link
			attached := make(chan struct{})
			go func() {
				<-start
				nl = w.attach(name)
				close(attached)
			}()
			go func() {
				<-start
				for k := 0; k < c.Burst; k++ {
					_ = c0.A.Write(bg, pxEnv("c0", name, 2000+10*i+k))
				}
			}()
			kit.Settle()
			close(start)
			<-attached
			kit.Settle()
			raced := nl.A.ReadAvailable()
			for k, e := range raced {
				if e.GetId() < uint64(2000+10*i) || e.GetId() >= uint64(2000+10*i+c.Burst) || (k > 0 && raced[k-1].GetId() >= e.GetId()) {
					v.failf("attach: %s received envelope id %d out of order or never sent to it", name, e.GetId())
				}
			}
			from, fl := "c0", c0
			if c.Sender == "other" {
				from, fl = "c1", c1
			}
			_ = fl.A.Write(bg, pxEnv(from, name, 3000+i))
			kit.Settle()
			if got := nl.A.ReadAvailable(); len(got) != 1 || got[0].GetId() != uint64(3000+i) {
				v.failf("attach: an envelope for %s sent by %s after the peer had attached did not reach the attached connection exactly once (got %d envelopes)", name, from, len(got))
			}
			racedTotal += len(raced)
		}
		w.cancel()
		w.mu.Lock()
		for _, l := range w.peers {
			l.Close()
		}
		w.mu.Unlock()
		kit.Settle()
	})
	if res.Panic != nil {
		v.failf("panic: %v\n%s", res.Panic, res.Stack)
	}
	v.Info = kit.CaseInfo{Labels: []string{"attach.sender=" + c.Sender, fmt.Sprintf("attach.some_raced_delivered=%v", racedTotal > 0), fmt.Sprintf("attach.some_raced_refused=%v", racedTotal < c.N*c.Burst)}, NonTrivial: true,
		Key: fmt.Sprintf("%+v/%d", c, racedTotal), Sample: map[string]any{"attach": c, "raced_delivered": racedTotal}}
	return v
}

func TestC16Attach(t *testing.T) { checkProp(t, "C16", "attach", genC16Attach, execC16Attach) }

// ---- C16 write fault: one proxy-to-peer write fails in the middle of a relayed stream ----------------

// C16WriteFault: a server-streaming call relayed client -> proxy -> (demux) server; the handler sends N messages; the
// proxy's write number FailJ towards the client fails once, with an error of a drawn kind (some look transient:
// timeouts). Whatever the proxy does about the connection, the caller must not be handed a stream with a hole in it:
// what it receives is a prefix of what the handler sent, and io.EOF only after all of it.
type C16WriteFault struct {
	N       int    `json:"n"`
	FailJ   int    `json:"fail_j"` // index among the body envelopes the proxy writes to the client
	ErrKind string `json:"err_kind"`
	Ser     bool   `json:"ser"`
	Bidi    bool   `json:"bidi"`
}

func genC16WriteFault(t *rapid.T) C16WriteFault {
	c := C16WriteFault{N: rapid.IntRange(2, 10).Draw(t, "n"), ErrKind: rapid.SampledFrom(kit.FaultErrKinds).Draw(t, "err_kind"), Ser: rapid.Bool().Draw(t, "ser"), Bidi: rapid.Bool().Draw(t, "bidi")}
	c.FailJ = rapid.IntRange(0, c.N-1).Draw(t, "fail_j")
	return c
}

func execC16WriteFault(t *testing.T, c C16WriteFault) (v Verdict) {
	defer kit.UseFaultKind(c.ErrKind)()
	var got [][]byte
	var end *kit.ErrObs
	res := kit.Bubble(t, func() {
		svc := kit.NewSvc()
		svc.Stream("f", c.Bidi, true, func(s grpcServerStream) error {
			if _, err := kit.RecvBytes(s); err != nil {
				return err
			}
			for j := 0; j < c.N; j++ {
				if err := kit.SendBytes(s, []byte{0x16, 0xF0, byte(j)}); err != nil {
					return err
				}
				time.Sleep(time.Millisecond) // one envelope at a time: far below the proxy's queue limit
			}
			return nil
		})
		w := kit.NewWorld(kit.Topo{Kind: "proxy", Serialize: c.Ser, Clients: 1}, svc, nil, nil)
		l := w.Links[0]
		failed := false
		marker := []byte{0x16, 0xF0, byte(c.FailJ)}
		l.B.FailWriteIf(func(r *kit.Rpc) bool {
			if !failed && bytes.Equal(unwrapBytes(r.GetBody().GetData()), marker) {
				failed = true // a one-off fault
				return true
			}
			return false
		})
		ctx, cancel := context.WithTimeout(context.Background(), time.Hour)
		defer cancel()
		kind := kit.KindServer
		if c.Bidi {
			kind = kit.KindBidi
		}
		cs, err := w.Conn(0).NewStream(ctx, kit.StreamDescFor(kind), kit.FullMethod("f"))
		if err != nil {
			v.failf("open: %v", err)
			return
		}
		_ = kit.SendBytes(cs, []byte("go"))
		_ = cs.CloseSend()
		for {
			b, err := kit.RecvBytes(cs)
			if err != nil {
				e := kit.Observe(err)
				end = &e
				break
			}
			got = append(got, b)
		}
		w.Shutdown()
		kit.Settle()
	})
	if res.Panic != nil {
		v.failf("panic: %v\n%s", res.Panic, res.Stack)
	}
	for j, b := range got {
		if len(b) != 3 || int(b[2]) != j {
			v.failf("the caller's receive #%d returned message %v: the relayed stream has a hole (the proxy's write of message #%d had failed once with a %s error)", j, b, c.FailJ, c.ErrKind)
			break
		}
	}
	if end != nil && end.EOF && len(got) != c.N {
		v.failf("the relayed stream was reported complete (io.EOF) with %d of its %d messages", len(got), c.N)
	}
	v.Info = kit.CaseInfo{Labels: []string{"write-fault", "fault.err=" + c.ErrKind}, NonTrivial: c.FailJ < c.N-1, Key: fmt.Sprintf("%+v", c), Sample: c}
	return
}

func TestC16WriteFault(t *testing.T) {
	checkProp(t, "C16", "write-fault", genC16WriteFault, execC16WriteFault)
}
