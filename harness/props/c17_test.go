package props

import (
	"context"
	"fmt"
	"strings"
	"testing"
	"time"

	"github.com/avos-io/goat/gen/goatorepo"
	"pgregory.net/rapid"
	"verifharness/kit"
)

// ---- C17: proxy hygiene ---------------------------------------------------------

type C17Case struct {
	// BadDialled: the bad peer's connection was dialled on demand by the proxy instead of being attached with AddClient
	BadDialled bool `json:"bad_dialled,omitempty"`
	// SpoofRoute: what the spoofed envelope carries in its route record / return route (sender-controlled fields)
	SpoofRoute string `json:"spoof_route,omitempty"`
	// DeafRead: the bad peer's transport ignores the context passed to Read (as a net.Conn without deadlines does)
	DeafRead bool `json:"deaf_read,omitempty"`
	// ErrKind: the error value the failing transport returns (kit.FaultErrKinds)
	ErrKind string `json:"err_kind,omitempty"`
	Mode    string `json:"mode"` // spoof | badpeer | reattach | cancel | attach-race | odd-route
	// odd-route: an envelope with the sender's true source but unusual routing fields
	OddDest string `json:"odd_dest,omitempty"` // own (the proxy's own name) | empty | self | long | c1
	OddNext string `json:"odd_next,omitempty"` // "" (absent) | empty-list | empty-name | own | self | c1
	// spoof
	Spoof string `json:"spoof"` // other-source | empty-source | no-header | unattached-source
	// badpeer
	Role string `json:"role"` // stuck-writer | failing-reader | failing-writer | dial-error | slow-dial
	// reattach
	OldFailsFirst bool   `json:"old_fails_first"` // the old connection fails before (true) or after (false) the re-attachment
	FailKind      string `json:"fail_kind"`       // read | write
	// InCallback (reattach, old connection fails first): the owner brings the peer back from inside the disconnect
	// callback, by calling AddClient there
	InCallback bool `json:"in_callback,omitempty"`
	// StuckRoute (badpeer/stuck-writer): how the flood of envelopes is routed to the stuck peer: by destination, as the
	// next hop of a return route (ProxyNext) with some other destination, or alternating
	StuckRoute string `json:"stuck_route,omitempty"`
	// common
	Rounds   int  `json:"rounds"`    // honest ping-pong rounds between c0 and c1
	CancelAt int  `json:"cancel_at"` // cancel: after this many steps
	Ser      bool `json:"ser"`
}

func genC17(t *rapid.T) C17Case {
	c := C17Case{Mode: rapid.SampledFrom([]string{"spoof", "badpeer", "reattach", "cancel", "attach-race", "odd-route"}).Draw(t, "mode"), Ser: rapid.Bool().Draw(t, "ser")}
	c.ErrKind = rapid.SampledFrom(kit.FaultErrKinds).Draw(t, "err_kind")
	c.DeafRead = rapid.Bool().Draw(t, "deaf_read")
	c.BadDialled = rapid.Bool().Draw(t, "bad_dialled")
	c.SpoofRoute = rapid.SampledFrom([]string{"", "", "record-own", "record-victim-own", "record-proxy", "next-own"}).Draw(t, "spoof_route")
	c.Spoof = rapid.SampledFrom([]string{"other-source", "empty-source", "no-header", "unattached-source"}).Draw(t, "spoof")
	c.Role = rapid.SampledFrom([]string{"stuck-writer", "failing-reader", "failing-writer", "dial-error", "slow-dial", "slow-failing-dial", "both-fail-busy", "many-slow-dials"}).Draw(t, "role")
	c.OldFailsFirst = rapid.Bool().Draw(t, "old_first")
	c.StuckRoute = rapid.SampledFrom([]string{"dest", "next", "mixed"}).Draw(t, "stuck_route")
	c.FailKind = rapid.SampledFrom([]string{"read", "write"}).Draw(t, "failkind")
	c.InCallback = c.Mode == "reattach" && c.OldFailsFirst && rapid.Bool().Draw(t, "in_callback")
	c.Rounds = rapid.IntRange(1, 6).Draw(t, "rounds")
	c.CancelAt = rapid.IntRange(0, 8).Draw(t, "cancel_at")
	if c.Mode == "odd-route" {
		c.OddDest = rapid.SampledFrom([]string{"own", "empty", "self", "long", "c1"}).Draw(t, "odd_dest")
		c.OddNext = rapid.SampledFrom([]string{"", "empty-list", "empty-name", "own", "self", "c1"}).Draw(t, "odd_next")
	}
	return c
}

func pxEnv(from, to string, tok int) *kit.Rpc {
	return &kit.Rpc{Id: uint64(tok), Header: &goatorepo.RequestHeader{Method: "/x/y", Source: from, Destination: to}, Body: &goatorepo.Body{Data: []byte{byte(tok)}}}
}

func execC17(t *testing.T, c C17Case) (v Verdict) {
	defer kit.UseFaultKind(c.ErrKind)()
	var disconnects, dials []string
	res := kit.Bubble(t, func() {
		bg := context.Background()
		var w *pxWorld
		w = newPxWorld(c.Ser, func(h *goatorepo.RequestHeader) error {
			if h.Destination == "block" {
				w.mu.Lock()
				g := w.blockGate
				w.mu.Unlock()
				if g != nil {
					<-g
				}
				return fmt.Errorf("dropped")
			}
			return nil
		})
		c0 := w.attach("c0")
		c1 := w.attach("c1")
		kit.Settle()
		tok := 0
		// one honest round: c0 -> c1 and c1 -> c0, each must arrive exactly once, in order
		honest := func(label string) {
			for r := 0; r < c.Rounds; r++ {
				tok++
				_ = c0.A.Write(bg, pxEnv("c0", "c1", tok))
				kit.Settle()
				got := c1.A.ReadAvailable()
				if len(got) != 1 || got[0].GetId() != uint64(tok) {
					v.failf("%s: honest envelope %d from c0 to c1 not delivered exactly once at the next quiescent point (got %d envelopes)", label, tok, len(got))
					return
				}
				tok++
				_ = c1.A.Write(bg, pxEnv("c1", "c0", tok))
				kit.Settle()
				got = c0.A.ReadAvailable()
				if len(got) != 1 || got[0].GetId() != uint64(tok) {
					v.failf("%s: honest envelope %d from c1 to c0 not delivered exactly once (got %d envelopes)", label, tok, len(got))
					return
				}
			}
		}
		finish := func() {
			w.cancel()
			kit.Settle()
			w.mu.Lock()
			for _, l := range w.peers {
				l.Close()
			}
			w.mu.Unlock()
			kit.Settle()
			w.mu.Lock()
			disconnects = append([]string{}, w.disconnects...)
			dials = append([]string{}, w.dials...)
			w.mu.Unlock()
		}
		switch c.Mode {
		case "spoof":
			honest("before")
			var bad *kit.Rpc
			switch c.Spoof {
			case "other-source":
				bad = pxEnv("c1", "c1", 900) // sent by c0 claiming to be c1
			case "empty-source":
				bad = pxEnv("", "c1", 900)
			case "no-header":
				bad = &kit.Rpc{Id: 900, Body: &goatorepo.Body{Data: []byte("x")}}
			default:
				bad = pxEnv("nobody", "c1", 900)
			}
			if bad.GetHeader() != nil {
				// the other routing fields are the sender's to fill in too: none of them makes a claimed source true
				switch c.SpoofRoute {
				case "record-own":
					bad.Header.ProxyRecord = []string{"c0"}
				case "record-victim-own":
					bad.Header.ProxyRecord = []string{bad.Header.Source, "c0"}
				case "record-proxy":
					bad.Header.ProxyRecord = []string{"px"}
				case "next-own":
					bad.Header.ProxyNext = []string{"c0"}
				}
			}
			_ = c0.A.Write(bg, bad)
			kit.Settle()
			if got := c1.A.ReadAvailable(); len(got) != 0 {
				v.failf("spoof(%s): an envelope whose claimed source is not the sender's attached name was forwarded", c.Spoof)
			}
			if got := c0.A.ReadAvailable(); len(got) != 0 {
				v.failf("spoof(%s): envelope bounced back to the sender", c.Spoof)
			}
			honest("after")
		case "odd-route":
			// Source is the sender's true name; everything else about the route is the sender's to fill in. None of it may
			// take the proxy down or disturb the others. (An empty, non-nil return route is what an in-process,
			// by-reference transport delivers when the previous hop has just consumed the last element of the route.)
			honest("before")
			odd := pxEnv("c0", "c1", 950)
			switch c.OddDest {
			case "own":
				odd.Header.Destination = "px"
			case "empty":
				odd.Header.Destination = ""
			case "self":
				odd.Header.Destination = "c0"
			case "long":
				odd.Header.Destination = strings.Repeat("n", 70000)
			}
			switch c.OddNext {
			case "empty-list":
				odd.Header.ProxyNext = []string{}
			case "empty-name":
				odd.Header.ProxyNext = []string{""}
			case "own":
				odd.Header.ProxyNext = []string{"px"}
			case "self":
				odd.Header.ProxyNext = []string{"c0"}
			case "c1":
				odd.Header.ProxyNext = []string{"c1"}
			}
			_ = c0.A.Write(bg, odd)
			kit.Settle()
			// where it goes: the last element of the return route if there is one, else the destination
			hop := odd.Header.Destination
			switch c.OddNext {
			case "empty-name":
				hop = ""
			case "own":
				hop = "px"
			case "self":
				hop = "c0"
			case "c1":
				hop = "c1"
			}
			at1, at0 := c1.A.ReadAvailable(), c0.A.ReadAvailable()
			if n := len(at1); (hop == "c1") != (n == 1) {
				v.failf("odd-route(dest=%s,next=%s): c1 received %d envelopes, the route leads to %q", c.OddDest, c.OddNext, n, hop)
			}
			if n := len(at0); (hop == "c0") != (n == 1) {
				v.failf("odd-route(dest=%s,next=%s): c0 received %d envelopes, the route leads to %q", c.OddDest, c.OddNext, n, hop)
			}
			honest("after")
		case "badpeer":
			if c.DeafRead {
				w.mu.Lock()
				w.deaf = map[string]bool{"bad": true}
				w.mu.Unlock()
			}
			// the bad peer's connection: attached by the peer, or dialled by the proxy for a first envelope
			badPeer := func() *kit.Link {
				if !c.BadDialled {
					return w.attach("bad")
				}
				w.mu.Lock()
				w.dialable["bad"] = true
				w.mu.Unlock()
				_ = c0.A.Write(bg, pxEnv("c0", "bad", 499))
				kit.Settle()
				w.mu.Lock()
				w.dialable["bad"] = false // a later dial (after the failure) is refused, like for an attached peer
				w.mu.Unlock()
				bl := w.link("bad")
				if bl != nil {
					bl.A.ReadAvailable()
				}
				return bl
			}
			switch c.Role {
			case "stuck-writer":
				bad := w.attach("bad")
				bad.B.Hold(func(*kit.Rpc) bool { return true }) // writes to it never complete
				for i := 0; i < 20; i++ {
					e := pxEnv("c0", "bad", 500+i)
					if c.StuckRoute == "next" || (c.StuckRoute == "mixed" && i%2 == 1) {
						e = pxEnv("c0", "c1", 500+i)
						e.Header.ProxyNext = []string{"bad"} // a reply on its way back along a recorded route
					}
					_ = c0.A.Write(bg, e)
				}
			case "failing-reader":
				bad := badPeer()
				kit.Settle()
				bad.B.FailReads(nil)
				kit.Settle()
			case "failing-writer":
				bad := badPeer()
				bad.B.FailWrites(nil)
				_ = c0.A.Write(bg, pxEnv("c0", "bad", 500))
				kit.Settle()
			case "dial-error":
				_ = c0.A.Write(bg, pxEnv("c0", "ghost", 500))
				kit.Settle()
			case "slow-dial":
				w.dialable["slow"] = true
				_ = c0.A.Write(bg, pxEnv("c0", "slow", 500))
			case "both-fail-busy":
				// the forwarding loop is busy (parked in the address-rewriting callback) while the bad peer's
				// read and write both fail; afterwards the failure must still be reported and the peer removed
				bad := w.attach("bad")
				bad.B.Hold(func(*kit.Rpc) bool { return true })
				_ = c0.A.Write(bg, pxEnv("c0", "bad", 500)) // parks the bad peer's write loop in its transport write
				kit.Settle()
				w.blockGate = make(chan struct{})
				_ = c0.A.Write(bg, pxEnv("c0", "block", 501)) // parks the forwarding loop in the callback
				kit.Settle()
				bad.B.FailReads(nil)
				kit.Settle()
				bad.B.FailWrites(nil)
				for _, h := range bad.Held() {
					h.Release()
				}
				kit.Settle()
				close(w.blockGate)
				kit.Settle()
			case "slow-failing-dial":
				// the dial is still in progress when the proxy is cancelled, and fails afterwards
				w.slowDial = make(chan struct{})
				_ = c0.A.Write(bg, pxEnv("c0", "tarpit", 500))
			case "many-slow-dials":
				// twenty destinations whose dials are all still in progress (and fail after the proxy is cancelled)
				w.slowDial = make(chan struct{})
				for k := 0; k < 20; k++ {
					_ = c0.A.Write(bg, pxEnv("c0", fmt.Sprintf("tarpit%d", k), 500+k))
					kit.Settle()
				}
			}
			honest("with " + c.Role)
			kit.Settle()
			w.mu.Lock()
			ds := strings.Join(w.disconnects, ",")
			w.mu.Unlock()
			switch c.Role {
			case "failing-reader", "failing-writer", "both-fail-busy":
				if !strings.Contains(ds, "bad") {
					v.failf("%s: the failed connection was not reported to the disconnect callback (got %q)", c.Role, ds)
				}
				// it was removed: an envelope to that name now causes a fresh dial
				w.mu.Lock()
				before := len(w.dials)
				w.mu.Unlock()
				_ = c0.A.Write(bg, pxEnv("c0", "bad", 600))
				kit.Settle()
				w.mu.Lock()
				after := len(w.dials)
				w.mu.Unlock()
				if after != before+1 {
					v.failf("%s: after the failure an envelope to that name did not trigger a fresh dial: the dead connection is still registered", c.Role)
				}
			case "dial-error":
				if !strings.Contains(ds, "ghost") {
					v.failf("dial-error: the unreachable peer was not reported to the disconnect callback (got %q)", ds)
				}
				// the failed dial left nothing behind: once the peer is reachable the next envelope dials it and arrives
				w.mu.Lock()
				w.dialable["ghost"] = true
				w.mu.Unlock()
				_ = c0.A.Write(bg, pxEnv("c0", "ghost", 601))
				kit.Settle()
				if gl := w.link("ghost"); gl == nil {
					v.failf("dial-error: after the peer became reachable an envelope for it did not trigger a new dial")
				} else if got := gl.A.ReadAvailable(); len(got) != 1 || got[0].GetId() != 601 {
					v.failf("dial-error: after the peer became reachable an envelope for it was not delivered (got %d)", len(got))
				}
			}
		case "reattach":
			old := w.link("c1")
			failOld := func() {
				if c.FailKind == "read" {
					old.B.FailReads(nil)
				} else {
					old.B.FailWrites(nil)
					_ = c0.A.Write(bg, pxEnv("c0", "c1", 700)) // something to write, so that the failure shows
				}
				kit.Settle()
			}
			if c.InCallback {
				again := false
				w.mu.Lock()
				w.onDisconnect = func(id string) {
					if id == "c1" && !again {
						again = true
						w.attach("c1") // the owner reconnects the peer right here, inside the callback
					}
				}
				w.mu.Unlock()
			}
			if c.OldFailsFirst {
				failOld()
			}
			if c.InCallback {
				c1 = w.link("c1")
				if c1 == old {
					v.failf("reattach: the disconnect callback was not run for the failed connection, or its AddClient has not returned")
				}
			} else {
				c1 = w.attach("c1") // the peer reconnects under its old name
			}
			kit.Settle()
			if !c.OldFailsFirst {
				// the superseded connection is still alive: traffic for the name must already reach the new one
				honest("right after re-attachment")
				if c.FailKind == "write" {
					// the envelope must go to the new connection; the old one can only fail on read now
					old.B.FailReads(nil)
					kit.Settle()
				} else {
					failOld()
				}
			}
			c1.A.ReadAvailable() // discard what the probe write may have delivered
			honest("after re-attachment")
			// the old connection's failure is reported to the disconnect callback whether or not a newer
			// connection had taken over the name by then
			w.mu.Lock()
			reported := 0
			for _, d := range w.disconnects {
				if d == "c1" {
					reported++
				}
			}
			w.mu.Unlock()
			if reported == 0 {
				v.failf("reattach (old connection fails %s re-attachment, on %s): the failed connection was never reported to the disconnect callback", map[bool]string{true: "before", false: "after"}[c.OldFailsFirst], c.FailKind)
			}
		case "attach-race":
			// peers attach at the very moment the first envelope for their name arrives (no quiescent point in
			// between); whatever happens to that first envelope, the attached connection must be the one that
			// serves the name afterwards
			for i := 0; i < 24 && v.Fail == ""; i++ {
				name := fmt.Sprintf("r%d", i)
				start := make(chan struct{})
				var nl *kit.Link
				attached := make(chan struct{})
				go func() {
					<-start
					nl = w.attach(name)
					close(attached)
				}()
				go func() {
					<-start
					_ = c0.A.Write(bg, pxEnv("c0", name, 2000+i))
				}()
				kit.Settle()
				close(start)
				<-attached
				kit.Settle()
				nl.A.ReadAvailable()
				_ = c0.A.Write(bg, pxEnv("c0", name, 3000+i))
				kit.Settle()
				if got := nl.A.ReadAvailable(); len(got) != 1 || got[0].GetId() != uint64(3000+i) {
					v.failf("attach-race: an envelope for %s, sent after the peer had attached, did not reach the attached connection (got %d envelopes)", name, len(got))
				}
			}
		case "cancel":
			steps := 0
			for r := 0; r < c.Rounds && steps < c.CancelAt; r++ {
				tok++
				_ = c0.A.Write(bg, pxEnv("c0", "c1", tok))
				steps++
				if steps >= c.CancelAt {
					break
				}
				kit.Settle()
				c1.A.ReadAvailable()
				steps++
			}
			w.cancel()
			kit.Settle()
			c1.A.ReadAvailable()
			c0.A.ReadAvailable()
			_ = c0.A.Write(bg, pxEnv("c0", "c1", 800))
			kit.Settle()
			if got := c1.A.ReadAvailable(); len(got) != 0 {
				v.failf("cancel: an envelope was forwarded after the proxy's context was cancelled")
			}
			select {
			case <-w.served:
			default:
				v.failf("cancel: Proxy.Serve did not return")
			}
		}
		if c.Role == "slow-dial" {
			time.Sleep(time.Second)
		}
		finish()
		if c.Mode == "badpeer" && (c.Role == "slow-failing-dial" || c.Role == "many-slow-dials") {
			close(w.slowDial) // only now does the dial return (with an error)
			kit.Settle()
		}
	})
	if res.Panic != nil {
		v.failf("panic: %v\n%s", res.Panic, res.Stack)
	}
	if len(res.Leaked) > 0 && v.Fail == "" {
		v.failf("goroutines of the proxy left behind after its context was cancelled and all connections closed: %s", strings.Join(kit.StackSites(res.Leaked), " ;; "))
	}
	_ = dials
	_ = disconnects
	label := "mode=" + c.Mode
	var labels []string
	switch c.Mode {
	case "spoof":
		label += "/" + c.Spoof
		if c.SpoofRoute != "" {
			labels = append(labels, "spoof.route_fields=true")
		}
	case "badpeer":
		label += "/" + c.Role
	case "odd-route":
		labels = append(labels, "odd.dest="+c.OddDest, "odd.next="+c.OddNext)
	case "reattach":
		label += fmt.Sprintf("/old_first=%v/%s", c.OldFailsFirst, c.FailKind)
		labels = append(labels, fmt.Sprintf("reattach.in_callback=%v", c.InCallback))
	}
	labels = append(labels, label)
	if c.Mode == "badpeer" {
		labels = append(labels, fmt.Sprintf("badpeer.deaf_read=%v", c.DeafRead), fmt.Sprintf("badpeer.dialled=%v", c.BadDialled))
	}
	v.Info = kit.CaseInfo{Labels: labels, NonTrivial: true, Key: fmt.Sprintf("%+v", c), Sample: c}
	return
}

func TestC17(t *testing.T) { checkProp(t, "C17", "main", genC17, execC17) }
