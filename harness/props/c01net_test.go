package props

import (
	"bytes"
	"context"
	"fmt"
	"net/http"
	"net/http/httptest"
	"strings"
	"sync"
	"sync/atomic"
	"testing"

	goat "github.com/avos-io/goat"
	"pgregory.net/rapid"
	"verifharness/kit"
)

// ---- C01 over the shipped network transports (real loopback sockets, real time) ----

type C01Net struct {
	Transport string        `json:"transport"` // websocket | http
	Reqs      []kit.Payload `json:"reqs"`
}

func genC01Net(t *rapid.T) C01Net {
	c := C01Net{Transport: rapid.SampledFrom([]string{"websocket", "http"}).Draw(t, "transport")}
	n := rapid.IntRange(1, 16).Draw(t, "n")
	for i := 0; i < n; i++ {
		c.Reqs = append(c.Reqs, kit.GenPayload(65536).Draw(t, "req"))
	}
	return c
}

// refusalCounter wraps an HTTP handler and counts the requests it answered with 400 Bad Request: the receiving end of
// the HTTP transport answers so exactly when it could not make an envelope out of what was posted.
type refusalCounter struct {
	h http.Handler
	n atomic.Int64
}

type statusWriter struct {
	http.ResponseWriter
	rc *refusalCounter
}

func (w statusWriter) WriteHeader(code int) {
	if code == http.StatusBadRequest {
		w.rc.n.Add(1)
	}
	w.ResponseWriter.WriteHeader(code)
}

func (rc *refusalCounter) ServeHTTP(w http.ResponseWriter, r *http.Request) {
	rc.h.ServeHTTP(statusWriter{w, rc}, r)
}

func execC01Net(t *testing.T, c C01Net) (v Verdict) {
	svc := kit.NewSvc()
	var mu sync.Mutex
	runs := map[string]int{}
	svc.Unary("u", func(ctx context.Context, req []byte) ([]byte, error) {
		mu.Lock()
		runs[kit.Digest(req)]++
		mu.Unlock()
		return c01Reply(req, []byte("pad")), nil
	})
	srv := goat.NewServer(kit.ServerName)
	svc.Register(srv)
	defer srv.Stop()
	ctx, cancel := context.WithTimeout(context.Background(), netBudget)
	defer cancel()
	var cc *goat.ClientConn
	refused := func() int64 { return 0 }
	serveEnded := make(chan error, 1)
	switch c.Transport {
	case "websocket":
		cl, sv, _, _, cleanup := wsPair(t)
		defer cleanup()
		go func() { serveEnded <- srv.Serve(ctx, sv) }()
		cc = goat.NewClientConn(cl, "c0", kit.ServerName)
	case "http":
		var clientAddr, serverAddr string
		gohS := goat.NewGoatOverHttp(func(id string, rw goat.RpcReadWriter) { go srv.Serve(ctx, rw) }, func(src string) (string, error) { return clientAddr, nil })
		defer gohS.Cancel()
		refS := &refusalCounter{h: gohS}
		hsS := httptest.NewServer(refS)
		defer hsS.Close()
		serverAddr = strings.TrimPrefix(hsS.URL, "http://")
		gohC := goat.NewGoatOverHttp(func(string, goat.RpcReadWriter) {}, func(src string) (string, error) { return serverAddr, nil })
		defer gohC.Cancel()
		refC := &refusalCounter{h: gohC}
		hsC := httptest.NewServer(refC)
		refused = func() int64 { return refS.n.Load() + refC.n.Load() }
		defer hsC.Close()
		clientAddr = strings.TrimPrefix(hsC.URL, "http://")
		cc = goat.NewClientConn(gohC.NewConnection(serverAddr), "c0", kit.ServerName)
	}
	type res struct {
		out []byte
		err error
	}
	results := make([]res, len(c.Reqs))
	var wg sync.WaitGroup
	for i, p := range c.Reqs {
		i, p := i, p
		wg.Add(1)
		go func() {
			defer wg.Done()
			out, err := kit.Invoke(ctx, cc, "u", p.Bytes())
			results[i] = res{out, err}
		}()
	}
	wg.Wait()
	want := map[string]int{}
	for _, p := range c.Reqs {
		want[kit.Digest(p.Bytes())]++
	}
	if ctx.Err() != nil {
		// The budget is spent: no verdict can rest on what did not happen in time. What did happen can still be wrong
		// whatever the machine's speed: a handler run for a request nobody sent, or more runs than callers.
		mu.Lock()
		for k, n := range runs {
			if want[k] == 0 {
				v.failf("%s: the handler received a request (%s) that no caller sent: bytes changed in transit", c.Transport, k)
			} else if n > want[k] {
				v.failf("%s: the handler ran %d times for request %s, only %d callers sent it", c.Transport, n, k, want[k])
			}
		}
		mu.Unlock()
		select {
		case err := <-serveEnded:
			// nobody stopped the server and the socket is intact: if its connection ended because an envelope could not be
			// decoded, that envelope was one the library's own client had written for these calls
			if err != nil && (strings.Contains(err.Error(), "proto") || strings.Contains(err.Error(), "invalid websocket message")) {
				v.failf("%s: the server's connection ended because it could not decode an envelope of these calls (%v): they can never be answered", c.Transport, err)
			}
		default:
		}
		if n := refused(); n > 0 {
			// every envelope posted here was produced by the library's own client or server from a well-formed call
			v.failf("%s: the receiving end of the transport refused %d envelopes of these calls as malformed (400 Bad Request): those calls can never be answered", c.Transport, n)
		}
		if v.Fail != "" {
			v.Info = kit.CaseInfo{Labels: []string{"net." + c.Transport}, NonTrivial: true, Key: fmt.Sprintf("%+v", c)}
			return
		}
		inconclusive(t, "%s: unary calls over loopback exceeded %v", c.Transport, netBudget)
	}
	want = map[string]int{}
	for i, p := range c.Reqs {
		req := p.Bytes()
		want[kit.Digest(req)]++
		if results[i].err != nil {
			v.failf("%s: call %d failed: %v", c.Transport, i, results[i].err)
		} else if !bytes.Equal(results[i].out, c01Reply(req, []byte("pad"))) {
			v.failf("%s: call %d got a reply that is not the handler's reply to its request", c.Transport, i)
		}
	}
	mu.Lock()
	for k, n := range want {
		if runs[k] != n {
			v.failf("%s: handler ran %d times for request %s, %d callers sent it", c.Transport, runs[k], k, n)
		}
	}
	mu.Unlock()
	v.Info = kit.CaseInfo{Labels: []string{"net." + c.Transport}, NonTrivial: len(c.Reqs) >= 2, Key: fmt.Sprintf("%+v", c), Sample: map[string]any{"transport": c.Transport, "calls": len(c.Reqs)}}
	return
}

func TestC01Net(t *testing.T) { checkProp(t, "C01", "net", genC01Net, execC01Net) }
