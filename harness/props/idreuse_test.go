package props

import (
	"bytes"
	"context"
	"fmt"
	"sync/atomic"
	"testing"

	"pgregory.net/rapid"
	"verifharness/kit"
)

// ---- ids after a failed write (C01 / C05) -----------------------------------
//
// Call B parks in its transport write; call C is issued and stays in flight; B's context ends, so its
// write fails while the connection stays healthy; call D is issued. Every call must still get its own
// reply and the ids on the wire must stay pairwise distinct.

type IDReuse struct {
	BKind int  `json:"b_kind"` // the call whose write fails: unary or a stream open
	CKind int  `json:"c_kind"` // the call in flight meanwhile
	DKind int  `json:"d_kind"` // the call started afterwards
	NB    int  `json:"nb"`     // how many calls fail that way (1..3)
	Ser   bool `json:"ser"`
}

func genIDReuse(t *rapid.T) IDReuse {
	ks := []int{kit.KindUnary, kit.KindBidi}
	return IDReuse{BKind: rapid.SampledFrom(ks).Draw(t, "b"), CKind: rapid.SampledFrom(ks).Draw(t, "c"), DKind: rapid.SampledFrom(ks).Draw(t, "d"), NB: rapid.IntRange(1, 3).Draw(t, "nb"), Ser: rapid.Bool().Draw(t, "ser")}
}

func execIDReuse(t *testing.T, c IDReuse) (v Verdict) {
	var tap []kit.Ev
	var cRep, dRep []byte
	var cErr, dErr error
	cDone, dDone := false, false
	var bErrs atomic.Int32 // incremented by NB goroutines at once
	res := kit.Bubble(t, func() {
		svc := kit.NewSvc()
		sched := kit.NewSched()
		echo := func(tag string, gate bool) (kit.UnaryFn, kit.StreamFn) {
			u := func(ctx context.Context, req []byte) ([]byte, error) {
				if gate {
					sched.Park(nil, "gate-"+tag)
				}
				return append([]byte(tag+":"), req...), nil
			}
			s := func(st grpcServerStream) error {
				b, err := kit.RecvBytes(st)
				if err != nil {
					return err
				}
				if gate {
					sched.Park(nil, "gate-"+tag)
				}
				return kit.SendBytes(st, append([]byte(tag+":"), b...))
			}
			return u, s
		}
		for _, tag := range []string{"b", "c", "d"} {
			u, s := echo(tag, tag == "c")
			svc.Unary("u"+tag, u)
			svc.Stream("s"+tag, true, true, s)
		}
		w := kit.NewWorld(kit.Topo{Kind: "direct", Serialize: c.Ser, Clients: 1}, svc, nil, nil)
		l := w.Links[0]
		cc := w.Conn(0)
		call := func(ctx context.Context, kind int, tag string, req []byte) ([]byte, error) {
			if kind == kit.KindUnary {
				return kit.Invoke(ctx, cc, "u"+tag, req)
			}
			cs, err := cc.NewStream(ctx, kit.StreamDescFor(kit.KindBidi), kit.FullMethod("s"+tag))
			if err != nil {
				return nil, err
			}
			if err := kit.SendBytes(cs, req); err != nil {
				return nil, err
			}
			_ = cs.CloseSend()
			rep, err := kit.RecvBytes(cs)
			if err != nil {
				return nil, err
			}
			_, _ = kit.RecvBytes(cs)
			return rep, nil
		}
		// B's first envelope parks in the transport write
		l.A.Hold(func(r *kit.Rpc) bool {
			m := r.GetHeader().GetMethod()
			return m == kit.FullMethod("ub") || m == kit.FullMethod("sb")
		})
		bctx, bcancel := context.WithCancel(context.Background())
		bdone := make(chan struct{}, c.NB)
		for i := 0; i < c.NB; i++ {
			go func() {
				if _, err := call(bctx, c.BKind, "b", []byte("B")); err != nil {
					bErrs.Add(1)
				}
				bdone <- struct{}{}
			}()
		}
		kit.Settle()
		go func() {
			cRep, cErr = call(context.Background(), c.CKind, "c", []byte("C"))
			cDone = true
		}()
		kit.Settle() // C is in flight: its handler is parked
		bcancel()    // B's write fails (context), the connection stays healthy
		kit.Settle()
		for i := 0; i < c.NB; i++ {
			<-bdone
		}
		go func() {
			dRep, dErr = call(context.Background(), c.DKind, "d", []byte("D"))
			dDone = true
		}()
		kit.Settle()
		sched.ReleaseGate("gate-c")
		kit.Settle()
		tap = w.Tap.Snapshot()
		sched.Drain()
		w.Shutdown()
		kit.Settle()
	})
	if res.Panic != nil {
		v.failf("panic: %v\n%s", res.Panic, res.Stack)
	}
	if int(bErrs.Load()) != c.NB {
		v.failf("harness: %d of %d parked calls failed", bErrs.Load(), c.NB)
	}
	if !dDone {
		v.failf("call D, started after another call's write had failed, never returned")
	} else if dErr != nil || !bytes.Equal(dRep, []byte("d:D")) {
		v.failf("call D got (%q, %v), its own handler replies %q", dRep, dErr, "d:D")
	}
	if !cDone {
		v.failf("call C, in flight while another call's write failed, never got its reply")
	} else if cErr != nil || !bytes.Equal(cRep, []byte("c:C")) {
		v.failf("call C got (%q, %v), its own handler replies %q", cRep, cErr, "c:C")
	}
	opens := map[uint64]string{}
	for _, e := range kit.Filter(tap, "c0", kit.AtoB) {
		r := e.Rpc
		m := r.GetHeader().GetMethod()
		isOpen := r.GetTrailer() == nil && r.GetReset_() == nil && (r.GetBody() == nil || m == kit.FullMethod("uc") || m == kit.FullMethod("ud") || m == kit.FullMethod("ub"))
		if !isOpen {
			continue
		}
		if prev, dup := opens[r.GetId()]; dup && prev != m {
			v.failf("stream id %d opens two calls (%s and %s)", r.GetId(), prev, m)
		}
		opens[r.GetId()] = m
	}
	v.Info = kit.CaseInfo{Labels: []string{"idreuse", fmt.Sprintf("b=%s", kit.KindNames[c.BKind])}, NonTrivial: true, Key: fmt.Sprintf("%+v", c), Sample: c}
	if v.Fail != "" {
		v.Detail = map[string]any{"wire": tapSummary(tap, 40)}
	}
	return
}

func TestC01Reuse(t *testing.T) { checkProp(t, "C01", "idreuse", genIDReuse, execIDReuse) }
func TestC05Reuse(t *testing.T) { checkProp(t, "C05", "idreuse", genIDReuse, execIDReuse) }
