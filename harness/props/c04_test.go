package props

import (
	"bytes"
	"context"
	"fmt"
	"io"
	"runtime"
	"strings"
	"sync"
	"testing"
	"time"

	goat "github.com/avos-io/goat"
	"google.golang.org/grpc/metadata"
	"google.golang.org/grpc/stats"
	"pgregory.net/rapid"
	"verifharness/kit"
)

// ---- C04: metadata, headers, trailers --------------------------------------

// modelHeaderSets returns, in program order, the metadata sets that reach the
// caller as response headers: every SetHeader/SendHeader issued before the
// headers leave (explicit SendHeader, first message, or final status).
func modelHeaderSets(ops []kit.HOp) (hdr [][]kit.KV, trl [][]kit.KV, setCalls int) {
	sent := false
	for _, op := range ops {
		switch op.Op {
		case "sethdr":
			if !sent {
				hdr = append(hdr, op.MD)
				setCalls++
			}
		case "sendhdr":
			if !sent {
				hdr = append(hdr, op.MD)
				setCalls++
				sent = true
			}
		case "send":
			sent = true
		case "settrl":
			trl = append(trl, op.MD)
			setCalls++
		}
	}
	return
}

type methodKey struct{}

// inHeaderRecorder is a client stats handler that records the response
// headers of every RPC, keyed by method.
type inHeaderRecorder struct {
	mu  sync.Mutex
	hdr map[string][]metadata.MD
}

func (r *inHeaderRecorder) TagRPC(ctx context.Context, info *stats.RPCTagInfo) context.Context {
	return context.WithValue(ctx, methodKey{}, info.FullMethodName)
}
func (r *inHeaderRecorder) HandleRPC(ctx context.Context, s stats.RPCStats) {
	if ih, ok := s.(*stats.InHeader); ok && ih.Client {
		m, _ := ctx.Value(methodKey{}).(string)
		r.mu.Lock()
		r.hdr[m] = append(r.hdr[m], ih.Header.Copy())
		r.mu.Unlock()
	}
}
func (r *inHeaderRecorder) TagConn(ctx context.Context, _ *stats.ConnTagInfo) context.Context {
	return ctx
}
func (r *inHeaderRecorder) HandleConn(context.Context, stats.ConnStats) {}

func genC04(t *rapid.T) ConvCase {
	return genConvCase(t, 4, allKinds, kit.GenOpts{MaxMsgs: 3, MaxPayload: 64, OKBias: 70, WithMD: true}, []string{"direct", "direct", "demux", "proxy"})
}

func execC04(t *testing.T, c ConvCase) (v Verdict) {
	rec := &inHeaderRecorder{hdr: map[string][]metadata.MD{}}
	o := c.opts()
	o.DOpts = append(o.DOpts, goat.WithStatsHandler(rec))
	outs, tap, res, sched := kit.RunConvs(t, c.Convs, o)
	if res.Panic != nil {
		v.failf("panic: %v\n%s", res.Panic, res.Stack)
	}
	nt := false
	var labels []string
	for _, out := range outs {
		cv := out.Conv
		full := kit.FullMethod(out.Name)
		wantReq := kit.ModelMD(cv.MD)
		nt = nt || kit.MDNonTrivial(cv.MD)
		var ops []kit.HOp
		var gotReq map[string][]string
		if cv.Kind == kit.KindUnary {
			ops = cv.UOps
			gotReq = out.UH.MD
			if len(out.UH.Reqs) != 1 {
				v.failf("%s: handler ran %d times", out.Name, len(out.UH.Reqs))
				continue
			}
		} else {
			ops = cv.H.Ops
			gotReq = out.H.MD
			if !out.H.Started {
				v.failf("%s: handler never started", out.Name)
				continue
			}
		}
		if msg := kit.MDEqual(metadata.MD(gotReq), wantReq, "grpc-timeout"); msg != "" {
			v.failf("%s: request metadata seen by the handler: %s", out.Name, msg)
		}
		hs, ts, calls := modelHeaderSets(ops)
		wantHdr, wantTrl := kit.ModelMD(hs...), kit.ModelMD(ts...)
		for _, s := range append(append([][]kit.KV{}, hs...), ts...) {
			nt = nt || kit.MDNonTrivial(s)
		}
		nt = nt || calls >= 2
		// wire level: response metadata only on the first response envelope, decodable, equal to the model
		var resp []kit.Ev
		for _, e := range kit.Filter(tap, out.Conn, kit.BtoA) {
			if e.Rpc.GetId() == out.ID && e.Rpc.GetReset_() == nil {
				resp = append(resp, e)
			}
		}
		if len(resp) == 0 {
			v.failf("%s: no response envelope on the wire", out.Name)
			continue
		}
		for i, e := range resp {
			if i > 0 && len(e.Rpc.GetHeader().GetHeaders()) > 0 {
				v.failf("%s: response metadata repeated on response envelope #%d", out.Name, i)
			}
		}
		wireHdr, ok := kit.DecodeWireKV(resp[0].Rpc.GetHeader().GetHeaders())
		if !ok {
			v.failf("%s: response headers on the wire are not decodable", out.Name)
		} else if msg := kit.MDEqual(metadata.MD(wireHdr), wantHdr); msg != "" {
			v.failf("%s: response headers on the wire: %s", out.Name, msg)
		}
		last := resp[len(resp)-1].Rpc
		if last.GetTrailer() == nil {
			v.failf("%s: last response envelope carries no trailer", out.Name)
		} else if wireTrl, ok := kit.DecodeWireKV(last.GetTrailer().GetMetadata()); !ok {
			v.failf("%s: trailers on the wire are not decodable", out.Name)
		} else if msg := kit.MDEqual(metadata.MD(wireTrl), wantTrl); msg != "" {
			v.failf("%s: trailers on the wire: %s", out.Name, msg)
		}
		// API level
		if cv.Kind == kit.KindUnary {
			got := rec.hdr[full]
			if len(got) != 1 {
				v.failf("%s: client stats handler saw %d InHeader events", out.Name, len(got))
			} else if msg := kit.MDEqual(got[0], wantHdr); msg != "" {
				v.failf("%s: unary response headers (InHeader): %s", out.Name, msg)
			}
			labels = append(labels, "unary")
		} else {
			if out.C.HeaderDone {
				if out.C.HeaderErr != nil {
					v.failf("%s: Header() failed: %s", out.Name, out.C.HeaderErr.Raw)
				} else if msg := kit.MDEqual(metadata.MD(out.C.HeaderMD), wantHdr); msg != "" {
					v.failf("%s: Header(): %s", out.Name, msg)
				}
				labels = append(labels, "header()")
			}
			if out.C.TrailerGot {
				if out.C.TrailerAgainDiffers != "" {
					v.failf("%s: Trailer() called twice in a row gave different answers: %s", out.Name, out.C.TrailerAgainDiffers)
				}
				if msg := kit.MDEqual(metadata.MD(out.C.TrailerMD), wantTrl); msg != "" {
					v.failf("%s: Trailer(): %s", out.Name, msg)
				}
			} else {
				v.failf("%s: caller never reached Trailer()", out.Name)
			}
			// how did the headers leave?
			how := "with-trailer"
			for _, op := range ops {
				if op.Op == "sendhdr" {
					how = "sendheader"
					break
				}
				if op.Op == "send" {
					how = "first-message"
					break
				}
			}
			labels = append(labels, "hdr-via="+how)
			if cv.H.Ret.Build() != nil && len(ts) > 0 {
				labels = append(labels, "trailers-with-error")
			}
		}
		for _, kv := range cv.MD {
			if strings.HasSuffix(strings.ToLower(kv.K), "-bin") {
				labels = append(labels, "req-bin")
				break
			}
		}
	}
	l2, _, _, _ := convLabels(c, tap)
	if nt {
		labels = append(labels, "md-nontrivial")
	}
	v.Info = kit.CaseInfo{Labels: append(labels, l2...), NonTrivial: nt, Key: c.key(), Sample: c04Sample(c)}
	if v.Fail != "" {
		v.Detail = convDetail(outs, tap, sched)
	}
	return
}

func c04Sample(c ConvCase) any {
	cv := c.Convs[0]
	show := func(kvs []kit.KV) []string {
		var out []string
		for _, kv := range kvs {
			out = append(out, fmt.Sprintf("%s=%q", kv.K, trunc(string(kv.V))))
		}
		return out
	}
	ops := cv.H.Ops
	if cv.Kind == kit.KindUnary {
		ops = cv.UOps
	}
	var hops []string
	for _, op := range ops {
		if op.MD != nil {
			hops = append(hops, op.Op+" "+strings.Join(show(op.MD), ","))
		} else {
			hops = append(hops, op.Op)
		}
	}
	return map[string]any{"topo": c.Topo.String(), "kind": kit.KindNames[cv.Kind], "request_md": show(cv.MD), "handler_ops": headStr(hops, 10), "convs": len(c.Convs)}
}

func TestC04(t *testing.T) { checkProp(t, "C04", "main", genC04, execC04) }

// ---- C04 foreign: a peer that does not lower-case its keys -------------------

type C04Foreign struct {
	Side string   `json:"side"` // server (scripted caller -> goat server) | client (scripted server -> goat client)
	Kind int      `json:"kind"`
	Hdr  []kit.KV `json:"hdr"`
	Trl  []kit.KV `json:"trl"`
	Ser  bool     `json:"ser"`
}

func genC04Foreign(t *rapid.T) C04Foreign {
	c := C04Foreign{Side: rapid.SampledFrom([]string{"server", "client"}).Draw(t, "side"), Ser: rapid.Bool().Draw(t, "ser")}
	c.Kind = rapid.SampledFrom(allKinds).Draw(t, "kind")
	pool := &[]string{}
	c.Hdr = kit.GenMDPool(t, pool, 6)
	c.Trl = kit.GenMDPool(t, pool, 4)
	return c
}

func execC04Foreign(t *testing.T, c C04Foreign) (v Verdict) {
	var gotReq map[string][]string
	var gotHdr, gotTrl map[string][]string
	hdrErr := ""
	ran := false
	res := kit.Bubble(t, func() {
		bg := context.Background()
		body := &kit.Payload{Class: "lit", Lit: []byte("x")}
		if c.Side == "server" {
			svc := kit.NewSvc()
			var mu sync.Mutex
			rec := func(ctx context.Context) {
				md, _ := metadata.FromIncomingContext(ctx)
				mu.Lock()
				gotReq, ran = map[string][]string(md.Copy()), true
				mu.Unlock()
			}
			svc.Unary("u", func(ctx context.Context, req []byte) ([]byte, error) { rec(ctx); return req, nil })
			svc.Stream("s", true, true, func(s grpcServerStream) error { rec(s.Context()); return nil })
			w := kit.NewWorld(kit.Topo{Kind: "direct", Serialize: c.Ser, Clients: 1, Raw: true}, svc, nil, nil)
			e := kit.EnvSpec{HdrMD: kit.WireKV(c.Hdr)}
			name := "s"
			if c.Kind == kit.KindUnary {
				name = "u"
				e.Body, e.Wrap = body, true
			}
			_ = w.Links[0].A.Write(bg, e.Build(5, kit.FullMethod(name), "c0", kit.ServerName))
			kit.Settle()
			w.Shutdown()
			kit.Settle()
			return
		}
		tp := kit.NewTap()
		l := kit.NewLink("c0", tp, c.Ser)
		rec := &inHeaderRecorder{hdr: map[string][]metadata.MD{}}
		cc := goat.NewClientConn(l.A, "c0", kit.ServerName, goat.WithStatsHandler(rec))
		done := make(chan struct{})
		go func() {
			defer close(done)
			if c.Kind == kit.KindUnary {
				_, _ = kit.Invoke(bg, cc, "f", []byte("q"))
				ran = true
				return
			}
			cs, err := cc.NewStream(bg, kit.StreamDescFor(c.Kind), kit.FullMethod("f"))
			if err != nil {
				return
			}
			md, err := cs.Header()
			if err != nil {
				hdrErr = err.Error()
			}
			gotHdr = map[string][]string(md.Copy())
			for {
				if _, err := kit.RecvBytes(cs); err != nil {
					break
				}
			}
			gotTrl = map[string][]string(cs.Trailer().Copy())
			ran = true
		}()
		kit.Settle()
		reqs := l.B.ReadAvailable()
		if len(reqs) == 0 {
			return
		}
		id := reqs[0].GetId()
		method := kit.FullMethod("f")
		if c.Kind == kit.KindUnary {
			e := kit.EnvSpec{HdrMD: kit.WireKV(c.Hdr), Body: body, Wrap: true, Trailer: true, TrlMD: kit.WireKV(c.Trl)}
			_ = l.B.Write(bg, e.Build(id, method, kit.ServerName, "c0"))
		} else {
			e1 := kit.EnvSpec{HdrMD: kit.WireKV(c.Hdr), Body: body, Wrap: true}
			e2 := kit.EnvSpec{Status: &kit.StatusSpec{Code: 0}, Trailer: true, TrlMD: kit.WireKV(c.Trl)}
			_ = l.B.Write(bg, e1.Build(id, method, kit.ServerName, "c0"))
			_ = l.B.Write(bg, e2.Build(id, method, kit.ServerName, "c0"))
		}
		kit.Settle()
		if c.Kind == kit.KindUnary {
			if hs := rec.hdr[method]; len(hs) == 1 {
				gotHdr = map[string][]string(hs[0])
			}
		}
		l.Close()
		kit.Settle()
	})
	if res.Panic != nil {
		v.failf("panic: %v\n%s", res.Panic, res.Stack)
	}
	if !ran {
		v.failf("the call did not run to completion")
	}
	if c.Side == "server" {
		if msg := kit.MDEqual(metadata.MD(gotReq), kit.ModelMD(c.Hdr)); msg != "" {
			v.failf("request metadata from a peer that does not lower-case its keys: %s", msg)
		}
	} else {
		if hdrErr != "" {
			v.failf("Header(): %s", hdrErr)
		}
		if msg := kit.MDEqual(metadata.MD(gotHdr), kit.ModelMD(c.Hdr)); msg != "" {
			v.failf("response headers from a peer that does not lower-case its keys: %s", msg)
		}
		if c.Kind != kit.KindUnary {
			if msg := kit.MDEqual(metadata.MD(gotTrl), kit.ModelMD(c.Trl)); msg != "" {
				v.failf("trailers from a peer that does not lower-case its keys: %s", msg)
			}
		}
	}
	upper := false
	for _, kv := range append(append([]kit.KV{}, c.Hdr...), c.Trl...) {
		if strings.ToLower(kv.K) != kv.K {
			upper = true
		}
	}
	v.Info = kit.CaseInfo{Labels: []string{"foreign." + c.Side, fmt.Sprintf("uppercase=%v", upper)}, NonTrivial: upper, Key: fmt.Sprintf("%+v", c), Sample: map[string]any{"side": c.Side, "kind": kit.KindNames[c.Kind], "hdr_keys": mdKeys(c.Hdr), "trl_keys": mdKeys(c.Trl)}}
	return
}

func mdKeys(kvs []kit.KV) []string {
	var out []string
	for _, kv := range kvs {
		out = append(out, kv.K)
	}
	return out
}

func TestC04Foreign(t *testing.T) { checkProp(t, "C04", "foreign", genC04Foreign, execC04Foreign) }

// ---- C04 concurrent: SetHeader from a second handler goroutine while the first message is on its way out ----

type C04Conc struct {
	Yields int  `json:"yields"` // scheduler yields between "the first send has started" and the SetHeader call
	Ser    bool `json:"ser"`
}

func genC04Conc(t *rapid.T) C04Conc {
	return C04Conc{Yields: rapid.IntRange(0, 20).Draw(t, "yields"), Ser: rapid.Bool().Draw(t, "ser")}
}

func execC04Conc(t *testing.T, c C04Conc) (v Verdict) {
	var setErr error
	setDone := false
	var hdr metadata.MD
	var hdrErr error
	res := kit.Bubble(t, func() {
		bg := context.Background()
		svc := kit.NewSvc()
		svc.Unary("busy", func(ctx context.Context, req []byte) ([]byte, error) { return []byte("busy-reply"), nil })
		about := make(chan struct{})
		svc.Stream("h", true, true, func(s grpcServerStream) error {
			started := make(chan struct{})
			var wg sync.WaitGroup
			wg.Add(2)
			go func() {
				defer wg.Done()
				close(started)
				_ = kit.SendBytes(s, []byte("m1")) // parks: the connection's writer is busy
			}()
			go func() {
				defer wg.Done()
				<-started
				for i := 0; i < c.Yields; i++ {
					runtime.Gosched()
				}
				close(about)
				setErr = s.SetHeader(metadata.Pairs("late", "x"))
				setDone = true
			}()
			wg.Wait()
			return nil
		})
		w := kit.NewWorld(kit.Topo{Kind: "direct", Serialize: c.Ser, Clients: 1}, svc, nil, nil)
		l := w.Links[0]
		l.B.Hold(func(r *kit.Rpc) bool { return bytes.Equal(unwrapBytes(r.GetBody().GetData()), []byte("busy-reply")) })
		go func() { _, _ = kit.Invoke(bg, w.Conn(0), "busy", []byte("q")) }()
		kit.Settle() // the writer goroutine is parked in the held reply write
		cdone := make(chan struct{})
		go func() {
			defer close(cdone)
			cs, err := w.Conn(0).NewStream(bg, kit.StreamDescFor(kit.KindBidi), kit.FullMethod("h"))
			if err != nil {
				hdrErr = err
				return
			}
			hdr, hdrErr = cs.Header()
			for {
				if _, err := kit.RecvBytes(cs); err != nil {
					break
				}
			}
		}()
		// no settle here: on a tree that serialises SetHeader against SendMsg the second goroutine queues
		// for a mutex, which never counts as durably blocked
		<-about
		for i := 0; i < 20; i++ {
			runtime.Gosched()
		}
		l.B.Hold(nil)
		for _, h := range l.Held() {
			h.Release()
		}
		kit.Settle()
		<-cdone
		w.Shutdown()
		kit.Settle()
	})
	if res.Panic != nil {
		v.failf("panic: %v\n%s", res.Panic, res.Stack)
	}
	if !setDone {
		v.failf("SetHeader never returned")
	} else if hdrErr != nil {
		v.failf("Header() failed: %v", hdrErr)
	} else if setErr == nil && len(hdr["late"]) != 1 {
		v.failf("SetHeader returned nil while the first message was on its way out, but the header never reached the caller (got %v)", hdr)
	} else if setErr != nil && len(hdr["late"]) != 0 {
		v.failf("SetHeader failed (%v) but the header reached the caller", setErr)
	}
	v.Info = kit.CaseInfo{Labels: []string{"concurrent", fmt.Sprintf("sethdr_accepted=%v", setErr == nil)}, NonTrivial: true, Key: fmt.Sprintf("%+v", c), Sample: c}
	return
}

func TestC04Conc(t *testing.T) { checkProp(t, "C04", "concurrent", genC04Conc, execC04Conc) }

// ---- C04 reuse: metadata objects that the application keeps and passes again ----------------
//
// An application may keep one metadata.MD and hand the same object to SetHeader / SetTrailer / the outgoing context in
// call after call. Each call must still observe exactly what was set for it, and the library must leave the
// application's objects as they were.

type C04Reuse struct {
	Kind    int        `json:"kind"` // server-streaming or bidi
	Calls   int        `json:"calls"`
	Base    []kit.KV   `json:"base"`    // the handler's long-lived header set, passed first in every call
	TBase   []kit.KV   `json:"tbase"`   // the handler's long-lived trailer set
	ReqBase []kit.KV   `json:"reqbase"` // the caller's long-lived outgoing metadata
	Extra   [][]kit.KV `json:"extra"`   // per call: a second header set
	TExtra  [][]kit.KV `json:"textra"`  // per call: a second trailer set
	Send    bool       `json:"send"`    // second header set goes through SendHeader instead of SetHeader
	Ser     bool       `json:"ser"`
}

func genC04Reuse(t *rapid.T) C04Reuse {
	pool := &[]string{}
	c := C04Reuse{Kind: rapid.SampledFrom([]int{kit.KindServer, kit.KindBidi}).Draw(t, "kind"), Calls: rapid.IntRange(2, 5).Draw(t, "calls"), Send: rapid.Bool().Draw(t, "send"), Ser: rapid.Bool().Draw(t, "ser")}
	c.Base = kit.GenMDPool(t, pool, 4)
	c.TBase = kit.GenMDPool(t, pool, 4)
	c.ReqBase = kit.GenMDPool(t, pool, 4)
	for i := 0; i < c.Calls; i++ {
		c.Extra = append(c.Extra, kit.GenMDPool(t, pool, 3))
		c.TExtra = append(c.TExtra, kit.GenMDPool(t, pool, 3))
	}
	return c
}

func execC04Reuse(t *testing.T, c C04Reuse) (v Verdict) {
	base, tbase, reqbase := kit.MDOf(c.Base), kit.MDOf(c.TBase), kit.MDOf(c.ReqBase)
	type obs struct {
		hdr, trl, req metadata.MD
		err           error
	}
	o := make([]obs, c.Calls)
	var mu sync.Mutex
	call := 0
	res := kit.Bubble(t, func() {
		svc := kit.NewSvc()
		svc.Stream("r", true, true, func(s grpcServerStream) error {
			mu.Lock()
			i := call
			call++
			mu.Unlock()
			if md, ok := metadata.FromIncomingContext(s.Context()); ok {
				o[i].req = md.Copy()
			}
			_ = s.SetHeader(base) // the same object in every call
			if c.Send {
				_ = s.SendHeader(kit.MDOf(c.Extra[i]))
			} else {
				_ = s.SetHeader(kit.MDOf(c.Extra[i]))
			}
			s.SetTrailer(tbase)
			s.SetTrailer(kit.MDOf(c.TExtra[i]))
			if _, err := kit.RecvBytes(s); err != nil {
				return err
			}
			return kit.SendBytes(s, []byte{byte(i)})
		})
		w := kit.NewWorld(kit.Topo{Kind: "direct", Serialize: c.Ser, Clients: 1}, svc, nil, nil)
		for i := 0; i < c.Calls; i++ {
			ctx := metadata.NewOutgoingContext(context.Background(), reqbase) // the same object in every call
			cs, err := w.Conn(0).NewStream(ctx, kit.StreamDescFor(c.Kind), kit.FullMethod("r"))
			if err != nil {
				o[i].err = err
				continue
			}
			_ = kit.SendBytes(cs, []byte("q"))
			_ = cs.CloseSend()
			o[i].hdr, _ = cs.Header()
			for {
				if _, err := kit.RecvBytes(cs); err != nil {
					if err.Error() != "EOF" {
						o[i].err = err
					}
					break
				}
			}
			o[i].trl = cs.Trailer()
			kit.Settle()
		}
		w.Shutdown()
		kit.Settle()
	})
	if res.Panic != nil {
		v.failf("panic: %v\n%s", res.Panic, res.Stack)
	}
	for i := range o {
		if o[i].err != nil {
			v.failf("call %d failed: %v", i, o[i].err)
			continue
		}
		if msg := kit.MDEqual(o[i].hdr, kit.ModelMD(c.Base, c.Extra[i])); msg != "" {
			v.failf("call %d (of %d reusing one header object): response headers: %s", i, c.Calls, msg)
		}
		if msg := kit.MDEqual(o[i].trl, kit.ModelMD(c.TBase, c.TExtra[i])); msg != "" {
			v.failf("call %d (of %d reusing one trailer object): trailers: %s", i, c.Calls, msg)
		}
		if msg := kit.MDEqual(o[i].req, kit.ModelMD(c.ReqBase), ":authority", "content-type", "user-agent", "grpc-timeout"); msg != "" {
			v.failf("call %d (of %d reusing one outgoing metadata object): request metadata: %s", i, c.Calls, msg)
		}
	}
	// the application's objects are untouched
	if msg := kit.MDEqual(base, kit.ModelMD(c.Base)); msg != "" {
		v.failf("the handler's own header object was modified by the library: %s", msg)
	}
	if msg := kit.MDEqual(tbase, kit.ModelMD(c.TBase)); msg != "" {
		v.failf("the handler's own trailer object was modified by the library: %s", msg)
	}
	if msg := kit.MDEqual(reqbase, kit.ModelMD(c.ReqBase)); msg != "" {
		v.failf("the caller's own outgoing metadata object was modified by the library: %s", msg)
	}
	v.Info = kit.CaseInfo{Labels: []string{"md-reuse", fmt.Sprintf("reuse.sendheader=%v", c.Send)}, NonTrivial: len(c.Base) > 0 || len(c.TBase) > 0, Key: fmt.Sprintf("%+v", c), Sample: c}
	return
}

func TestC04Reuse(t *testing.T) { checkProp(t, "C04", "reuse", genC04Reuse, execC04Reuse) }

// ---- C04 after the Serve context ended ---------------------------------------------------------
//
// Cancelling the context that was passed to Serve does not stop goat from serving the connection (Stop does). Handlers
// started afterwards run with a context that is already done - and must still see the caller's request metadata.

type C04ServeCtx struct {
	Calls []struct {
		Kind int      `json:"kind"`
		MD   []kit.KV `json:"md"`
		// streaming handlers: SetHeader(H1), SendHeader(H2) - whose write may well be refused, the stream's context
		// being done - and SetTrailer(T); whichever way the headers leave, the caller must get H1+H2 and T
		H1 []kit.KV `json:"h1,omitempty"`
		H2 []kit.KV `json:"h2,omitempty"`
		T  []kit.KV `json:"t,omitempty"`
	} `json:"calls"`
	Ser   bool `json:"ser"`
	Stats bool `json:"stats,omitempty"`
}

func genC04ServeCtx(t *rapid.T) C04ServeCtx {
	c := C04ServeCtx{Ser: rapid.Bool().Draw(t, "ser"), Stats: rapid.IntRange(0, 3).Draw(t, "stats") == 0}
	n := rapid.IntRange(1, 4).Draw(t, "n")
	for i := 0; i < n; i++ {
		c.Calls = append(c.Calls, struct {
			Kind int      `json:"kind"`
			MD   []kit.KV `json:"md"`
			H1   []kit.KV `json:"h1,omitempty"`
			H2   []kit.KV `json:"h2,omitempty"`
			T    []kit.KV `json:"t,omitempty"`
		}{Kind: rapid.SampledFrom(allKinds).Draw(t, "kind"), MD: kit.GenMD(t, 5), H1: kit.GenMD(t, 3), H2: kit.GenMD(t, 3), T: kit.GenMD(t, 3)})
	}
	return c
}

func execC04ServeCtx(t *testing.T, c C04ServeCtx) (v Verdict) {
	n := len(c.Calls)
	seen := make([]metadata.MD, n)
	ran := make([]bool, n)
	gotH, gotT, ended := make([]metadata.MD, n), make([]metadata.MD, n), make([]bool, n)
	var mu sync.Mutex
	res := kit.Bubble(t, func() {
		svc := kit.NewSvc()
		for i := range c.Calls {
			i := i
			rec := func(ctx context.Context) {
				md, _ := metadata.FromIncomingContext(ctx)
				mu.Lock()
				seen[i], ran[i] = md.Copy(), true
				mu.Unlock()
			}
			svc.Unary(fmt.Sprintf("u%d", i), func(ctx context.Context, req []byte) ([]byte, error) { rec(ctx); return req, nil })
			svc.Stream(fmt.Sprintf("s%d", i), true, true, func(s grpcServerStream) error {
				rec(s.Context())
				_ = s.SetHeader(kit.MDOf(c.Calls[i].H1))
				_ = s.SendHeader(kit.MDOf(c.Calls[i].H2)) // refused or not: the context is already done
				s.SetTrailer(kit.MDOf(c.Calls[i].T))
				return nil
			})
		}
		w := kit.NewWorld(kit.Topo{Kind: "direct", Serialize: c.Ser, Clients: 1, Stats: c.Stats}, svc, nil, nil)
		kit.Settle()
		w.CancelServeCtx()
		kit.Settle()
		for i, call := range c.Calls {
			ctx, cancel := context.WithTimeout(metadata.NewOutgoingContext(context.Background(), kit.MDOf(call.MD)), time.Hour)
			if call.Kind == kit.KindUnary {
				_, _ = kit.Invoke(ctx, w.Conn(0), fmt.Sprintf("u%d", i), []byte("x"))
			} else if cs, err := w.Conn(0).NewStream(ctx, kit.StreamDescFor(call.Kind), kit.FullMethod(fmt.Sprintf("s%d", i))); err == nil {
				_ = cs.CloseSend()
				if _, err := kit.RecvBytes(cs); err == io.EOF {
					hd, herr := cs.Header()
					mu.Lock()
					gotH[i], gotT[i], ended[i] = hd.Copy(), cs.Trailer().Copy(), herr == nil
					mu.Unlock()
				}
			}
			cancel()
			kit.Settle()
		}
		w.Shutdown()
		kit.Settle()
	})
	if res.Panic != nil {
		v.failf("panic: %v\n%s", res.Panic, res.Stack)
	}
	started, streamsEnded := 0, 0
	for i, call := range c.Calls {
		if !ran[i] {
			continue // whether goat still starts handlers then is not C04's business
		}
		started++
		if msg := kit.MDEqual(seen[i], kit.ModelMD(call.MD), ":authority", "content-type", "user-agent", "grpc-timeout"); msg != "" {
			v.failf("call %d (%s) served after the Serve context had ended: request metadata seen by the handler: %s", i, kit.KindNames[call.Kind], msg)
		}
		if call.Kind != kit.KindUnary && ended[i] {
			// the stream ended successfully for its caller: the handler's headers and trailers came with it
			streamsEnded++
			if msg := kit.MDEqual(gotH[i], kit.ModelMD(append(append([]kit.KV{}, call.H1...), call.H2...)), "content-type"); msg != "" {
				v.failf("call %d (%s) served after the Serve context had ended: headers seen by the caller (SetHeader + a SendHeader on a context that is done): %s", i, kit.KindNames[call.Kind], msg)
			}
			if msg := kit.MDEqual(gotT[i], kit.ModelMD(call.T)); msg != "" {
				v.failf("call %d (%s) served after the Serve context had ended: trailers seen by the caller: %s", i, kit.KindNames[call.Kind], msg)
			}
		}
	}
	v.Info = kit.CaseInfo{Labels: []string{"servectx-ended", fmt.Sprintf("servectx.handlers_started=%v", started > 0), fmt.Sprintf("servectx.stream_completed=%v", streamsEnded > 0)}, NonTrivial: started > 0, Key: fmt.Sprintf("%+v", c), Sample: c}
	return
}

func TestC04ServeCtx(t *testing.T) { checkProp(t, "C04", "servectx", genC04ServeCtx, execC04ServeCtx) }
