package props

import (
	"bytes"
	"fmt"
	"strings"

	"google.golang.org/grpc/codes"
	"google.golang.org/grpc/status"
	"google.golang.org/protobuf/proto"
	"verifharness/kit"
)

func countOps(ops []kit.HOp, name string) int {
	n := 0
	for _, o := range ops {
		if o.Op == name {
			n++
		}
	}
	return n
}

func clientSendPayloads(cv *kit.Conv) [][]byte {
	var out [][]byte
	for _, o := range cv.COps {
		if o.Op == "send" {
			out = append(out, o.P.Bytes())
		}
	}
	return out
}

func handlerSendPayloads(cv *kit.Conv) [][]byte {
	var out [][]byte
	for _, o := range cv.H.Ops {
		if o.Op == "send" {
			out = append(out, o.P.Bytes())
		}
	}
	return out
}

// oracleDelivery is the C02 history invariant for one fault-free streaming conversation.
func oracleDelivery(out *kit.ConvOut) string {
	cv := out.Conv
	c, h := out.C, out.H
	if c.OpenErr != nil {
		return fmt.Sprintf("%s: NewStream failed: %s", out.Name, c.OpenErr.Raw)
	}
	if !c.Done {
		return fmt.Sprintf("%s: caller program never finished", out.Name)
	}
	if !h.Started || h.StartedN != 1 {
		return fmt.Sprintf("%s: handler ran %d times", out.Name, h.StartedN)
	}
	if !h.Returned {
		return fmt.Sprintf("%s: handler never returned", out.Name)
	}
	sent := clientSendPayloads(cv)
	hr := countOps(cv.H.Ops, "recv")
	nc := len(sent)
	need := hr
	if need > nc {
		need = nc
	}
	if len(c.Sends) != nc {
		return fmt.Sprintf("%s: caller performed %d sends, program has %d", out.Name, len(c.Sends), nc)
	}
	for i := 0; i < need; i++ {
		if !c.Sends[i].Err.Nil {
			return fmt.Sprintf("%s: send #%d failed (%s) although the handler was still going to read it", out.Name, i, c.Sends[i].Err.Raw)
		}
	}
	if !kit.BytesEq(h.Recv, sent[:need]) {
		return fmt.Sprintf("%s: handler received %v, caller sent %v (first %d expected)", out.Name, h.RecvD, digests(sent), need)
	}
	if hr > nc {
		if h.RecvEnd == nil || !h.RecvEnd.EOF {
			return fmt.Sprintf("%s: handler read past the last message and must see io.EOF after half-close, saw %+v", out.Name, h.RecvEnd)
		}
	} else if h.RecvEnd != nil {
		return fmt.Sprintf("%s: handler receive #%d failed with %s although the caller sent %d messages", out.Name, len(h.Recv), h.RecvEnd.Raw, nc)
	}
	hsent := handlerSendPayloads(cv)
	if len(h.SendErrs) > 0 {
		return fmt.Sprintf("%s: handler send failed: %s", out.Name, h.SendErrs[0].Raw)
	}
	if !kit.BytesEq(h.Sent, hsent) {
		return fmt.Sprintf("%s: handler log inconsistent", out.Name)
	}
	if !kit.BytesEq(c.Recv, hsent) {
		return fmt.Sprintf("%s: caller received %d messages %v, handler sent %d %v", out.Name, len(c.Recv), c.RecvD, len(hsent), digests(hsent))
	}
	if c.RecvEnd == nil {
		return fmt.Sprintf("%s: caller never observed the end of the stream", out.Name)
	}
	ok := cv.H.Ret.Build() == nil
	if ok && !c.RecvEnd.EOF {
		return fmt.Sprintf("%s: handler returned success but the caller's terminal receive reported %q (code %s)", out.Name, c.RecvEnd.Raw, c.RecvEnd.Code)
	}
	if !ok && (c.RecvEnd.EOF || c.RecvEnd.Nil) {
		return fmt.Sprintf("%s: handler failed but the caller observed a clean end of stream", out.Name)
	}
	for _, a := range c.RecvAfter {
		if a.Nil {
			return fmt.Sprintf("%s: receive after the end of the stream returned data (%s)", out.Name, a.Raw)
		}
		if ok && !a.EOF {
			return fmt.Sprintf("%s: receive after a clean end reported %q", out.Name, a.Raw)
		}
	}
	return ""
}

func digests(bs [][]byte) []string {
	var out []string
	for _, b := range bs {
		out = append(out, kit.Digest(b))
	}
	return out
}

// oracleStatus is the C03 predicate: got is what the caller observed (nil = success).
func oracleStatus(name string, spec kit.ErrSpec, got kit.ErrObs, stream bool) string {
	want := spec.Build()
	if want == nil {
		if stream {
			if !got.EOF {
				return fmt.Sprintf("%s: handler succeeded, caller saw %q", name, got.Raw)
			}
		} else if !got.Nil {
			return fmt.Sprintf("%s: handler succeeded, caller saw %q", name, got.Raw)
		}
		return ""
	}
	if got.Nil || got.EOF {
		return fmt.Sprintf("%s: handler returned %q, caller saw success", name, want.Error())
	}
	st, ok := status.FromError(got.Err())
	if !ok {
		return fmt.Sprintf("%s: caller error %q carries no gRPC status", name, got.Raw)
	}
	if st.Code() == codes.OK {
		return fmt.Sprintf("%s: caller error has code OK", name)
	}
	switch spec.Kind {
	case "status", "wrapped":
		wst, _ := status.FromError(want)
		if uint32(st.Code()) != spec.Code {
			return fmt.Sprintf("%s: code %d, handler returned %d", name, st.Code(), spec.Code)
		}
		if spec.Kind == "status" && st.Message() != spec.Message() {
			return fmt.Sprintf("%s: message %q, handler returned %q", name, trunc(st.Message()), trunc(spec.Message()))
		}
		if spec.Kind == "wrapped" && !strings.Contains(st.Message(), spec.Message()) {
			return fmt.Sprintf("%s: message %q does not contain %q", name, trunc(st.Message()), trunc(spec.Message()))
		}
		gd, wd := st.Proto().GetDetails(), wst.Proto().GetDetails()
		if len(gd) != len(wd) {
			return fmt.Sprintf("%s: %d details, handler returned %d", name, len(gd), len(wd))
		}
		for i := range gd {
			if !proto.Equal(gd[i], wd[i]) {
				return fmt.Sprintf("%s: detail %d differs: %v vs %v", name, i, gd[i], wd[i])
			}
		}
	case "okstatus", "eof", "wrapped-eof": // failures whose own status says OK / that look like end-of-stream: must still be failures (checked above)
	default: // plain / context errors: non-OK status carrying the text
		if !strings.Contains(st.Message(), want.Error()) {
			return fmt.Sprintf("%s: message %q does not carry the error text %q", name, trunc(st.Message()), want.Error())
		}
	}
	return ""
}

func trunc(s string) string {
	if len(s) > 80 {
		return s[:80] + "…"
	}
	return s
}

// oracleUnary checks a fault-free unary conversation (C01 + C03 parts).
func oracleUnary(out *kit.ConvOut) string {
	cv := out.Conv
	if !out.UDone {
		return fmt.Sprintf("%s: Invoke never returned", out.Name)
	}
	if len(out.UH.Reqs) != 1 {
		return fmt.Sprintf("%s: unary handler ran %d times", out.Name, len(out.UH.Reqs))
	}
	if !bytes.Equal(out.UH.Reqs[0], cv.Req.Bytes()) {
		return fmt.Sprintf("%s: handler saw request %s, caller sent %s", out.Name, kit.Digest(out.UH.Reqs[0]), kit.Digest(cv.Req.Bytes()))
	}
	if msg := oracleStatus(out.Name, cv.UErr, out.UErr, false); msg != "" {
		return msg
	}
	if cv.UErr.Build() == nil && !bytes.Equal(out.UReply, cv.Reply.Bytes()) {
		return fmt.Sprintf("%s: reply %s, handler produced %s", out.Name, kit.Digest(out.UReply), kit.Digest(cv.Reply.Bytes()))
	}
	return ""
}
