package props

import (
	"context"
	"errors"
	"fmt"
	"google.golang.org/protobuf/proto"
	"strings"
	"sync"
	"testing"
	"time"

	goat "github.com/avos-io/goat"
	"github.com/avos-io/goat/gen/goatorepo"
	"pgregory.net/rapid"
	"verifharness/kit"
)

// ---- C18: demultiplexer ------------------------------------------------------------

type C18Op struct {
	Op  string `json:"op"` // feed | pause | resume | write | cancel | stop
	Key int    `json:"key"`
}

type C18Case struct {
	Keys int     `json:"keys"`
	Ops  []C18Op `json:"ops"`
	Ser  bool    `json:"ser"`
	// OddKey: key 0 has an unusual value (empty | blank | path | utf8) instead of "k0"
	OddKey string `json:"odd_key,omitempty"`
}

func genC18(t *rapid.T) C18Case {
	c := C18Case{Keys: rapid.IntRange(1, 8).Draw(t, "keys"), Ser: rapid.Bool().Draw(t, "ser"), OddKey: rapid.SampledFrom([]string{"", "", "", "empty", "blank", "path", "utf8"}).Draw(t, "odd_key")}
	n := rapid.IntRange(1, 40).Draw(t, "nops")
	stopped := false
	for i := 0; i < n && !stopped; i++ {
		op := rapid.SampledFrom([]string{"feed", "feed", "feed", "feed", "write", "write", "pause", "resume", "cancel", "stop"}).Draw(t, "op")
		if op == "stop" && i < n-3 {
			op = "feed" // keep Stop near the end so that histories stay long
		}
		c.Ops = append(c.Ops, C18Op{Op: op, Key: rapid.IntRange(0, c.Keys-1).Draw(t, "key")})
		stopped = op == "stop"
	}
	return c
}

type c18Conn struct {
	rw       goat.RpcReadWriter
	key      string
	keyed    bool // key has been learnt (the key itself may be the empty string)
	mu       sync.Mutex
	got      []uint64
	changed  []uint64 // ids whose envelope did not arrive as it was fed
	blamed   error    // a Read failed with a context error although the context it was given was alive
	paused   bool
	resume   chan struct{}
	readErr  error
	readDone bool
	cancel   context.CancelFunc
	stopRead context.CancelFunc
}

func execC18(t *testing.T, c C18Case) (v Verdict) {
	cancelSeen, stopSeen, pausedCancel := false, false, false
	res := kit.Bubble(t, func() {
		bg := context.Background()
		tp := kit.NewTap()
		shared := kit.NewLink("shared", tp, c.Ser)
		var mu sync.Mutex
		var conns []*c18Conn // in announcement order
		live := map[string]*c18Conn{}
		dead := map[string]*c18Conn{} // the last cancelled life of each key
		pauseNext := map[string]bool{}
		runReturned := false
		// readers: one goroutine per announced logical connection, consuming everything unless paused
		onNew := func(rw goat.RpcReadWriter) {
			cn := &c18Conn{rw: rw, resume: make(chan struct{}, 1)}
			ctx, cancel := context.WithCancel(bg)
			cn.cancel = cancel
			mu.Lock()
			conns = append(conns, cn)
			mu.Unlock()
			for {
				cn.mu.Lock()
				p := cn.paused
				rctx, rcancel := context.WithCancel(ctx)
				cn.stopRead = rcancel
				cn.mu.Unlock()
				if p {
					rcancel()
					select {
					case <-cn.resume:
					case <-ctx.Done():
						return
					}
					continue
				}
				r, err := rw.Read(rctx)
				ctxAlive := rctx.Err() == nil
				rcancel()
				if err != nil {
					if ctxAlive && (errors.Is(err, context.Canceled) || errors.Is(err, context.DeadlineExceeded)) {
						// the read failed, as it must after a cancellation - but it blames a context, and the one it
						// was given is alive
						cn.mu.Lock()
						cn.blamed = err
						cn.mu.Unlock()
					}
					cn.mu.Lock()
					p = cn.paused
					cn.mu.Unlock()
					if p && ctx.Err() == nil && rctx.Err() != nil {
						continue // interrupted by a pause, nothing was consumed
					}
					cn.mu.Lock()
					cn.readErr, cn.readDone = err, true
					cn.mu.Unlock()
					return
				}
				cn.mu.Lock()
				if !cn.keyed {
					cn.key, cn.keyed = r.GetHeader().GetSource(), true
					mu.Lock()
					live[cn.key] = cn
					if pauseNext[cn.key] {
						cn.paused = true
					}
					mu.Unlock()
				}
				cn.got = append(cn.got, r.GetId())
				if !proto.Equal(r, c18Env(r.GetId(), cn.key, "srv")) {
					cn.changed = append(cn.changed, r.GetId())
				}
				cn.mu.Unlock()
			}
		}
		dm := goat.NewDemux(bg, shared.B, func(r *goat.Rpc) string { return r.GetHeader().GetSource() }, onNew)
		go func() {
			dm.Run()
			mu.Lock()
			runReturned = true
			mu.Unlock()
		}()
		// ---- model ----
		type mconn struct {
			fed       []uint64 // envelopes the run loop handed (or is about to hand) to this life, in order
			cancelled bool
			paused    bool
			dropped   int

			pauseAfterFirst bool
		}
		type menv struct {
			key string
			id  uint64
		}
		model := map[string]*mconn{}        // current life of each key
		livesByKey := map[string][]*mconn{} // all lives of a key, in creation order
		mPauseNext := map[string]bool{}
		var queue []menv // fed, not yet taken by a reader; the head may be parked in the run loop's hand-off
		headOffered := false
		// advance simulates the run loop: it looks up/creates the head's connection and hands the envelope over
		// as soon as that connection's reader reads
		advance := func() {
			for len(queue) > 0 {
				e := queue[0]
				m := model[e.key]
				if !headOffered {
					if m == nil || m.cancelled {
						// the harness reader learns its key (and a pending pause) from its first envelope
						m = &mconn{pauseAfterFirst: mPauseNext[e.key]}
						model[e.key] = m
						livesByKey[e.key] = append(livesByKey[e.key], m)
					}
					m.fed = append(m.fed, e.id)
					headOffered = true
				}
				if m.cancelled {
					// cancelled while parked in the hand-off: dropped
					m.fed = m.fed[:len(m.fed)-1]
					m.dropped++
				} else if m.paused {
					return
				} else if m.pauseAfterFirst {
					m.pauseAfterFirst, m.paused = false, true
				}
				queue = queue[1:]
				headOffered = false
			}
		}
		tok := uint64(0)
		var wrote []uint64 // ids written on logical connections, in order
		// key values: ordinary names, and - for key 0 of some cases - values a key function may well return: the empty
		// string, a blank, a name with separators, non-ASCII
		keyName := func(k int) string {
			if k == 0 && c.OddKey != "" {
				return map[string]string{"empty": "", "blank": " ", "path": "a/b:c", "utf8": "клиент-0"}[c.OddKey]
			}
			return fmt.Sprintf("k%d", k)
		}
		stopped := false
		for _, op := range c.Ops {
			k := keyName(op.Key)
			switch op.Op {
			case "feed":
				tok++
				_ = shared.A.Write(bg, c18Env(tok, k, "srv"))
				if stopped {
					break
				}
				queue = append(queue, menv{k, tok})
			case "pause":
				mu.Lock()
				cn := live[k]
				if cn == nil {
					pauseNext[k] = true // pause as soon as the connection has announced itself
				}
				mu.Unlock()
				if cn != nil {
					cn.mu.Lock()
					cn.paused = true
					if cn.stopRead != nil {
						cn.stopRead()
					}
					cn.mu.Unlock()
				}
				if m := model[k]; m != nil && !m.cancelled {
					m.paused = true
				} else {
					mPauseNext[k] = true
				}
			case "resume":
				delete(mPauseNext, k)
				if m := model[k]; m != nil {
					m.paused = false
				}
				mu.Lock()
				cn := live[k]
				delete(pauseNext, k)
				mu.Unlock()
				if cn != nil {
					cn.mu.Lock()
					cn.paused = false
					cn.mu.Unlock()
					select {
					case cn.resume <- struct{}{}:
					default:
					}
				}
			case "write":
				mu.Lock()
				cn := live[k]
				mu.Unlock()
				if cn == nil {
					// a write on the connection of a key's cancelled life fails, whatever the envelope carries
					if dc := dead[k]; dc != nil && !stopped {
						tok++
						id := tok
						done := make(chan error, 1)
						go func() { done <- dc.rw.Write(bg, c18Env(id, "srv", k)) }()
						kit.Settle()
						select {
						case err := <-done:
							if err == nil {
								v.failf("write of envelope id %d on the cancelled logical connection %s succeeded", id, k)
							}
						default:
							v.failf("write on the cancelled logical connection %s blocked", k)
						}
					}
					break
				}
				tok++
				m := model[k]
				id := tok
				done := make(chan error, 1)
				go func() {
					ctx, cancel := context.WithTimeout(bg, time.Hour)
					defer cancel()
					done <- cn.rw.Write(ctx, c18Env(id, "srv", k))
				}()
				kit.Settle()
				select {
				case err := <-done:
					if m != nil && !m.cancelled && !stopped {
						if err != nil {
							v.failf("write on live logical connection %s failed: %v", k, err)
						}
						wrote = append(wrote, id)
					} else if err == nil && m != nil && m.cancelled {
						v.failf("write on the cancelled logical connection %s succeeded", k)
					}
				default:
					v.failf("write on logical connection %s blocked (cancelled=%v stopped=%v)", k, m != nil && m.cancelled, stopped)
				}
			case "cancel":
				cancelSeen = true
				mu.Lock()
				cn := live[k]
				// (forget the old life before Cancel: as soon as Cancel returns the run loop may already be creating
				// the next life of this key, whose reader registers itself here)
				delete(live, k)
				mu.Unlock()
				if cn != nil {
					dead[k] = cn
					cn.mu.Lock()
					if cn.paused {
						pausedCancel = true
					}
					cn.mu.Unlock()
				}
				dm.Cancel(k)
				if m := model[k]; m != nil {
					m.cancelled = true
				}
				if cn != nil {
					// the old life's reader must now get an error, not block: un-pause it so that it reads
					cn.mu.Lock()
					cn.paused = false
					cn.mu.Unlock()
					select {
					case cn.resume <- struct{}{}:
					default:
					}
				}
			case "stop":
				stopSeen = true
				dm.Stop()
				stopped = true
			}
			if !stopped {
				advance()
			}
			kit.Settle()
			if v.Fail != "" {
				break
			}
		}
		// un-pause everything and let it drain
		for k := range mPauseNext {
			delete(mPauseNext, k)
		}
		for _, ls := range livesByKey {
			for _, m := range ls {
				m.paused, m.pauseAfterFirst = false, false
			}
		}
		if !stopped {
			advance()
		}
		mu.Lock()
		for k := range pauseNext {
			delete(pauseNext, k)
		}
		mu.Unlock()
		mu.Lock()
		all := append([]*c18Conn{}, conns...)
		mu.Unlock()
		for _, cn := range all {
			cn.mu.Lock()
			cn.paused = false
			cn.mu.Unlock()
			select {
			case cn.resume <- struct{}{}:
			default:
			}
		}
		kit.Settle()
		// ---- oracle ----
		mu.Lock()
		rr := runReturned
		all = append([]*c18Conn{}, conns...) // including the connections announced during the drain
		mu.Unlock()
		if stopped && !rr {
			v.failf("Run did not return after Stop")
		}
		// announcements: one per life that received at least one envelope
		byKey := map[string][]*c18Conn{}
		for _, cn := range all {
			cn.mu.Lock()
			if cn.keyed {
				byKey[cn.key] = append(byKey[cn.key], cn)
			}
			cn.mu.Unlock()
		}
		for k, ls := range livesByKey {
			cs := byKey[k]
			// every envelope the run loop handed to a life arrives exactly once, in order, on that life's own
			// connection (lives to which nothing was ever handed over have no identifiable connection)
			ci := 0
			for li, m := range ls {
				if len(m.fed) == 0 {
					continue
				}
				if ci >= len(cs) {
					if !stopped {
						v.failf("key %s life %d: %d envelopes handed over but no logical connection received them", k, li, len(m.fed))
					}
					continue
				}
				cn := cs[ci]
				ci++
				cn.mu.Lock()
				got := append([]uint64{}, cn.got...)
				cn.mu.Unlock()
				if stopped && len(got) < len(m.fed) {
					// Stop may leave the tail undelivered
					if fmt.Sprint(got) != fmt.Sprint(m.fed[:len(got)]) {
						v.failf("key %s life %d: connection received %v, fed %v", k, li, got, m.fed)
					}
				} else if fmt.Sprint(got) != fmt.Sprint(m.fed) {
					v.failf("key %s life %d: connection received %v, the run loop was fed %v for it (lost, duplicated, reordered or misrouted)", k, li, got, m.fed)
				}
			}
			nonEmpty := 0
			for _, m := range ls {
				if len(m.fed) > 0 {
					nonEmpty++
				}
			}
			if len(cs) > nonEmpty {
				v.failf("key %s: %d logical connections received envelopes, the model has %d lives with envelopes", k, len(cs), nonEmpty)
			}
		}
		for _, cn := range all {
			cn.mu.Lock()
			if !cn.keyed && len(cn.got) > 0 {
				v.failf("a connection received envelopes without a key")
			}
			// (cn.blamed - a Read that fails with a context error although its own context is alive - is recorded but not
			// judged: C18 only says that reads on a cancelled connection fail, not with which error; an implementation that
			// signals cancellation through a context of its own would be within the property)
			_ = cn.blamed
			if len(cn.changed) > 0 {
				v.failf("envelopes %v were changed between the shared transport and logical connection %s", cn.changed, cn.key)
			}
			cn.mu.Unlock()
		}
		// writes appear unchanged, in order, on the shared transport
		var out []uint64
		for _, r := range shared.A.ReadAvailable() {
			out = append(out, r.GetId())
			if !proto.Equal(r, c18Env(r.GetId(), "srv", r.GetHeader().GetDestination())) {
				v.failf("envelope %d written on a logical connection was changed on the shared transport: %s", r.GetId(), truncStr(r.String()))
			}
		}
		if fmt.Sprint(out) != fmt.Sprint(wrote) {
			v.failf("shared transport carried %v, the logical connections wrote %v", out, wrote)
		}
		// readers of cancelled lives must have terminated with an error
		for k, ls := range livesByKey {
			cs := byKey[k]
			ci := 0
			for li, m := range ls {
				if len(m.fed) == 0 {
					continue
				}
				if ci < len(cs) {
					if m.cancelled {
						cs[ci].mu.Lock()
						if !cs[ci].readDone {
							v.failf("key %s life %d: Read on the cancelled logical connection is still blocked", k, li)
						}
						cs[ci].mu.Unlock()
					}
					ci++
				}
			}
		}
		// announcements: exactly one per life of a key
		announced := len(all)
		lifeCount := 0
		for _, ls := range livesByKey {
			lifeCount += len(ls)
		}
		if announced != lifeCount && !stopped {
			v.failf("%d logical connections were announced for %d key lives", announced, lifeCount)
		}
		dm.Stop()
		for _, cn := range all {
			cn.cancel()
		}
		shared.Close()
		kit.Settle()
	})
	if res.Panic != nil {
		v.failf("panic: %v\n%s", res.Panic, res.Stack)
	}
	v.Info = kit.CaseInfo{Labels: []string{fmt.Sprintf("cancel=%v", cancelSeen), fmt.Sprintf("stop=%v", stopSeen), fmt.Sprintf("cancel_while_parked=%v", pausedCancel), fmt.Sprintf("keys=%d", c.Keys)},
		NonTrivial: c.Keys >= 2 || cancelSeen || stopSeen, Key: fmt.Sprintf("%+v", c), Sample: c}
	return
}

func TestC18(t *testing.T) { checkProp(t, "C18", "model", genC18, execC18) }

// ---- C18 RPC level: several logical clients, one Server, one shared transport ----

func genC18RPC(t *rapid.T) ConvCase {
	c := genConvCase(t, 8, allKinds, kit.GenOpts{MaxMsgs: 10, MaxPayload: 4096, OKBias: 70}, []string{"demux"})
	c.Topo.Clients = rapid.IntRange(2, 4).Draw(t, "dclients")
	for i := range c.Convs {
		c.Convs[i].Client = rapid.IntRange(0, c.Topo.Clients-1).Draw(t, "dclient")
	}
	return c
}

func TestC18RPC(t *testing.T) {
	checkProp(t, "C18", "rpc", genC18RPC, func(t *testing.T, c ConvCase) Verdict {
		v := execC02(t, c)
		v.Info.Labels = append(v.Info.Labels, fmt.Sprintf("demux_clients=%d", c.Topo.Clients))
		v.Info.NonTrivial = true
		return v
	})
}

// ---- C18 parked: Cancel(key) while reads and writes on that key's connection are parked ------

type C18Parked struct {
	ParkedWrites int  `json:"parked_writes"` // writes parked behind a stalled shared transport (1..3)
	ParkedRead   bool `json:"parked_read"`
	OtherKey     bool `json:"other_key"` // traffic on another key must be unaffected
	Ser          bool `json:"ser"`
}

func genC18Parked(t *rapid.T) C18Parked {
	return C18Parked{ParkedWrites: rapid.IntRange(1, 3).Draw(t, "pw"), ParkedRead: rapid.Bool().Draw(t, "pr"), OtherKey: rapid.Bool().Draw(t, "ok"), Ser: rapid.Bool().Draw(t, "ser")}
}

func execC18Parked(t *testing.T, c C18Parked) (v Verdict) {
	res := kit.Bubble(t, func() {
		bg := context.Background()
		shared := kit.NewLink("shared", kit.NewTap(), c.Ser)
		var mu sync.Mutex
		conns := map[string]goat.RpcReadWriter{}
		announced := make(chan struct{}, 8)
		dm := goat.NewDemux(bg, shared.B, func(r *goat.Rpc) string { return r.GetHeader().GetSource() }, func(rw goat.RpcReadWriter) {
			r, err := rw.Read(bg) // learn the key from the first envelope
			if err != nil {
				return
			}
			mu.Lock()
			conns[r.GetHeader().GetSource()] = rw
			mu.Unlock()
			announced <- struct{}{}
		})
		go dm.Run()
		feed := func(k string, id uint64) {
			_ = shared.A.Write(bg, &goat.Rpc{Id: id, Header: &goatorepo.RequestHeader{Method: "/x/y", Source: k, Destination: "srv"}})
		}
		feed("k0", 1)
		kit.Settle()
		if c.OtherKey {
			feed("k1", 2)
			kit.Settle()
		}
		mu.Lock()
		rw0, rw1 := conns["k0"], conns["k1"]
		mu.Unlock()
		if rw0 == nil || (c.OtherKey && rw1 == nil) {
			v.failf("logical connections were not announced")
			return
		}
		// the shared transport's write side stalls: the key's writer goroutine parks inside it with the first
		// write, further writes park on the logical connection
		shared.B.Hold(func(*goat.Rpc) bool { return true })
		type wres struct {
			done bool
			err  error
		}
		ws := make([]*wres, c.ParkedWrites+1)
		for i := range ws {
			ws[i] = &wres{}
			i := i
			go func() {
				err := rw0.Write(bg, &goat.Rpc{Id: uint64(100 + i), Header: &goatorepo.RequestHeader{Method: "/x/y", Source: "srv", Destination: "k0"}})
				mu.Lock()
				ws[i].done, ws[i].err = true, err
				mu.Unlock()
			}()
			kit.Settle()
		}
		rdone, rerr := false, error(nil)
		if c.ParkedRead {
			go func() {
				_, err := rw0.Read(bg)
				mu.Lock()
				rdone, rerr = true, err
				mu.Unlock()
			}()
			kit.Settle()
		}
		dm.Cancel("k0")
		kit.Settle()
		mu.Lock()
		parkedStill := 0
		for i, w := range ws {
			if i == 0 {
				continue // handed to the writer goroutine before the stall mattered; may have succeeded
			}
			if !w.done {
				parkedStill++
			} else if w.err == nil {
				v.failf("a write parked on the logical connection succeeded after its key was cancelled")
			}
		}
		if parkedStill > 0 {
			v.failf("%d writes parked on logical connection k0 are still blocked after Cancel(k0)", parkedStill)
		}
		if c.ParkedRead && !rdone {
			v.failf("a read parked on logical connection k0 is still blocked after Cancel(k0)")
		} else if c.ParkedRead && rerr == nil {
			v.failf("a read on the cancelled logical connection returned an envelope nobody sent")
		}
		mu.Unlock()
		// new operations on the cancelled connection fail at once
		// (whatever the envelope carries: a closing envelope with a trailer or a status, a reset, a bare id)
		for i, r := range []*goat.Rpc{{Id: 999}, c18Env(1001, "srv", "k0"), c18Env(1002, "srv", "k0"), c18Env(1005, "srv", "k0"), c18Env(1008, "srv", "k0"),
			{Id: 1011, Trailer: &goatorepo.Trailer{}}, {Id: 1012, Status: &goatorepo.ResponseStatus{}, Trailer: &goatorepo.Trailer{}}, {Id: 1013, Reset_: &goatorepo.Reset{Type: "RST_STREAM"}}} {
			if err := rw0.Write(bg, r); err == nil {
				v.failf("write #%d (id %d, trailer=%v status=%v reset=%v) on the cancelled logical connection succeeded", i, r.GetId(), r.GetTrailer() != nil, r.GetStatus() != nil, r.GetReset_() != nil)
			}
		}
		shared.B.Hold(nil)
		for _, h := range shared.Held() {
			h.Release()
		}
		kit.Settle()
		// the stall is over: every write that the logical connection accepted (returned nil) - before or during the
		// stall, before the cancellation - is on the shared transport, once; none of the refused ones is
		onWire := map[uint64]int{}
		for _, r := range shared.A.ReadAvailable() {
			onWire[r.GetId()]++
		}
		mu.Lock()
		for i, w := range ws {
			id := uint64(100 + i)
			switch {
			case w.done && w.err == nil && onWire[id] != 1:
				v.failf("write #%d on logical connection k0 returned nil before Cancel(k0), but its envelope is on the shared transport %d times once the stalled transport write has completed", i, onWire[id])
			case w.done && w.err != nil && onWire[id] != 0:
				v.failf("write #%d on logical connection k0 failed (%v) but its envelope is on the shared transport", i, w.err)
			}
		}
		mu.Unlock()
		if c.OtherKey {
			feed("k1", 3)
			kit.Settle()
			got, err := rw1.Read(bg)
			if err != nil || got.GetId() != 3 {
				v.failf("traffic of another key was disturbed by the cancellation: %v", err)
			}
			if err := rw1.Write(bg, &goat.Rpc{Id: 4, Header: &goatorepo.RequestHeader{Source: "srv", Destination: "k1"}}); err != nil {
				v.failf("write on another key failed: %v", err)
			}
			kit.Settle()
		}
		dm.Stop()
		shared.Close()
		kit.Settle()
	})
	if res.Panic != nil {
		v.failf("panic: %v\n%s", res.Panic, res.Stack)
	}
	v.Info = kit.CaseInfo{Labels: []string{"parked", fmt.Sprintf("parked_read=%v", c.ParkedRead)}, NonTrivial: true, Key: fmt.Sprintf("%+v", c), Sample: c}
	return
}

func TestC18Parked(t *testing.T) { checkProp(t, "C18", "parked", genC18Parked, execC18Parked) }

// ---- C18 storm: Cancel concurrent with new keys being attached --------------------------------

type C18Storm struct {
	Keys   int    `json:"keys"`   // keys fed, in order k0.. (each gets Msgs envelopes, key by key or interleaved)
	Msgs   int    `json:"msgs"`   // envelopes per key
	Cancel []bool `json:"cancel"` // which keys are cancelled by a second goroutine while the feeding is going on
	Inter  bool   `json:"inter"`  // feed round-robin over the keys instead of key by key
	Ser    bool   `json:"ser"`
	// Replies: every envelope read on a logical connection is answered on it (from a goroutine of its own, so that a
	// reply that can no longer be written does not keep its reader from reading on)
	Replies bool `json:"replies,omitempty"`
	// WriteFaults: with Replies, the shared transport fails the write of every third reply
	WriteFaults bool `json:"write_faults,omitempty"`
}

func genC18Storm(t *rapid.T) C18Storm {
	c := C18Storm{Keys: rapid.SampledFrom([]int{2, 4, 8, 16, 24}).Draw(t, "keys"), Msgs: rapid.IntRange(1, 4).Draw(t, "msgs"), Inter: rapid.Bool().Draw(t, "inter"), Ser: rapid.Bool().Draw(t, "ser"), Replies: rapid.Bool().Draw(t, "replies")}
	c.WriteFaults = c.Replies && rapid.Bool().Draw(t, "write_faults")
	for i := 0; i < c.Keys; i++ {
		c.Cancel = append(c.Cancel, rapid.IntRange(0, 2).Draw(t, "cancel") == 0)
	}
	return c
}

// execC18Storm: one goroutine feeds envelopes for Keys keys without pausing, a second one cancels some of the keys at the
// same time, every announced logical connection is read to its end. Keys that are never cancelled must be announced
// exactly once and receive exactly their envelopes in order; cancelled keys may lose envelopes (that is what Cancel
// means) but never see them duplicated, reordered or delivered to another key's connection; nothing crashes and the
// run loop ends at Stop.
func execC18Storm(t *testing.T, c C18Storm) (v Verdict) {
	type life struct {
		key string
		ids []uint64
	}
	var mu sync.Mutex
	var lives []*life
	runEnded, ended := false, false
	res := kit.Bubble(t, func() {
		bg := context.Background()
		shared := kit.NewLink("shared", kit.NewTap(), c.Ser)
		if c.WriteFaults {
			shared.B.FailWriteIf(func(r *goat.Rpc) bool { return r.GetId()%3 == 0 })
		}
		rctx, rcancel := context.WithCancel(bg)
		defer rcancel()
		dm := goat.NewDemux(bg, shared.B, func(r *goat.Rpc) string { return r.GetHeader().GetSource() }, func(rw goat.RpcReadWriter) {
			l := &life{}
			mu.Lock()
			lives = append(lives, l)
			mu.Unlock()
			go func() {
				for {
					r, err := rw.Read(bg)
					if err != nil {
						return
					}
					mu.Lock()
					if l.key == "" {
						l.key = r.GetHeader().GetSource()
					} else if l.key != r.GetHeader().GetSource() {
						l.key = l.key + "+" + r.GetHeader().GetSource() // foreign envelope: flagged below
					}
					l.ids = append(l.ids, r.GetId())
					mu.Unlock()
					if c.Replies {
						go func() {
							_ = rw.Write(rctx, &goat.Rpc{Id: r.GetId(), Header: &goatorepo.RequestHeader{Method: "/x/y", Source: "srv", Destination: r.GetHeader().GetSource()}})
						}()
					}
				}
			}()
		})
		go func() {
			dm.Run()
			mu.Lock()
			runEnded = true
			mu.Unlock()
		}()
		start := make(chan struct{})
		var wg sync.WaitGroup
		wg.Add(2)
		go func() {
			defer wg.Done()
			<-start
			send := func(k, j int) {
				_ = shared.A.Write(bg, &goat.Rpc{Id: uint64(1000*k + j + 1), Header: &goatorepo.RequestHeader{Method: "/x/y", Source: fmt.Sprintf("k%d", k), Destination: "srv"}})
			}
			if c.Inter {
				for j := 0; j < c.Msgs; j++ {
					for k := 0; k < c.Keys; k++ {
						send(k, j)
					}
				}
			} else {
				for k := 0; k < c.Keys; k++ {
					for j := 0; j < c.Msgs; j++ {
						send(k, j)
					}
				}
			}
		}()
		go func() {
			defer wg.Done()
			<-start
			for k, yes := range c.Cancel {
				if yes {
					dm.Cancel(fmt.Sprintf("k%d", k))
				}
			}
		}()
		kit.Settle()
		close(start)
		wg.Wait()
		kit.Settle()
		rcancel() // replies that can no longer be written give up
		shared.A.ReadAvailable()
		kit.Settle()
		dm.Stop()
		shared.Close()
		kit.Settle()
		mu.Lock()
		ended = runEnded
		mu.Unlock()
		for k := 0; k < c.Keys; k++ {
			dm.Cancel(fmt.Sprintf("k%d", k)) // ends the readers of the connections that are still alive
		}
		kit.Settle()
	})
	if res.Panic != nil {
		v.failf("panic: %v\n%s", res.Panic, res.Stack)
	}
	if len(res.Leaked) > 0 {
		v.failf("goroutines left after Stop and Cancel of every key:\n%s", strings.Join(res.Leaked, "\n"))
	}
	mu.Lock()
	defer mu.Unlock()
	runEnded = ended
	if !runEnded {
		v.failf("the run loop did not end at Stop")
	}
	perKey := map[string][]*life{}
	for _, l := range lives {
		if strings.Contains(l.key, "+") {
			v.failf("one logical connection received envelopes of several keys: %s", l.key)
		}
		perKey[l.key] = append(perKey[l.key], l)
	}
	cancelled := 0
	for k := 0; k < c.Keys; k++ {
		key := fmt.Sprintf("k%d", k)
		var all []uint64
		for _, l := range perKey[key] {
			all = append(all, l.ids...)
			for i := 1; i < len(l.ids); i++ {
				if l.ids[i] <= l.ids[i-1] {
					v.failf("%s: envelopes duplicated or reordered on one logical connection: %v", key, l.ids)
				}
			}
		}
		seen := map[uint64]bool{}
		for _, id := range all {
			if seen[id] {
				v.failf("%s: envelope %d was handed out twice", key, id)
			}
			seen[id] = true
			if id < uint64(1000*k+1) || id > uint64(1000*k+c.Msgs) {
				v.failf("%s: received envelope %d which was never sent for this key", key, id)
			}
		}
		if c.Cancel[k] {
			cancelled++
			continue
		}
		if len(perKey[key]) != 1 {
			v.failf("%s (never cancelled) was announced %d times, want exactly once", key, len(perKey[key]))
		} else if len(all) != c.Msgs {
			v.failf("%s (never cancelled) received %d of its %d envelopes: %v", key, len(all), c.Msgs, all)
		}
	}
	v.Info = kit.CaseInfo{Labels: []string{"storm", fmt.Sprintf("storm.cancels=%v", cancelled > 0), fmt.Sprintf("storm.interleaved=%v", c.Inter), fmt.Sprintf("storm.write_faults=%v", c.WriteFaults)}, NonTrivial: cancelled > 0 && c.Keys >= 4, Key: fmt.Sprintf("%+v", c), Sample: c}
	return
}

func TestC18Storm(t *testing.T) { checkProp(t, "C18", "storm", genC18Storm, execC18Storm) }

// ---- C18 write fault: one write on the shared transport fails ---------------------------------

type C18WriteFault struct {
	Before  int    `json:"before"` // envelopes written successfully on k0 before the failing one
	After   int    `json:"after"`  // envelopes fed for k0 after the fault
	ErrKind string `json:"err_kind"`
	Ser     bool   `json:"ser"`
}

func genC18WriteFault(t *rapid.T) C18WriteFault {
	return C18WriteFault{Before: rapid.IntRange(0, 3).Draw(t, "before"), After: rapid.IntRange(1, 4).Draw(t, "after"), ErrKind: rapid.SampledFrom(kit.FaultErrKinds).Draw(t, "err_kind"), Ser: rapid.Bool().Draw(t, "ser")}
}

// execC18WriteFault: a failing write on the shared transport is not a cancellation of the key. Whatever happens to
// later writes of that logical connection (not asserted), envelopes that arrive for the key are still handed to its
// connection exactly once and in order, Cancel(key) afterwards behaves as always (no crash; reads and writes then fail),
// and other keys are not disturbed.
func execC18WriteFault(t *testing.T, c C18WriteFault) (v Verdict) {
	defer kit.UseFaultKind(c.ErrKind)()
	res := kit.Bubble(t, func() {
		bg := context.Background()
		shared := kit.NewLink("shared", kit.NewTap(), c.Ser)
		var mu sync.Mutex
		conns := map[string]goat.RpcReadWriter{}
		dm := goat.NewDemux(bg, shared.B, func(r *goat.Rpc) string { return r.GetHeader().GetSource() }, func(rw goat.RpcReadWriter) {
			r, err := rw.Read(bg)
			if err != nil {
				return
			}
			mu.Lock()
			conns[r.GetHeader().GetSource()] = rw
			mu.Unlock()
		})
		go dm.Run()
		feed := func(k string, id uint64) {
			_ = shared.A.Write(bg, &goat.Rpc{Id: id, Header: &goatorepo.RequestHeader{Method: "/x/y", Source: k, Destination: "srv"}})
		}
		feed("k0", 1)
		feed("k1", 2)
		kit.Settle()
		mu.Lock()
		rw0, rw1 := conns["k0"], conns["k1"]
		mu.Unlock()
		if rw0 == nil || rw1 == nil {
			v.failf("logical connections were not announced")
			return
		}
		out := func(rw goat.RpcReadWriter, to string, id uint64) {
			wctx, cancel := context.WithTimeout(bg, time.Second)
			defer cancel()
			_ = rw.Write(wctx, &goat.Rpc{Id: id, Header: &goatorepo.RequestHeader{Method: "/x/y", Source: "srv", Destination: to}})
		}
		for i := 0; i < c.Before; i++ {
			out(rw0, "k0", uint64(100+i))
		}
		kit.Settle()
		if got := shared.A.ReadAvailable(); len(got) != c.Before {
			v.failf("%d of %d envelopes written on k0 reached the shared transport", len(got), c.Before)
		}
		shared.B.FailWriteIf(func(r *goat.Rpc) bool { return r.GetId() == 777 })
		out(rw0, "k0", 777)
		kit.Settle()
		shared.B.FailWriteIf(nil)
		// envelopes arriving for k0 are still handed to its connection
		for i := 0; i < c.After; i++ {
			feed("k0", uint64(200+i))
			kit.Settle()
			rctx, cancel := context.WithTimeout(bg, time.Second)
			got, err := rw0.Read(rctx)
			cancel()
			if err != nil || got.GetId() != uint64(200+i) {
				v.failf("after a failed write on the shared transport, envelope %d for k0 was not handed to k0's logical connection (err %v)", 200+i, err)
				break
			}
		}
		// the other key is not disturbed
		feed("k1", 300)
		kit.Settle()
		rctx, cancel := context.WithTimeout(bg, time.Second)
		if got, err := rw1.Read(rctx); err != nil || got.GetId() != 300 {
			v.failf("traffic of another key was disturbed by the failed write: %v", err)
		}
		cancel()
		out(rw1, "k1", 301)
		kit.Settle()
		if got := shared.A.ReadAvailable(); len(got) != 1 || got[0].GetId() != 301 {
			v.failf("a write on another key did not reach the shared transport after the failed write (got %d envelopes)", len(got))
		}
		// cancelling the key still works
		dm.Cancel("k0")
		kit.Settle()
		rctx, cancel = context.WithTimeout(bg, time.Second)
		if _, err := rw0.Read(rctx); err == nil {
			v.failf("a read on the cancelled logical connection returned an envelope nobody sent")
		}
		cancel()
		dm.Cancel("k1")
		dm.Stop()
		shared.Close()
		kit.Settle()
	})
	if res.Panic != nil {
		v.failf("panic: %v\n%s", res.Panic, res.Stack)
	}
	v.Info = kit.CaseInfo{Labels: []string{"writefault", "writefault.err=" + c.ErrKind}, NonTrivial: true, Key: fmt.Sprintf("%+v", c), Sample: c}
	return
}

func TestC18WriteFault(t *testing.T) {
	checkProp(t, "C18", "writefault", genC18WriteFault, execC18WriteFault)
}

// c18Env is the envelope with the given id: which sub-messages it carries is a function of the id, so that every
// combination (status, trailer, reset, header metadata) passes through the demultiplexer in both directions.
func c18Env(id uint64, src, dst string) *goat.Rpc {
	r := &goat.Rpc{Id: id, Header: &goatorepo.RequestHeader{Method: "/x/y", Source: src, Destination: dst}, Body: &goatorepo.Body{Data: []byte{byte(id), 0x18}}}
	if id%2 == 1 {
		r.Status = &goatorepo.ResponseStatus{Code: int32(id % 17), Message: fmt.Sprintf("st%d", id)}
	}
	if id%3 == 0 {
		r.Trailer = &goatorepo.Trailer{Metadata: []*goatorepo.KeyValue{{Key: "t", Value: fmt.Sprint(id)}}}
	}
	if id%5 == 0 {
		r.Reset_ = &goatorepo.Reset{Type: "RST_STREAM"}
	}
	if id%7 == 0 {
		r.Header.Headers = []*goatorepo.KeyValue{{Key: "h", Value: "v"}, {Key: "h", Value: "w"}}
		r.Body = nil
	}
	return r
}

// ---- C18 dead-context reads: a Read that is given a context that has already ended -----------------------------

// C18DeadRead: N envelopes for one key are fed while nobody reads the key's logical connection (the run loop parks handing
// over the first). A consumer on its way out then calls Read Dead times with a context that has already ended - each such
// call may return an envelope or the context's error - and a second consumer reads the rest with a live context. Every
// envelope read from the shared transport is handed over exactly once, in order: none may vanish in a Read that failed.
type C18DeadRead struct {
	N    int  `json:"n"`
	Dead int  `json:"dead"`
	Ser  bool `json:"ser"`
	// Interleave: dead-context and live reads alternate instead of all dead ones coming first
	Interleave bool `json:"interleave"`
}

func genC18DeadRead(t *rapid.T) C18DeadRead {
	return C18DeadRead{N: rapid.IntRange(1, 12).Draw(t, "n"), Dead: rapid.IntRange(1, 12).Draw(t, "dead"), Ser: rapid.Bool().Draw(t, "ser"), Interleave: rapid.Bool().Draw(t, "interleave")}
}

func execC18DeadRead(t *testing.T, c C18DeadRead) (v Verdict) {
	var got []uint64
	deadReturnedData := 0
	res := kit.Bubble(t, func() {
		bg := context.Background()
		shared := kit.NewLink("shared", kit.NewTap(), c.Ser)
		conns := make(chan goat.RpcReadWriter, 4)
		dm := goat.NewDemux(bg, shared.B, func(r *goat.Rpc) string { return r.GetHeader().GetSource() }, func(rw goat.RpcReadWriter) { conns <- rw })
		go dm.Run()
		for i := 1; i <= c.N; i++ {
			_ = shared.A.Write(bg, c18Env(uint64(i), "k0", "srv"))
		}
		kit.Settle()
		var rw goat.RpcReadWriter
		select {
		case rw = <-conns:
		default:
			v.failf("the key's logical connection was not announced")
			return
		}
		dead, cancel := context.WithCancel(bg)
		cancel()
		deadLeft := c.Dead
		for len(got) < c.N {
			if deadLeft > 0 {
				deadLeft--
				if r, err := rw.Read(dead); err == nil {
					got = append(got, r.GetId())
					deadReturnedData++
				}
				kit.Settle()
				if !c.Interleave {
					continue
				}
			}
			ctx, cancelLive := context.WithTimeout(bg, time.Second)
			r, err := rw.Read(ctx)
			cancelLive()
			if err != nil {
				break // nothing more arrives
			}
			got = append(got, r.GetId())
			kit.Settle()
		}
		dm.Stop()
		shared.Close()
		kit.Settle()
	})
	if res.Panic != nil {
		v.failf("panic: %v\n%s", res.Panic, res.Stack)
	}
	for i, id := range got {
		if id != uint64(i+1) {
			v.failf("the reads on the logical connection returned ids %v: envelope #%d is missing or out of order (%d were fed; %d reads were given a context that had already ended, %d of them returned an envelope)", got, i+1, c.N, c.Dead, deadReturnedData)
			break
		}
	}
	if v.Fail == "" && len(got) != c.N {
		v.failf("%d of %d envelopes were handed to a reader: ids %v (%d reads were given a context that had already ended, %d of them returned an envelope)", len(got), c.N, got, c.Dead, deadReturnedData)
	}
	v.Info = kit.CaseInfo{Labels: []string{"dead-ctx-read", fmt.Sprintf("deadread.some_returned_data=%v", deadReturnedData > 0)}, NonTrivial: true, Key: fmt.Sprintf("%+v", c), Sample: c}
	return
}

func TestC18DeadRead(t *testing.T) {
	checkProp(t, "C18", "dead-ctx-read", genC18DeadRead, execC18DeadRead)
}
