package props

import (
	"context"
	"fmt"
	"google.golang.org/grpc/metadata"
	"math"
	"math/big"
	"regexp"
	"strings"
	"sync"
	"testing"
	"time"

	goat "github.com/avos-io/goat"
	"pgregory.net/rapid"
	"verifharness/kit"
)

// ---- C08: deadlines and the timeout header ---------------------------------

var timeoutRe = regexp.MustCompile(`^[0-9]{1,8}[HMSmun]$`)

// modelTimeout is the reference reading of a grpc-timeout header value:
// accepted iff it matches the wire grammar; value = min(n*unit, MaxInt64 ns) in exact arithmetic.
func modelTimeout(s string) (time.Duration, bool) {
	if !timeoutRe.MatchString(s) {
		return 0, false
	}
	units := map[byte]int64{'H': int64(time.Hour), 'M': int64(time.Minute), 'S': int64(time.Second), 'm': int64(time.Millisecond), 'u': int64(time.Microsecond), 'n': 1}
	n, _ := new(big.Int).SetString(s[:len(s)-1], 10)
	v := new(big.Int).Mul(n, big.NewInt(units[s[len(s)-1]]))
	if v.Cmp(big.NewInt(math.MaxInt64)) > 0 {
		return time.Duration(math.MaxInt64), true
	}
	return time.Duration(v.Int64()), true
}

var overlongRe = regexp.MustCompile(`^[0-9]{9,}[HMSmun]$`)

// modelOverlong: more than eight digits is outside the gRPC grammar. goat's own
// client emits such values for timeouts above 99999999 ms (it always encodes in
// milliseconds), so a reader may either ignore them or read them for exactly
// what they say (saturating); what it must never do is wrap or go negative.
func modelOverlong(s string) time.Duration {
	units := map[byte]int64{'H': int64(time.Hour), 'M': int64(time.Minute), 'S': int64(time.Second), 'm': int64(time.Millisecond), 'u': int64(time.Microsecond), 'n': 1}
	n, _ := new(big.Int).SetString(s[:len(s)-1], 10)
	v := new(big.Int).Mul(n, big.NewInt(units[s[len(s)-1]]))
	if v.Cmp(big.NewInt(math.MaxInt64)) > 0 {
		return time.Duration(math.MaxInt64)
	}
	return time.Duration(v.Int64())
}

func checkTimeoutString(s string) (fail string, nontrivial bool, label string) {
	got, ok := goat.VerifParseGrpcTimeout(s)
	if overlongRe.MatchString(s) {
		if ok && got != modelOverlong(s) {
			return fmt.Sprintf("overlong timeout %q read as %v; it may be ignored or read as %v, nothing else", s, got, modelOverlong(s)), true, "overlong"
		}
		return "", true, "overlong"
	}
	want, wok := modelTimeout(s)
	label = "malformed"
	if wok {
		label = "valid"
		exact := new(big.Int)
		exact.SetString(s[:len(s)-1], 10)
		if want == time.Duration(math.MaxInt64) {
			label = "valid-saturating"
		}
		if len(s) == 9 || len(s) == 2 {
			nontrivial = true
		}
	} else {
		nontrivial = true
	}
	if ok != wok {
		if wok {
			return fmt.Sprintf("timeout %q is a legal wire value (%v) but was ignored", s, want), true, label
		}
		return fmt.Sprintf("timeout %q is malformed and must be ignored, but was read as %v", s, got), true, label
	}
	if ok && got != want {
		return fmt.Sprintf("timeout %q read as %v, means %v", s, got, want), true, label
	}
	if ok && got < 0 {
		return fmt.Sprintf("timeout %q read as negative %v", s, got), true, label
	}
	if label == "valid-saturating" {
		nontrivial = true
	}
	return "", nontrivial, label
}

// c08Grid enumerates the deterministic part of the input domain.
func c08Grid() []string {
	var out []string
	units := "HMSmun"
	for _, u := range units {
		for d := 1; d <= 8; d++ {
			lo := new(big.Int).Exp(big.NewInt(10), big.NewInt(int64(d-1)), nil)
			hi := new(big.Int).Sub(new(big.Int).Exp(big.NewInt(10), big.NewInt(int64(d)), nil), big.NewInt(1))
			vals := []*big.Int{lo, hi, new(big.Int).Add(lo, big.NewInt(1)), new(big.Int).Sub(hi, big.NewInt(1))}
			if d == 1 {
				vals = append(vals, big.NewInt(0), big.NewInt(5))
			}
			for _, v := range vals {
				s := v.String()
				for len(s) < d {
					s = "0" + s // leading zeros are digits too
				}
				if len(s) == d {
					out = append(out, s+string(u))
				}
			}
			out = append(out, strings.Repeat("0", d)+string(u), strings.Repeat("9", d)+string(u))
		}
		// the int64 overflow boundary in hours: 2562047H fits, 2562048H does not
		out = append(out, "2562047"+string(u), "2562048"+string(u), "99999999"+string(u), "153722867"+string(u))
	}
	// every 1- and 2-character string over a 20-symbol alphabet
	alpha := "0159HMSmunhsUN+- .x\x00"
	for _, a := range alpha {
		out = append(out, string(a))
		for _, b := range alpha {
			out = append(out, string(a)+string(b))
		}
	}
	// malformed corpus
	out = append(out, "", "H", "S", "m", "123", "12345678", "123456789S", "1234567890n", "-5S", "+5S", "- 5S", " 5S", "5S ", "5 S", "5.0S", "5,0S",
		"٥S", "５S", "5s", "5h", "5U", "5N", "5µ", "0x10S", "1e3S", "1_000S", "00000000H", "000000001H", "5SS", "S5", "5\nS", "9223372036854775807n", "18446744073709551616n", "99999999999999999999H")
	return out
}

func TestC08Grid(t *testing.T) {
	defer kit.G().Flush("C08")
	grid := c08Grid()
	si, sn := shard()
	seen := 0
	for i := si; i < len(grid); i += sn {
		s := grid[i]
		fail, nt, label := checkTimeoutString(s)
		kit.G().Record(kit.CaseInfo{Labels: []string{"parser." + label}, NonTrivial: nt, Key: "grid:" + s, Sample: map[string]any{"timeout_header": s}})
		seen++
		if fail != "" {
			writeReplay("C08", "grid", fail, C08Str{S: s}, nil)
			t.Fatalf("VERIF-FAIL C08/grid: %s", fail)
		}
	}
	if sn == 1 {
		kit.G().MarkExhaustive("timeout-grid(6 units x 1..8 digits x boundary values) + all strings of length<=2 over 20 symbols + malformed corpus")
	}
}

type C08Str struct {
	S string `json:"s"`
}

func genC08Str(t *rapid.T) C08Str {
	switch rapid.IntRange(0, 5).Draw(t, "class") {
	case 0: // valid by construction
		d := rapid.IntRange(1, 8).Draw(t, "digits")
		return C08Str{rapid.StringMatching(fmt.Sprintf(`[0-9]{%d}`, d)).Draw(t, "n") + rapid.SampledFrom([]string{"H", "M", "S", "m", "u", "n"}).Draw(t, "unit")}
	case 1: // too long / boundary lengths
		d := rapid.IntRange(7, 22).Draw(t, "digits")
		return C08Str{rapid.StringMatching(fmt.Sprintf(`[0-9]{%d}`, d)).Draw(t, "n") + rapid.SampledFrom([]string{"H", "M", "S", "m", "u", "n"}).Draw(t, "unit")}
	case 2: // signed / spaced
		return C08Str{rapid.SampledFrom([]string{"-", "+", " ", "\t"}).Draw(t, "prefix") + rapid.StringMatching(`[0-9]{1,7}`).Draw(t, "n") + rapid.SampledFrom([]string{"H", "M", "S", "m", "u", "n"}).Draw(t, "unit")}
	case 3: // wrong unit
		return C08Str{rapid.StringMatching(`[0-9]{1,8}`).Draw(t, "n") + rapid.StringMatching(`[a-zA-Z]?`).Draw(t, "unit")}
	case 4:
		return C08Str{rapid.StringMatching(`[0-9HMSmun+\-. ]{0,12}`).Draw(t, "s")}
	default:
		return C08Str{rapid.String().Draw(t, "s")}
	}
}

func TestC08Strings(t *testing.T) {
	checkProp(t, "C08", "strings", genC08Str, func(t *testing.T, c C08Str) (v Verdict) {
		fail, nt, label := checkTimeoutString(c.S)
		v.Fail = fail
		v.Info = kit.CaseInfo{Labels: []string{"parser." + label}, NonTrivial: nt, Key: "s:" + c.S, Sample: map[string]any{"timeout_header": c.S}}
		return
	})
}

func FuzzC08(f *testing.F) {
	for _, s := range c08Grid() {
		if len(s) > 2 || len(s) == 0 {
			f.Add(s)
		}
	}
	f.Fuzz(func(t *testing.T, s string) {
		if fail, _, _ := checkTimeoutString(s); fail != "" {
			t.Fatalf("VERIF-FAIL C08/fuzz: %s", fail)
		}
	})
}

// ---- end to end -------------------------------------------------------------

type C08E2E struct {
	Kind int `json:"kind"`
	// caller side
	Mode      string   `json:"mode"`       // api | header
	TimeoutUs int64    `json:"timeout_us"` // api: caller timeout in microseconds (<=0: already expired)
	TransitMs int64    `json:"transit_ms"` // virtual time the request spends in flight
	HdrKey    string   `json:"hdr_key"`    // header: key spelling
	HdrVal    string   `json:"hdr_val"`    // header: raw value
	Ser       bool     `json:"ser"`
	Stats     bool     `json:"stats,omitempty"`     // do-nothing stats handlers on both sides
	Intercept bool     `json:"intercept,omitempty"` // pass-through interceptors on both sides
	MD        []kit.KV `json:"md,omitempty"`        // the caller's outgoing metadata (api modes)
	// Before (header mode): a second timeout entry with this malformed value precedes the real one in the header list
	// ("malformed values are ignored rather than misread": the handler's deadline is what the well-formed entry says)
	Before *string `json:"before,omitempty"`
}

func genC08E2E(t *rapid.T) C08E2E {
	c := C08E2E{Kind: rapid.SampledFrom(allKinds).Draw(t, "kind"), Ser: rapid.Bool().Draw(t, "ser"), Stats: rapid.IntRange(0, 3).Draw(t, "stats") == 0, Intercept: rapid.IntRange(0, 2).Draw(t, "intercept") == 0}
	c.Mode = rapid.SampledFrom([]string{"api", "api", "header"}).Draw(t, "mode")
	if c.Mode == "api" && rapid.Bool().Draw(t, "with_md") {
		c.MD = kit.GenMD(t, 4)
	}
	if c.Mode == "api" {
		switch rapid.IntRange(0, 5).Draw(t, "tclass") {
		case 0:
			c.TimeoutUs = 0 // no deadline at all
			c.Mode = "api-none"
		case 1:
			c.TimeoutUs = -rapid.Int64Range(0, 1000000).Draw(t, "expired")
			c.Mode = "api-expired"
		case 2:
			c.TimeoutUs = rapid.Int64Range(1, 999).Draw(t, "sub-ms")
		case 3:
			c.TimeoutUs = rapid.Int64Range(1000, 10_000_000).Draw(t, "short")
		case 4:
			c.TimeoutUs = rapid.Int64Range(10_000_000, 36_000_000_000_000).Draw(t, "long") // up to 10^4 h
		default:
			c.TimeoutUs = rapid.Int64Range(1, 5000).Draw(t, "ms-boundary")*1000 + rapid.SampledFrom([]int64{0, 1, 999}).Draw(t, "frac")
		}
		c.TransitMs = rapid.SampledFrom([]int64{0, 0, 1, 7, 250}).Draw(t, "transit")
		if c.TimeoutUs > 0 && c.TransitMs*1000 >= c.TimeoutUs {
			c.TransitMs = 0 // keep the call alive while the request is in flight
		}
	} else {
		c.HdrKey = rapid.SampledFrom([]string{"grpc-timeout", "GRPC-Timeout", "Grpc-Timeout", "gRPC-tImEoUt"}).Draw(t, "key")
		c.HdrVal = genC08Str(t).S
		if !isValidUTF8NoNul(c.HdrVal) {
			c.HdrVal = "7S"
		}
		if rapid.IntRange(0, 3).Draw(t, "before") == 0 {
			b := rapid.SampledFrom([]string{"", "abc", "12", "-5S", "1x", "S", "1.5S", " 3S"}).Draw(t, "before_val")
			c.Before = &b
		}
	}
	return c
}

func isValidUTF8NoNul(s string) bool {
	return strings.ToValidUTF8(s, "") == s
}

func execC08E2E(t *testing.T, c C08E2E) (v Verdict) {
	type obs struct {
		has      bool
		deadline time.Time
		at       time.Time
		seen     bool
	}
	var mu sync.Mutex
	var h obs
	var callerDeadline, sentAt time.Time
	res := kit.Bubble(t, func() {
		svc := kit.NewSvc()
		record := func(ctx context.Context) {
			mu.Lock()
			h.deadline, h.has = ctx.Deadline()
			h.at = time.Now()
			h.seen = true
			mu.Unlock()
		}
		svc.Unary("u", func(ctx context.Context, req []byte) ([]byte, error) { record(ctx); return req, nil })
		svc.Stream("s", true, true, func(s grpcServerStream) error { record(s.Context()); return nil })
		w := kit.NewWorld(kit.Topo{Kind: "direct", Serialize: c.Ser, Clients: 1, Stats: c.Stats, Intercept: c.Intercept}, svc, nil, nil)
		l := w.Links[0]
		l.A.IgnoreWriteCtx = true // a transport may accept a write whose context has just ended
		if c.TransitMs > 0 {
			l.A.Delay(func(*kit.Rpc) bool { return true })
		}
		name := "u"
		if c.Kind != kit.KindUnary {
			name = "s"
		}
		if c.Mode == "header" {
			env := kit.EnvSpec{HdrMD: []kit.RawKV{{K: c.HdrKey, V: c.HdrVal}}}
			if c.Before != nil {
				env.HdrMD = []kit.RawKV{{K: "grpc-timeout", V: *c.Before}, {K: c.HdrKey, V: c.HdrVal}}
			}
			if c.Kind == kit.KindUnary {
				env.Body = &kit.Payload{Class: "lit", Lit: []byte("x")}
				env.Wrap = true
			}
			sentAt = time.Now()
			_ = l.A.Write(context.Background(), env.Build(1, kit.FullMethod(name), "c0", kit.ServerName))
		} else {
			ctx := context.Background()
			if len(c.MD) > 0 {
				ctx = metadata.NewOutgoingContext(ctx, kit.MDOf(c.MD))
			}
			var cancel context.CancelFunc = func() {}
			if c.Mode != "api-none" {
				ctx, cancel = context.WithTimeout(ctx, time.Duration(c.TimeoutUs)*time.Microsecond)
				callerDeadline, _ = ctx.Deadline()
			}
			sentAt = time.Now()
			go func() {
				defer cancel()
				if c.Kind == kit.KindUnary {
					_, _ = kit.Invoke(ctx, w.Conn(0), name, []byte("x"))
					return
				}
				cs, err := w.Conn(0).NewStream(ctx, kit.StreamDescFor(c.Kind), kit.FullMethod(name))
				if err == nil {
					_ = cs.CloseSend()
					_, _ = kit.RecvBytes(cs)
				}
			}()
		}
		kit.Settle()
		if c.TransitMs > 0 {
			time.Sleep(time.Duration(c.TransitMs) * time.Millisecond)
			l.A.Delay(nil)
			for l.ReleaseNext(kit.AtoB) {
			}
		}
		kit.Settle()
		w.Shutdown()
		kit.Settle()
	})
	if res.Panic != nil {
		v.failf("panic: %v\n%s", res.Panic, res.Stack)
	}
	label := c.Mode
	nt := false
	ms := time.Millisecond
	switch c.Mode {
	case "api-none":
		if !h.seen {
			v.failf("handler never ran")
		} else if h.has {
			v.failf("caller had no deadline but the handler's context has one (%v)", h.deadline.Sub(h.at))
		}
	case "api", "api-expired":
		if !h.seen {
			v.failf("handler never ran (caller timeout %dus)", c.TimeoutUs)
			break
		}
		if !h.has {
			v.failf("caller had a deadline (%dus) but the handler's context has none", c.TimeoutUs)
			break
		}
		rem := callerDeadline.Sub(sentAt) // remaining time when the request left
		transit := h.at.Sub(sentAt)
		if rem < ms {
			nt = true
			label += ".lt1ms"
			// conveyed as one millisecond
			if got := h.deadline.Sub(h.at); got != ms {
				v.failf("caller's remaining time %v (<1ms) must be conveyed as 1ms; handler has %v", rem, got)
			}
		} else {
			if h.deadline.Before(callerDeadline.Add(-ms)) {
				v.failf("handler deadline is %v earlier than the caller's (allowed: 1ms)", callerDeadline.Sub(h.deadline))
			}
			if h.deadline.After(callerDeadline.Add(transit)) {
				v.failf("handler deadline is %v later than the caller's with transit %v", h.deadline.Sub(callerDeadline), transit)
			}
		}
		if c.TransitMs > 0 {
			label += ".transit"
		}
	case "header":
		want, ok := modelTimeout(c.HdrVal)
		if overlongRe.MatchString(c.HdrVal) {
			label += ".overlong"
			nt = true
			if h.seen && h.has && !h.deadline.Equal(h.at.Add(modelOverlong(c.HdrVal))) {
				v.failf("header %s: overlong %q: handler deadline arrival+%v is neither absent nor what the value says", c.HdrKey, c.HdrVal, h.deadline.Sub(h.at))
			}
			break
		}
		if !h.seen {
			v.failf("handler never ran for header %q=%q", c.HdrKey, c.HdrVal)
			break
		}
		if ok {
			label += ".valid"
			nt = c.HdrKey != "grpc-timeout" || want == time.Duration(math.MaxInt64)
			if !h.has {
				v.failf("header %s: %q is a legal timeout but the handler has no deadline", c.HdrKey, c.HdrVal)
			} else {
				// time.Time saturates too: compare durations with saturation on the expected side
				wantDeadline := h.at.Add(want)
				if !h.deadline.Equal(wantDeadline) {
					v.failf("header %s: %q: handler deadline is arrival+%v, want arrival+%v", c.HdrKey, c.HdrVal, h.deadline.Sub(h.at), want)
				}
			}
		} else {
			label += ".malformed"
			nt = true
			if h.has {
				v.failf("header %s: %q is malformed and must be ignored, but the handler got deadline arrival+%v", c.HdrKey, c.HdrVal, h.deadline.Sub(h.at))
			}
		}
	}
	v.Info = kit.CaseInfo{Labels: []string{"e2e." + label, "kind=" + kit.KindNames[c.Kind], fmt.Sprintf("e2e.intercept=%v", c.Intercept), fmt.Sprintf("e2e.with_metadata=%v", len(c.MD) > 0), fmt.Sprintf("e2e.malformed_entry_first=%v", c.Before != nil)}, NonTrivial: nt, Key: fmt.Sprintf("%+v", c), Sample: c}
	return
}

func TestC08E2E(t *testing.T) { checkProp(t, "C08", "e2e", genC08E2E, execC08E2E) }

// ---- several callers with different deadlines on one connection ----------------------------

type C08Conc struct {
	TimeoutsMs []int64 `json:"timeouts_ms"` // one per concurrent call (0 = no deadline)
	Kinds      []int   `json:"kinds"`
	Order      []byte  `json:"order"` // order in which the parked request writes are released
	Ser        bool    `json:"ser"`
}

func genC08Conc(t *rapid.T) C08Conc {
	n := rapid.IntRange(2, 5).Draw(t, "n")
	c := C08Conc{Ser: rapid.Bool().Draw(t, "ser"), Order: rapid.SliceOfN(rapid.Byte(), 0, 8).Draw(t, "order")}
	for i := 0; i < n; i++ {
		c.TimeoutsMs = append(c.TimeoutsMs, rapid.SampledFrom([]int64{0, 5000, 60000, 3600000, 86400000}).Draw(t, "to")+int64(rapid.IntRange(0, 999).Draw(t, "jitter")))
		c.Kinds = append(c.Kinds, rapid.SampledFrom([]int{kit.KindUnary, kit.KindBidi}).Draw(t, "kind"))
	}
	return c
}

func execC08Conc(t *testing.T, c C08Conc) (v Verdict) {
	n := len(c.TimeoutsMs)
	type hobs struct {
		has bool
		dl  time.Time
		at  time.Time
	}
	hs := make([]hobs, n)
	callerDL := make([]time.Time, n)
	var mu sync.Mutex
	res := kit.Bubble(t, func() {
		svc := kit.NewSvc()
		for i := 0; i < n; i++ {
			i := i
			rec := func(ctx context.Context) {
				mu.Lock()
				hs[i].dl, hs[i].has = ctx.Deadline()
				hs[i].at = time.Now()
				mu.Unlock()
			}
			svc.Unary(fmt.Sprintf("u%d", i), func(ctx context.Context, req []byte) ([]byte, error) { rec(ctx); return req, nil })
			svc.Stream(fmt.Sprintf("s%d", i), true, true, func(s grpcServerStream) error { rec(s.Context()); return nil })
		}
		w := kit.NewWorld(kit.Topo{Kind: "direct", Serialize: c.Ser, Clients: 1}, svc, nil, nil)
		l := w.Links[0]
		l.A.Hold(func(r *kit.Rpc) bool { return r.GetTrailer() == nil && r.GetReset_() == nil }) // requests and opens park in the transport
		sched := kit.NewSched(l)
		var wg sync.WaitGroup
		for i := 0; i < n; i++ {
			i := i
			wg.Add(1)
			ctx := context.Background()
			var cancel context.CancelFunc = func() {}
			if c.TimeoutsMs[i] > 999 {
				ctx, cancel = context.WithTimeout(ctx, time.Duration(c.TimeoutsMs[i])*time.Millisecond)
				callerDL[i], _ = ctx.Deadline()
			}
			go func() {
				defer wg.Done()
				defer cancel()
				if c.Kinds[i] == kit.KindUnary {
					_, _ = kit.Invoke(ctx, w.Conn(0), fmt.Sprintf("u%d", i), []byte("x"))
					return
				}
				cs, err := w.Conn(0).NewStream(ctx, kit.StreamDescFor(kit.KindBidi), kit.FullMethod(fmt.Sprintf("s%d", i)))
				if err == nil {
					_ = cs.CloseSend()
					_, _ = kit.RecvBytes(cs)
				}
			}()
			kit.Settle() // each call builds its request while the earlier ones are still parked in the transport
		}
		sched.Run(c.Order, 1000, nil)
		sched.Drain()
		wg.Wait()
		w.Shutdown()
		kit.Settle()
	})
	if res.Panic != nil {
		v.failf("panic: %v", res.Panic)
	}
	for i := 0; i < n; i++ {
		want := c.TimeoutsMs[i] > 999
		if hs[i].at.IsZero() {
			v.failf("call %d: handler never ran", i)
			continue
		}
		if hs[i].has != want {
			v.failf("call %d (timeout %dms): caller has deadline=%v, handler has deadline=%v", i, c.TimeoutsMs[i], want, hs[i].has)
			continue
		}
		if want {
			// zero transit in virtual time: within one millisecond below the caller's own deadline
			if hs[i].dl.After(callerDL[i]) || hs[i].dl.Before(callerDL[i].Add(-time.Millisecond)) {
				v.failf("call %d: handler deadline differs from its own caller's by %v (another call's deadline?)", i, hs[i].dl.Sub(callerDL[i]))
			}
		}
	}
	v.Info = kit.CaseInfo{Labels: []string{"e2e.concurrent"}, NonTrivial: true, Key: fmt.Sprintf("%+v", c), Sample: c}
	return
}

func TestC08Conc(t *testing.T) { checkProp(t, "C08", "concurrent", genC08Conc, execC08Conc) }

// ---- floods of calls that share a few timeout values -----------------------------------------
//
// The server's unary workers (and the read loops of several connections) read deadlines concurrently. Each handler must
// get its own caller's deadline when many calls with few distinct timeout values arrive back to back, round after round.

type C08Flood struct {
	// Stats: do-nothing stats handlers on server and client (kit.Topo.Stats)
	Stats   bool      `json:"stats,omitempty"`
	Rounds  [][]int64 `json:"rounds"` // per round, per call: timeout in ms (0 = none)
	Clients int       `json:"clients"`
	Ser     bool      `json:"ser"`
	// BusyMs: every handler takes this long (virtual time), so with more than eight calls in a round the later requests
	// wait in the server for a free worker; that wait is part of the request's transit
	BusyMs int `json:"busy_ms,omitempty"`
}

func genC08Flood(t *rapid.T) C08Flood {
	c := C08Flood{Clients: rapid.IntRange(1, 3).Draw(t, "clients"), Ser: rapid.Bool().Draw(t, "ser"), Stats: rapid.IntRange(0, 3).Draw(t, "stats") == 0, BusyMs: rapid.SampledFrom([]int{0, 0, 2, 40, 300}).Draw(t, "busy_ms")}
	vals := []int64{0, 5000, 5001, 60000, 3600000, 86400000}
	nr := rapid.IntRange(2, 5).Draw(t, "rounds")
	for r := 0; r < nr; r++ {
		a := rapid.SampledFrom(vals).Draw(t, "a")
		b := rapid.SampledFrom(vals).Draw(t, "b")
		n := rapid.SampledFrom([]int{2, 8, 16, 32}).Draw(t, "n")
		var round []int64
		for i := 0; i < n; i++ {
			if rapid.IntRange(0, 3).Draw(t, "which") == 0 {
				round = append(round, b)
			} else {
				round = append(round, a)
			}
		}
		c.Rounds = append(c.Rounds, round)
	}
	return c
}

func execC08Flood(t *testing.T, c C08Flood) (v Verdict) {
	type hobs struct {
		has   bool
		dl    time.Time
		ran   bool
		start time.Time
	}
	type call struct {
		to       int64
		callerDL time.Time
		h        hobs
	}
	var calls []*call
	var mu sync.Mutex
	res := kit.Bubble(t, func() {
		svc := kit.NewSvc()
		svc.Unary("u", func(ctx context.Context, req []byte) ([]byte, error) {
			idx := int(req[0])<<8 | int(req[1])
			mu.Lock()
			calls[idx].h.dl, calls[idx].h.has = ctx.Deadline()
			calls[idx].h.ran = true
			calls[idx].h.start = time.Now()
			mu.Unlock()
			if c.BusyMs > 0 {
				time.Sleep(time.Duration(c.BusyMs) * time.Millisecond)
			}
			return req, nil
		})
		w := kit.NewWorld(kit.Topo{Kind: "direct", Serialize: c.Ser, Clients: c.Clients, Stats: c.Stats}, svc, nil, nil)
		for _, round := range c.Rounds {
			start := make(chan struct{})
			var wg sync.WaitGroup
			for i, to := range round {
				mu.Lock()
				idx := len(calls)
				cl := &call{to: to}
				calls = append(calls, cl)
				mu.Unlock()
				wg.Add(1)
				go func() {
					defer wg.Done()
					<-start
					ctx := context.Background()
					if to > 0 {
						var cancel context.CancelFunc
						ctx, cancel = context.WithTimeout(ctx, time.Duration(to)*time.Millisecond)
						defer cancel()
						cl.callerDL, _ = ctx.Deadline()
					}
					_, _ = kit.Invoke(ctx, w.Conn(i%c.Clients), "u", []byte{byte(idx >> 8), byte(idx)})
				}()
			}
			kit.Settle()
			close(start)
			wg.Wait()
			time.Sleep(time.Millisecond)
		}
		w.Shutdown()
		kit.Settle()
	})
	if res.Panic != nil {
		v.failf("panic: %v", res.Panic)
	}
	distinct := map[int64]bool{}
	var waitedMax time.Duration
	for i, cl := range calls {
		distinct[cl.to] = true
		if !cl.h.ran {
			v.failf("call %d: handler never ran", i)
			continue
		}
		if cl.h.has != (cl.to > 0) {
			v.failf("call %d (timeout %dms): caller has deadline=%v, handler has deadline=%v", i, cl.to, cl.to > 0, cl.h.has)
			continue
		}
		if cl.to > 0 {
			// the request's transit: from the moment the caller's deadline was fixed to the moment its handler started
			transit := cl.h.start.Sub(cl.callerDL.Add(-time.Duration(cl.to) * time.Millisecond))
			if transit > waitedMax {
				waitedMax = transit
			}
			if cl.h.dl.After(cl.callerDL.Add(transit)) || cl.h.dl.Before(cl.callerDL.Add(-time.Millisecond)) {
				v.failf("call %d (timeout %dms, request in transit for %v): handler deadline differs from its own caller's by %v (allowed: -1ms .. +transit)", i, cl.to, transit, cl.h.dl.Sub(cl.callerDL))
			}
		}
	}
	v.Info = kit.CaseInfo{Labels: []string{"e2e.flood", fmt.Sprintf("flood.clients=%d", c.Clients), fmt.Sprintf("flood.requests_waited_for_a_worker=%v", waitedMax > time.Millisecond)}, NonTrivial: len(distinct) >= 2, Key: fmt.Sprintf("%+v", c), Sample: map[string]any{"rounds": len(c.Rounds), "calls": len(calls), "clients": c.Clients, "distinct_timeouts": len(distinct)}}
	return
}

func TestC08Flood(t *testing.T) { checkProp(t, "C08", "flood", genC08Flood, execC08Flood) }

// ---- abandoned calls whose request is still on its way ----------------------------------------
//
// A caller may give up (cancel) while its unary request has been written but not yet read by the server - it sits in a
// queue, a proxy, a slow link. When the request finally arrives, its handler must still get the deadline that request
// carried, whatever calls the same client has made in the meantime.

type C08Abandon struct {
	TimeoutsMs []int64 `json:"timeouts_ms"` // one per call, issued one after the other; all but the last are abandoned
	Ser        bool    `json:"ser"`
	Stats      bool    `json:"stats,omitempty"`
}

func genC08Abandon(t *rapid.T) C08Abandon {
	c := C08Abandon{Ser: rapid.Bool().Draw(t, "ser"), Stats: rapid.IntRange(0, 3).Draw(t, "stats") == 0}
	n := rapid.IntRange(2, 5).Draw(t, "n")
	for i := 0; i < n; i++ {
		c.TimeoutsMs = append(c.TimeoutsMs, rapid.SampledFrom([]int64{0, 5000, 60000, 3600000, 86400000}).Draw(t, "to")+int64(rapid.IntRange(0, 1).Draw(t, "odd")))
	}
	return c
}

func execC08Abandon(t *testing.T, c C08Abandon) (v Verdict) {
	n := len(c.TimeoutsMs)
	type hobs struct {
		ran bool
		has bool
		dl  time.Time
	}
	hs := make([]hobs, n)
	callerDL := make([]time.Time, n)
	var mu sync.Mutex
	res := kit.Bubble(t, func() {
		svc := kit.NewSvc()
		svc.Unary("a", func(ctx context.Context, req []byte) ([]byte, error) {
			i := int(req[0])
			mu.Lock()
			hs[i].ran = true
			hs[i].dl, hs[i].has = ctx.Deadline()
			mu.Unlock()
			return req, nil
		})
		w := kit.NewWorld(kit.Topo{Kind: "direct", Serialize: c.Ser, Clients: 1, Stats: c.Stats}, svc, nil, nil)
		l := w.Links[0]
		l.A.Delay(func(*kit.Rpc) bool { return true }) // requests are written at once and delivered later
		var wg sync.WaitGroup
		for i := 0; i < n; i++ {
			i := i
			ctx, cancel := context.WithCancel(context.Background())
			if c.TimeoutsMs[i] > 1 {
				var c2 context.CancelFunc
				ctx, c2 = context.WithTimeout(ctx, time.Duration(c.TimeoutsMs[i])*time.Millisecond)
				defer c2()
				callerDL[i], _ = ctx.Deadline()
			}
			wg.Add(1)
			go func() {
				defer wg.Done()
				_, _ = kit.Invoke(ctx, w.Conn(0), "a", []byte{byte(i)})
			}()
			kit.Settle() // the request has been written and is in flight
			if i < n-1 {
				cancel() // the caller gives up; nothing tells the server
				kit.Settle()
			} else {
				defer cancel()
			}
		}
		for l.ReleaseNext(kit.AtoB) {
			kit.Settle()
		}
		l.A.Delay(nil)
		kit.Settle()
		wg.Wait()
		w.Shutdown()
		kit.Settle()
	})
	if res.Panic != nil {
		v.failf("panic: %v", res.Panic)
	}
	for i := 0; i < n; i++ {
		if !hs[i].ran {
			v.failf("call %d: its request was delivered but no handler ran", i)
			continue
		}
		want := c.TimeoutsMs[i] > 1
		if hs[i].has != want {
			v.failf("call %d (timeout %dms, abandoned=%v): the request carried deadline=%v, its handler has deadline=%v", i, c.TimeoutsMs[i], i < n-1, want, hs[i].has)
			continue
		}
		if want && (hs[i].dl.After(callerDL[i]) || hs[i].dl.Before(callerDL[i].Add(-time.Millisecond))) {
			v.failf("call %d (timeout %dms, abandoned=%v): handler deadline differs from the one its request carried by %v (a later call's deadline?)", i, c.TimeoutsMs[i], i < n-1, hs[i].dl.Sub(callerDL[i]))
		}
	}
	v.Info = kit.CaseInfo{Labels: []string{"e2e.abandon", fmt.Sprintf("abandon.byref=%v", !c.Ser)}, NonTrivial: true, Key: fmt.Sprintf("%+v", c), Sample: c}
	return
}

func TestC08Abandon(t *testing.T) { checkProp(t, "C08", "abandon", genC08Abandon, execC08Abandon) }
