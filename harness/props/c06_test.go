package props

import (
	"context"
	"fmt"
	"google.golang.org/grpc/codes"
	"google.golang.org/grpc/status"
	"strings"
	"sync"
	"testing"
	"time"

	"pgregory.net/rapid"
	"verifharness/kit"
)

// ---- C06: wire protocol conformance ----------------------------------------

type C06Case struct {
	Family string   `json:"family"` // which generator produced the conversations
	Conv   ConvCase `json:"conv"`
}

func genC06(t *rapid.T) C06Case {
	fam := rapid.SampledFrom([]string{"c01", "c02", "c02", "c03", "c04"}).Draw(t, "family")
	var c ConvCase
	switch fam {
	case "c01":
		c = genConvCase(t, 16, []int{kit.KindUnary}, kit.GenOpts{MaxPayload: 4096, OKBias: 80}, []string{"direct", "demux", "proxy"})
	case "c02":
		c = genC02(t)
		c.ArmEnd = false
	case "c03":
		c = genC03Base(t)
	default:
		c = genC04(t)
	}
	return C06Case{Family: fam, Conv: c}
}

func factsOf(outs []*kit.ConvOut, topo kit.Topo) []kit.StreamFacts {
	var fs []kit.StreamFacts
	for _, o := range outs {
		if o.ID == 0 {
			continue
		}
		f := kit.StreamFacts{Conn: o.Conn, Client: o.Conn, Server: kit.ServerName, ID: o.ID, Method: kit.FullMethod(o.Name), Unary: o.Conv.Kind == kit.KindUnary}
		if topo.Alias && topo.Kind == "proxy" {
			f.ReqDest = kit.ServerAlias // the proxy rewrites the address; on the client's link every envelope of a call carries the alias
		}
		if f.Unary {
			f.HandlerReturned = len(o.UH.Reqs) > 0 && o.UDone
		} else {
			f.HandlerReturned = o.H.Returned
		}
		fs = append(fs, f)
	}
	return fs
}

func execC06(t *testing.T, c C06Case) (v Verdict) {
	outs, tap, res, sched := kit.RunConvs(t, c.Conv.Convs, c.Conv.opts())
	if res.Panic != nil {
		v.failf("panic: %v\n%s", res.Panic, res.Stack)
	}
	viol, projections, nontrivial := kit.CheckWire(tap, factsOf(outs, c.Conv.Topo))
	for _, m := range viol {
		v.failf("%s", m)
	}
	// every call must have appeared on the wire at all
	for _, o := range outs {
		if o.ID == 0 {
			v.failf("%s: no envelope with this call's method was ever written", o.Name)
		}
	}
	early := false
	for _, o := range outs {
		if o.Conv.Kind != kit.KindUnary && countOps(o.Conv.H.Ops, "recv") <= len(clientSendPayloads(o.Conv)) {
			early = true
		}
	}
	kit.G().Count("projections", projections)
	kit.G().Count("projections_nontrivial", nontrivial)
	labels, _, _, _ := convLabels(c.Conv, tap)
	labels = append(labels, "family="+c.Family, fmt.Sprintf("early_return=%v", early))
	v.Info = kit.CaseInfo{Labels: labels, NonTrivial: nontrivial > 0 || early, Key: c.Family + c.Conv.key(), Sample: map[string]any{"family": c.Family, "case": convSample(c.Conv), "wire_head": tapSummary(tap, 8)}}
	if v.Fail != "" {
		v.Detail = convDetail(outs, tap, sched)
	}
	return
}

func TestC06(t *testing.T) { checkProp(t, "C06", "main", genC06, execC06) }

// The reset-race scenario of C03 is also a C06 obligation ("never overtakes that stream's trailer").
func TestC06Race(t *testing.T) {
	checkProp(t, "C06", "race", genC03Race, func(t *testing.T, c C03Race) Verdict {
		v := execC03Race(t, c)
		return v
	})
}

// The cancellation scenarios of C07 under the protocol monitor only.
func TestC06Cancel(t *testing.T) {
	checkProp(t, "C06", "cancel", genC07, func(t *testing.T, c C07Case) Verdict {
		v := execC07(t, c)
		if v.Fail != "" && !strings.Contains(v.Fail, "WIRE") {
			v.Fail = "" // anything else is C07's business
		}
		v.Info.Labels = append(v.Info.Labels, "family=c07")
		return v
	})
}

// ---- unary calls whose caller gives up --------------------------------------------------
//
// "A unary exchange is exactly one request and exactly one response" also when the caller's context ends while it
// waits: goat conveys nothing about that to the server, and whatever it puts on the wire must still be that one request.

type C06UCall struct {
	How   string `json:"how"`   // cancel | deadline | none
	Where string `json:"where"` // handler (the handler is still running) | reply (the reply's transport write is pending)
}

type C06Unary struct {
	// Stats: do-nothing stats handlers on server and client (kit.Topo.Stats)
	Stats bool       `json:"stats,omitempty"`
	Calls []C06UCall `json:"calls"`
	Ser   bool       `json:"ser"`
}

func genC06Unary(t *rapid.T) C06Unary {
	c := C06Unary{Ser: rapid.Bool().Draw(t, "ser"), Stats: rapid.IntRange(0, 3).Draw(t, "stats") == 0}
	n := rapid.IntRange(1, 6).Draw(t, "n")
	for i := 0; i < n; i++ {
		c.Calls = append(c.Calls, C06UCall{How: rapid.SampledFrom([]string{"cancel", "cancel", "deadline", "none"}).Draw(t, "how"), Where: rapid.SampledFrom([]string{"handler", "reply"}).Draw(t, "where")})
	}
	return c
}

func execC06Unary(t *testing.T, c C06Unary) (v Verdict) {
	n := len(c.Calls)
	var mu sync.Mutex
	ran := make([]int, n)
	returned := make([]bool, n)
	var tap []kit.Ev
	res := kit.Bubble(t, func() {
		sched := kit.NewSched()
		svc := kit.NewSvc()
		for i := range c.Calls {
			i := i
			svc.Unary(fmt.Sprintf("m%d", i), func(ctx context.Context, req []byte) ([]byte, error) {
				mu.Lock()
				ran[i]++
				mu.Unlock()
				if c.Calls[i].Where == "handler" {
					sched.Park(nil, fmt.Sprintf("h%d", i))
				}
				mu.Lock()
				returned[i] = true
				mu.Unlock()
				return append([]byte("re:"), req...), nil
			})
		}
		w := kit.NewWorld(kit.Topo{Kind: "direct", Serialize: c.Ser, Clients: 1, Stats: c.Stats}, svc, nil, nil)
		l := w.Links[0]
		l.B.Hold(func(r *kit.Rpc) bool { return true }) // every reply write waits for its release
		cancels := make([]context.CancelFunc, n)
		var wg sync.WaitGroup
		for i := range c.Calls {
			i := i
			ctx, cancel := context.WithCancel(context.Background())
			if c.Calls[i].How == "deadline" {
				ctx, cancel = context.WithTimeout(context.Background(), 50*time.Millisecond)
			}
			cancels[i] = cancel
			wg.Add(1)
			go func() {
				defer wg.Done()
				_, _ = kit.Invoke(ctx, w.Conn(0), fmt.Sprintf("m%d", i), []byte{byte(i)})
			}()
		}
		kit.Settle() // every request is with its handler, or its reply is waiting to be written
		for i := range c.Calls {
			if c.Calls[i].How == "cancel" {
				cancels[i]()
				kit.Settle()
			}
		}
		time.Sleep(60 * time.Millisecond) // the deadlines pass
		kit.Settle()
		for i := range c.Calls {
			sched.ReleaseGate(fmt.Sprintf("h%d", i))
			kit.Settle()
		}
		l.ReleaseAll()
		kit.Settle()
		wg.Wait()
		for _, cancel := range cancels {
			cancel()
		}
		kit.Settle()
		tap = w.Tap.Snapshot()
		sched.Drain()
		w.Shutdown()
		kit.Settle()
	})
	if res.Panic != nil {
		v.failf("panic: %v\n%s", res.Panic, res.Stack)
	}
	var facts []kit.StreamFacts
	gaveUp := 0
	for i := range c.Calls {
		method := kit.FullMethod(fmt.Sprintf("m%d", i))
		var id uint64
		for _, e := range kit.Filter(tap, "c0", kit.AtoB) {
			if e.Rpc.GetHeader().GetMethod() == method {
				id = e.Rpc.GetId()
				break
			}
		}
		if id == 0 {
			v.failf("m%d: the request never appeared on the wire", i)
			continue
		}
		facts = append(facts, kit.StreamFacts{Conn: "c0", Client: "c0", Server: kit.ServerName, ID: id, Method: method, Unary: true, HandlerReturned: returned[i]})
		if ran[i] != 1 {
			v.failf("WIRE m%d: one unary request was written, its handler ran %d times", i, ran[i])
		}
		if c.Calls[i].How != "none" {
			gaveUp++
		}
	}
	viol, _, _ := kit.CheckWire(tap, facts)
	for _, m := range viol {
		v.failf("WIRE %s", m)
	}
	v.Info = kit.CaseInfo{Labels: []string{"family=unary-cancel", fmt.Sprintf("unary.gave_up=%v", gaveUp > 0)}, NonTrivial: gaveUp > 0, Key: fmt.Sprintf("%+v", c), Sample: map[string]any{"calls": c.Calls, "wire_head": tapSummary(tap, 8)}}
	if v.Fail != "" {
		v.Detail = map[string]any{"wire": tapSummary(tap, 60)}
	}
	return
}

func TestC06Unary(t *testing.T) { checkProp(t, "C06", "unary-cancel", genC06Unary, execC06Unary) }

// ---- calls whose context ends before or during the opening write ----------------------------
//
// Whatever a call puts on the wire must be a prefix-closed protocol history also when its context is already over when
// it starts, or ends while its first envelope is parked in the transport: nothing at all, or a proper opening.

type C06OCall struct {
	Kind int    `json:"kind"`
	When string `json:"when"` // pre-cancelled | pre-expired | parked-cancel | parked-deadline
}

type C06Open struct {
	// Stats: do-nothing stats handlers on server and client (kit.Topo.Stats)
	Stats bool       `json:"stats,omitempty"`
	Calls []C06OCall `json:"calls"`
	Ser   bool       `json:"ser"`
}

func genC06Open(t *rapid.T) C06Open {
	c := C06Open{Ser: rapid.Bool().Draw(t, "ser"), Stats: rapid.IntRange(0, 3).Draw(t, "stats") == 0}
	n := rapid.IntRange(1, 6).Draw(t, "n")
	for i := 0; i < n; i++ {
		c.Calls = append(c.Calls, C06OCall{Kind: rapid.SampledFrom(allKinds).Draw(t, "kind"), When: rapid.SampledFrom([]string{"pre-cancelled", "pre-expired", "parked-cancel", "parked-deadline"}).Draw(t, "when")})
	}
	return c
}

func execC06Open(t *testing.T, c C06Open) (v Verdict) {
	n := len(c.Calls)
	var mu sync.Mutex
	ran := make([]int, n)
	returned := 0
	var tap []kit.Ev
	res := kit.Bubble(t, func() {
		svc := kit.NewSvc()
		for i := range c.Calls {
			i := i
			svc.Unary(fmt.Sprintf("m%d", i), func(ctx context.Context, req []byte) ([]byte, error) {
				mu.Lock()
				ran[i]++
				mu.Unlock()
				return req, nil
			})
			svc.Stream(fmt.Sprintf("s%d", i), true, true, func(s grpcServerStream) error {
				mu.Lock()
				ran[i]++
				mu.Unlock()
				<-s.Context().Done()
				return s.Context().Err()
			})
		}
		w := kit.NewWorld(kit.Topo{Kind: "direct", Serialize: c.Ser, Clients: 1, Stats: c.Stats}, svc, nil, nil)
		l := w.Links[0]
		// opening envelopes (unary requests, header-only stream opens) park in the transport
		l.A.Hold(func(r *kit.Rpc) bool { return r.GetTrailer() == nil && r.GetReset_() == nil })
		var wg sync.WaitGroup
		cancels := make([]context.CancelFunc, n)
		for i, call := range c.Calls {
			i, call := i, call
			ctx, cancel := context.WithCancel(context.Background())
			switch call.When {
			case "pre-cancelled":
				cancel()
			case "pre-expired":
				ctx, cancel = context.WithDeadline(context.Background(), time.Now().Add(-time.Second))
			case "parked-deadline":
				ctx, cancel = context.WithTimeout(context.Background(), 30*time.Millisecond)
			}
			cancels[i] = cancel
			wg.Add(1)
			go func() {
				defer wg.Done()
				defer func() {
					mu.Lock()
					returned++
					mu.Unlock()
				}()
				if call.Kind == kit.KindUnary {
					_, _ = kit.Invoke(ctx, w.Conn(0), fmt.Sprintf("m%d", i), []byte{byte(i)})
					return
				}
				cs, err := w.Conn(0).NewStream(ctx, kit.StreamDescFor(call.Kind), kit.FullMethod(fmt.Sprintf("s%d", i)))
				if err != nil {
					return
				}
				_ = kit.SendBytes(cs, []byte{byte(i)})
				_ = cs.CloseSend()
				_, _ = kit.RecvBytes(cs)
			}()
		}
		kit.Settle()
		for i, call := range c.Calls {
			if call.When == "parked-cancel" {
				cancels[i]()
				kit.Settle()
			}
		}
		time.Sleep(50 * time.Millisecond) // the deadlines pass while the opening writes are parked
		kit.Settle()
		l.A.Hold(nil)
		for _, h := range l.Held() {
			h.Release()
		}
		kit.Settle()
		wg.Wait()
		for _, cancel := range cancels {
			cancel()
		}
		kit.Settle()
		tap = w.Tap.Snapshot()
		w.Shutdown()
		kit.Settle()
	})
	if res.Panic != nil {
		v.failf("panic: %v\n%s", res.Panic, res.Stack)
	}
	if returned != n {
		v.failf("%d of %d calls whose context had ended returned", returned, n)
	}
	// every id that appears on the wire gets facts: its caller's context ended, no handler result is owed
	var facts []kit.StreamFacts
	seen := map[uint64]bool{}
	for _, e := range kit.Filter(tap, "c0", kit.AtoB) {
		id := e.Rpc.GetId()
		if seen[id] {
			continue
		}
		seen[id] = true
		m := e.Rpc.GetHeader().GetMethod()
		facts = append(facts, kit.StreamFacts{Conn: "c0", Client: "c0", Server: kit.ServerName, ID: id, Method: m, Unary: strings.HasPrefix(m, kit.FullMethod("m")), CallerReset: true, AllowLateClientEnvs: true})
	}
	viol, _, _ := kit.CheckWire(tap, facts)
	for _, m := range viol {
		v.failf("WIRE %s", m)
	}
	for i := range c.Calls {
		if ran[i] > 1 {
			v.failf("WIRE call %d: its handler ran %d times", i, ran[i])
		}
	}
	v.Info = kit.CaseInfo{Labels: []string{"family=ended-at-open", fmt.Sprintf("open.wire_ids=%d", min(len(seen), 3))}, NonTrivial: true, Key: fmt.Sprintf("%+v", c), Sample: map[string]any{"calls": c.Calls, "wire_head": tapSummary(tap, 8)}}
	if v.Fail != "" {
		v.Detail = map[string]any{"wire": tapSummary(tap, 60)}
	}
	return
}

func TestC06Open(t *testing.T) { checkProp(t, "C06", "ended-at-open", genC06Open, execC06Open) }

// ---- streams whose own deadline expires while the handler is still busy ----------------------
//
// The caller (a scripted peer) neither resets nor stops sending; the handler notices its deadline late. Whatever the
// server then puts on the wire for that id must still be a protocol history: no reset for a stream that is still open,
// nothing after the trailer.

type C06Deadline struct {
	Before int  `json:"before"` // bodies sent before the deadline passes
	After  int  `json:"after"`  // bodies sent after it has passed, while the handler is still running
	Reads  int  `json:"reads"`  // messages the handler reads before it starts lingering
	Sends  int  `json:"sends"`  // messages the handler sends when it finally continues
	RetErr bool `json:"ret_err"`
	Close  bool `json:"close"` // the peer half-closes after its last body
	Ser    bool `json:"ser"`
	Stats  bool `json:"stats,omitempty"`
}

func genC06Deadline(t *rapid.T) C06Deadline {
	c := C06Deadline{Before: rapid.IntRange(0, 3).Draw(t, "before"), After: rapid.IntRange(1, 4).Draw(t, "after"), Sends: rapid.IntRange(0, 2).Draw(t, "sends"), RetErr: rapid.Bool().Draw(t, "ret_err"),
		Close: rapid.Bool().Draw(t, "close"), Ser: rapid.Bool().Draw(t, "ser"), Stats: rapid.IntRange(0, 3).Draw(t, "stats") == 0}
	c.Reads = rapid.IntRange(0, c.Before).Draw(t, "reads")
	return c
}

func execC06Deadline(t *testing.T, c C06Deadline) (v Verdict) {
	var tap []kit.Ev
	returned := false
	var mu sync.Mutex
	res := kit.Bubble(t, func() {
		bg := context.Background()
		sched := kit.NewSched()
		svc := kit.NewSvc()
		svc.Stream("d", true, true, func(s grpcServerStream) error {
			defer func() {
				mu.Lock()
				returned = true
				mu.Unlock()
			}()
			for i := 0; i < c.Reads; i++ {
				if _, err := kit.RecvBytes(s); err != nil {
					break
				}
			}
			sched.Park(nil, "linger") // busy with something that does not watch the context
			for i := 0; i < c.Sends; i++ {
				_ = kit.SendBytes(s, []byte{byte(i)})
			}
			if c.RetErr {
				return status.Error(codes.Aborted, "late")
			}
			return nil
		})
		w := kit.NewWorld(kit.Topo{Kind: "direct", Serialize: c.Ser, Clients: 1, Raw: true, Stats: c.Stats}, svc, nil, nil)
		raw := w.Links[0].A
		method := kit.FullMethod("d")
		send := func(e kit.EnvSpec) {
			e.Wrap = true
			_ = raw.Write(bg, e.Build(5, method, "c0", kit.ServerName))
			kit.Settle()
		}
		body := &kit.Payload{Class: "lit", Lit: []byte("b")}
		send(kit.EnvSpec{HdrMD: []kit.RawKV{{K: "grpc-timeout", V: "30m"}}})
		for i := 0; i < c.Before; i++ {
			send(kit.EnvSpec{Body: body})
		}
		time.Sleep(50 * time.Millisecond) // the stream's deadline passes; its handler is still lingering
		kit.Settle()
		for i := 0; i < c.After; i++ {
			send(kit.EnvSpec{Body: body})
		}
		if c.Close {
			send(kit.EnvSpec{Status: &kit.StatusSpec{Code: 0}, Trailer: true})
		}
		sched.ReleaseGate("linger")
		kit.Settle()
		tap = w.Tap.Snapshot()
		sched.Drain()
		w.Shutdown()
		kit.Settle()
	})
	if res.Panic != nil {
		v.failf("panic: %v\n%s", res.Panic, res.Stack)
	}
	mu.Lock()
	hr := returned
	mu.Unlock()
	if !hr {
		v.failf("the handler did not return after it was released")
	}
	// client -> server envelopes are the scripted peer's; only the server's side of the history is judged
	var s2c []kit.Ev
	for _, e := range kit.Filter(tap, "c0", kit.BtoA) {
		if e.Rpc.GetId() == 5 {
			s2c = append(s2c, e)
		}
	}
	trailers := 0
	for i, e := range s2c {
		switch {
		case e.Rpc.GetReset_() != nil && trailers == 0:
			v.failf("WIRE s->c #%d: the server reset stream 5 although its handler was still running and the caller had not reset it (history: %s)", i, shapes(s2c))
		case trailers > 0 && e.Rpc.GetReset_() == nil:
			v.failf("WIRE s->c #%d: %q after the stream's trailer (history: %s)", i, kit.Shape(e.Rpc), shapes(s2c))
		}
		if e.Rpc.GetTrailer() != nil && e.Rpc.GetReset_() == nil {
			trailers++
		}
	}
	if hr && trailers != 1 {
		v.failf("WIRE the handler returned on a live connection whose caller had not reset the stream: %d trailers (history: %s)", trailers, shapes(s2c))
	}
	v.Info = kit.CaseInfo{Labels: []string{"family=server-deadline", fmt.Sprintf("deadline.bodies_after=%d", c.After)}, NonTrivial: true, Key: fmt.Sprintf("%+v", c), Sample: map[string]any{"case": c, "server_history": shapes(s2c)}}
	return
}

func shapes(evs []kit.Ev) string {
	var out []string
	for _, e := range evs {
		out = append(out, kit.Shape(e.Rpc))
	}
	return strings.Join(out, " ")
}

func TestC06Deadline(t *testing.T) {
	checkProp(t, "C06", "server-deadline", genC06Deadline, execC06Deadline)
}
