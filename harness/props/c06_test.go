package props

import (
	"fmt"
	"strings"
	"testing"

	"pgregory.net/rapid"
	"verifharness/kit"
)

// ---- C06: wire protocol conformance ----------------------------------------

type C06Case struct {
	Family string   `json:"family"` // which generator produced the conversations
	Conv   ConvCase `json:"conv"`
}

func genC06(t *rapid.T) C06Case {
	fam := rapid.SampledFrom([]string{"c01", "c02", "c02", "c03", "c04"}).Draw(t, "family")
	var c ConvCase
	switch fam {
	case "c01":
		c = genConvCase(t, 16, []int{kit.KindUnary}, kit.GenOpts{MaxPayload: 4096, OKBias: 80}, []string{"direct", "demux", "proxy"})
	case "c02":
		c = genC02(t)
		c.ArmEnd = false
	case "c03":
		c = genC03(t)
	default:
		c = genC04(t)
	}
	return C06Case{Family: fam, Conv: c}
}

func factsOf(outs []*kit.ConvOut) []kit.StreamFacts {
	var fs []kit.StreamFacts
	for _, o := range outs {
		if o.ID == 0 {
			continue
		}
		f := kit.StreamFacts{Conn: o.Conn, Client: o.Conn, Server: kit.ServerName, ID: o.ID, Method: kit.FullMethod(o.Name), Unary: o.Conv.Kind == kit.KindUnary}
		if f.Unary {
			f.HandlerReturned = len(o.UH.Reqs) > 0 && o.UDone
		} else {
			f.HandlerReturned = o.H.Returned
		}
		fs = append(fs, f)
	}
	return fs
}

func execC06(t *testing.T, c C06Case) (v Verdict) {
	outs, tap, res, sched := kit.RunConvs(t, c.Conv.Convs, c.Conv.opts())
	if res.Panic != nil {
		v.failf("panic: %v\n%s", res.Panic, res.Stack)
	}
	viol, projections, nontrivial := kit.CheckWire(tap, factsOf(outs))
	for _, m := range viol {
		v.failf("%s", m)
	}
	// every call must have appeared on the wire at all
	for _, o := range outs {
		if o.ID == 0 {
			v.failf("%s: no envelope with this call's method was ever written", o.Name)
		}
	}
	early := false
	for _, o := range outs {
		if o.Conv.Kind != kit.KindUnary && countOps(o.Conv.H.Ops, "recv") <= len(clientSendPayloads(o.Conv)) {
			early = true
		}
	}
	kit.G().Count("projections", projections)
	kit.G().Count("projections_nontrivial", nontrivial)
	labels, _, _, _ := convLabels(c.Conv, tap)
	labels = append(labels, "family="+c.Family, fmt.Sprintf("early_return=%v", early))
	v.Info = kit.CaseInfo{Labels: labels, NonTrivial: nontrivial > 0 || early, Key: c.Family + c.Conv.key(), Sample: map[string]any{"family": c.Family, "case": convSample(c.Conv), "wire_head": tapSummary(tap, 8)}}
	if v.Fail != "" {
		v.Detail = convDetail(outs, tap, sched)
	}
	return
}

func TestC06(t *testing.T) { checkProp(t, "C06", "main", genC06, execC06) }

// The reset-race scenario of C03 is also a C06 obligation ("never overtakes that stream's trailer").
func TestC06Race(t *testing.T) {
	checkProp(t, "C06", "race", genC03Race, func(t *testing.T, c C03Race) Verdict {
		v := execC03Race(t, c)
		return v
	})
}

// The cancellation scenarios of C07 under the protocol monitor only.
func TestC06Cancel(t *testing.T) {
	checkProp(t, "C06", "cancel", genC07, func(t *testing.T, c C07Case) Verdict {
		v := execC07(t, c)
		if v.Fail != "" && !strings.Contains(v.Fail, "WIRE") {
			v.Fail = "" // anything else is C07's business
		}
		v.Info.Labels = append(v.Info.Labels, "family=c07")
		return v
	})
}
