package props

import (
	"context"
	"fmt"
	"google.golang.org/grpc/status"
	"strings"
	"sync"
	"testing"
	"time"

	"pgregory.net/rapid"
	"verifharness/kit"
)

// ---- C10: server connections end cleanly ------------------------------------

type C10Handler struct {
	Kind string `json:"kind"` // unary: ugate | uctx | uquick ; stream: srecv | sctx | ssend | sgate | secho | srst (reset by the caller, handler slow to leave)
}

type C10Case struct {
	// Stats: do-nothing stats handlers on server and client (kit.Topo.Stats)
	Stats bool `json:"stats,omitempty"`
	// ErrKind: the error value the failing transport returns (kit.FaultErrKinds)
	ErrKind  string       `json:"err_kind,omitempty"`
	Handlers []C10Handler `json:"handlers"`
	Ending   string       `json:"ending"` // readfail | writefail | stop | servectx
	Pos      int          `json:"pos"`    // readfail/stop/servectx: request envelopes delivered before the ending; writefail: index of the failing response write
	Ser      bool         `json:"ser"`
	Tape     []byte       `json:"tape"`
	// Orphan: the caller also sends a body for a stream id it never opened (the server answers with a reset,
	// which has to get past whatever the connection's writer is parked on)
	Orphan bool `json:"orphan,omitempty"`
	// TickMs: virtual time that passes just before the ending (the "sdl" streams carry a 30 ms grpc-timeout, so with 50 ms
	// their handlers have returned DeadlineExceeded and their trailers are on their way when the connection ends)
	TickMs int `json:"tick_ms,omitempty"`
}

var c10Unary = []string{"ugate", "uctx", "uquick"}
var c10Stream = []string{"srecv", "sctx", "ssend", "sgate", "secho", "srst", "sdl", "sbig"}

func genC10(t *rapid.T) C10Case {
	c := C10Case{Ser: rapid.Bool().Draw(t, "ser"), Stats: rapid.IntRange(0, 3).Draw(t, "stats") == 0}
	c.ErrKind = rapid.SampledFrom(kit.FaultErrKinds).Draw(t, "err_kind")
	nu := rapid.SampledFrom([]int{0, 1, 2, 3, 4, 5, 6, 7, 8, 9, 10, 12}).Draw(t, "nu") // more than eight: the ninth finds every unary worker busy
	ns := rapid.IntRange(0, 8).Draw(t, "ns")
	if nu+ns == 0 {
		nu = 1
	}
	for i := 0; i < nu; i++ {
		c.Handlers = append(c.Handlers, C10Handler{Kind: rapid.SampledFrom(c10Unary).Draw(t, "ukind")})
	}
	for i := 0; i < ns; i++ {
		c.Handlers = append(c.Handlers, C10Handler{Kind: rapid.SampledFrom(c10Stream).Draw(t, "skind")})
	}
	c.Ending = rapid.SampledFrom([]string{"readfail", "writefail", "stop", "resetfail"}).Draw(t, "ending")
	if nu > 8 {
		// goat runs eight unary handlers per connection; a ninth request waits in the read loop for a free worker (head-of-
		// line blocking by design), and while it waits the read loop cannot notice a transport failure. The property speaks
		// of at most eight unary handlers in flight, so with more requests than workers only Stop is used as the ending:
		// it ends the wait, and whatever handlers did get started must then have their contexts cancelled.
		c.Ending = "stop"
	}
	c.Pos = rapid.IntRange(0, 2*(nu+ns)+2).Draw(t, "pos")
	c.Tape = rapid.SliceOfN(rapid.Byte(), 0, 16).Draw(t, "tape")
	c.Orphan = rapid.IntRange(0, 2).Draw(t, "orphan") == 0
	c.TickMs = rapid.SampledFrom([]int{0, 50}).Draw(t, "tick_ms")
	return c
}

type c10Obs struct {
	started              bool
	ctx                  context.Context
	exited               bool
	ctxDoneAtServeReturn bool
	exitedAtServeReturn  bool
}

func execC10(t *testing.T, c C10Case) (v Verdict) {
	defer kit.UseFaultKind(c.ErrKind)()
	n := len(c.Handlers)
	obs := make([]*c10Obs, n)
	for i := range obs {
		obs[i] = &c10Obs{}
	}
	var mu sync.Mutex
	serveReturned := false
	serveReturnedBeforeGates := false
	var tap []kit.Ev
	writeFailHit := false
	var remaining []string
	res := kit.Bubble(t, func() {
		svc := kit.NewSvc()
		sched := kit.NewSched()
		for i, h := range c.Handlers {
			i, h := i, h
			o := obs[i]
			enter := func(ctx context.Context) {
				mu.Lock()
				o.started, o.ctx = true, ctx
				mu.Unlock()
			}
			leave := func() {
				mu.Lock()
				o.exited = true
				mu.Unlock()
			}
			name := fmt.Sprintf("h%d", i)
			switch h.Kind {
			case "ugate":
				svc.Unary(name, func(ctx context.Context, req []byte) ([]byte, error) {
					enter(ctx)
					defer leave()
					sched.Park(nil, "gate-"+name) // ignores its context; released by the harness after Serve returned
					return req, nil
				})
			case "uctx":
				svc.Unary(name, func(ctx context.Context, req []byte) ([]byte, error) {
					enter(ctx)
					defer leave()
					<-ctx.Done()
					return nil, ctx.Err()
				})
			case "uquick":
				svc.Unary(name, func(ctx context.Context, req []byte) ([]byte, error) {
					enter(ctx)
					defer leave()
					return req, nil
				})
			case "srecv":
				svc.Stream(name, true, true, func(s grpcServerStream) error {
					enter(s.Context())
					defer leave()
					for {
						if _, err := kit.RecvBytes(s); err != nil {
							return err
						}
					}
				})
			case "sctx":
				svc.Stream(name, true, true, func(s grpcServerStream) error {
					enter(s.Context())
					defer leave()
					<-s.Context().Done()
					return s.Context().Err()
				})
			case "ssend":
				svc.Stream(name, true, true, func(s grpcServerStream) error {
					enter(s.Context())
					defer leave()
					for k := 0; ; k++ {
						if err := kit.SendBytes(s, []byte{0xEE, byte(k)}); err != nil {
							return err
						}
						if k > 10000 {
							return nil
						}
					}
				})
			case "sgate":
				svc.Stream(name, true, true, func(s grpcServerStream) error {
					enter(s.Context())
					defer leave()
					sched.Park(nil, "gate-"+name) // ignores its context
					return nil
				})
			case "srst":
				svc.Stream(name, true, true, func(s grpcServerStream) error {
					enter(s.Context())
					defer leave()
					<-s.Context().Done()          // the caller resets this stream ...
					sched.Park(nil, "gate-"+name) // ... and the handler takes its time to leave
					return s.Context().Err()
				})
			case "sbig":
				// opened with the largest grpc-timeout the wire format can express: for the connection's purposes no
				// deadline at all - the handler's context must still end with the connection
				svc.Stream(name, true, true, func(s grpcServerStream) error {
					enter(s.Context())
					defer leave()
					<-s.Context().Done()
					return s.Context().Err()
				})
			case "sdl":
				svc.Stream(name, true, true, func(s grpcServerStream) error {
					enter(s.Context())
					defer leave()
					<-s.Context().Done() // its own deadline (30 ms) or the end of the connection, whichever comes first
					return status.FromContextError(s.Context().Err()).Err()
				})
			case "secho":
				svc.Stream(name, true, true, func(s grpcServerStream) error {
					enter(s.Context())
					defer leave()
					for {
						b, err := kit.RecvBytes(s)
						if err != nil {
							return err
						}
						if err := kit.SendBytes(s, b); err != nil {
							return err
						}
					}
				})
			}
		}
		svc.Stream("orphan", true, true, func(s grpcServerStream) error { return nil })
		// a stream (not a unary call: all eight unary workers may be taken by handlers that ignore their context)
		svc.Stream("orphanq", true, true, func(s grpcServerStream) error {
			_ = kit.SendBytes(s, []byte("busy"))
			<-s.Context().Done()
			return nil
		})
		w := kit.NewWorld(kit.Topo{Kind: "direct", Serialize: c.Ser, Clients: 1, Raw: true, Stats: c.Stats}, svc, nil, nil)
		l := w.Links[0]
		sched.AddLink(l)
		// the "ssend" handlers park in send: the transport write of their bodies is held
		l.B.Hold(func(r *kit.Rpc) bool { b := r.GetBody().GetData(); return len(b) >= 2 && b[len(b)-2] == 0xEE })
		if c.Ending == "writefail" {
			l.B.FailWriteAt(c.Pos)
		}
		// scripted caller: request envelopes for every handler, delivered one at a time
		l.A.Delay(func(*kit.Rpc) bool { return true })
		body := kit.Payload{Class: "lit", Lit: []byte("rq")}
		for i, h := range c.Handlers {
			e := kit.EnvSpec{}
			if strings.HasPrefix(h.Kind, "u") {
				e.Body, e.Wrap = &body, true
			}
			if h.Kind == "sdl" {
				e.HdrMD = []kit.RawKV{{K: "grpc-timeout", V: "30m"}}
			}
			if h.Kind == "sbig" {
				e.HdrMD = []kit.RawKV{{K: "grpc-timeout", V: []string{"99999999H", "2562048H", "99999999M"}[i%3]}}
			}
			_ = l.A.Write(context.Background(), e.Build(uint64(i+1), kit.FullMethod(fmt.Sprintf("h%d", i)), "c0", kit.ServerName))
			if h.Kind == "srst" {
				e2 := kit.EnvSpec{Reset: "RST_STREAM"}
				_ = l.A.Write(context.Background(), e2.Build(uint64(i+1), kit.FullMethod(fmt.Sprintf("h%d", i)), "c0", kit.ServerName))
			}
			if h.Kind == "secho" || h.Kind == "srecv" {
				e2 := kit.EnvSpec{Body: &body, Wrap: true}
				_ = l.A.Write(context.Background(), e2.Build(uint64(i+1), kit.FullMethod(fmt.Sprintf("h%d", i)), "c0", kit.ServerName))
			}
		}
		limit := 1 << 30
		if c.Ending != "writefail" {
			limit = c.Pos
		}
		delivered := 0
		for delivered < limit && l.InFlight(kit.AtoB) > 0 {
			kit.Settle()
			l.ReleaseNext(kit.AtoB)
			delivered++
		}
		kit.Settle()
		if c.TickMs > 0 {
			// (before the orphan step: there the read loop waits for the writer while holding the registry mutex, and a
			// handler returning at its deadline would queue for that mutex, which stops the bubble's clock)
			time.Sleep(time.Duration(c.TickMs) * time.Millisecond)
			kit.Settle()
		}
		if c.Orphan {
			// Just before the ending: every further response write parks (slow transport), a quick unary
			// request is answered (its reply parks the connection's writer), and then a body arrives for a
			// stream id that was never opened - the read loop now has a reset to get past the busy writer.
			l.A.Delay(nil)
			for l.ReleaseNext(kit.AtoB) {
			}
			kit.Settle()
			l.B.Hold(func(*kit.Rpc) bool { return true })
			q := kit.EnvSpec{Body: &body, Wrap: true}
			open := kit.EnvSpec{}
			_ = l.A.Write(context.Background(), open.Build(9001, kit.FullMethod("orphanq"), "c0", kit.ServerName))
			kit.Settle()
			_ = l.A.Write(context.Background(), q.Build(9000, kit.FullMethod("orphan"), "c0", kit.ServerName))
			kit.Settle()
		}
		switch c.Ending {
		case "readfail":
			l.B.FailReads(nil)
			kit.Settle()
			// a connection whose reads fail does not keep a write parked for ever either: the parked write
			// (if any) now fails too. Without this the read loop may legitimately sit behind the writer
			// (queueing a reset for the orphan body) and never get to see the read failure.
			l.B.FailWrites(nil)
			for _, h := range l.Held() {
				h.Release()
			}
		case "resetfail":
			// the response write that fails is that of a reset: a body arrives for a stream id that was never opened, the
			// server answers with a reset, and the transport refuses exactly that envelope
			l.A.Delay(nil)
			for l.ReleaseNext(kit.AtoB) {
			}
			kit.Settle()
			l.B.FailWriteIf(func(r *kit.Rpc) bool { return r.GetReset_() != nil })
			ob := kit.EnvSpec{Body: &body, Wrap: true}
			_ = l.A.Write(context.Background(), ob.Build(9100, kit.FullMethod("orphan"), "c0", kit.ServerName))
			kit.Settle()
			// (if the connection's writer is parked on a held write the reset is still queued behind it: let everything
			// through, the reset is the one write that fails)
			l.B.Hold(nil)
			for _, h := range l.Held() {
				h.Release()
			}
			kit.Settle()
		case "stop":
			w.Server.Stop()
		case "servectx":
			w.CancelServeCtx()
		case "writefail":
			if c.Orphan {
				l.B.FailWrites(nil)
				for _, h := range l.Held() {
					h.Release()
				}
				kit.Settle()
			}
			done, _ := w.ServeResult("c0")
			writeFailHit = done
			if !done {
				// fewer response writes than Pos happened: end the connection by a read failure instead
				l.B.FailReads(nil)
			}
		}
		kit.Settle()
		// ---- the moment of truth: has Serve returned? ----
		done, _ := w.ServeResult("c0")
		anyStreamGateParked := false
		mu.Lock()
		for i, h := range c.Handlers {
			if (h.Kind == "sgate" || h.Kind == "srst") && obs[i].started && !obs[i].exited {
				anyStreamGateParked = true
			}
		}
		mu.Unlock()
		if anyStreamGateParked {
			// Serve must be waiting for the stream handler that ignores its context
			serveReturnedBeforeGates = done
			for i, h := range c.Handlers {
				if h.Kind == "sgate" || h.Kind == "srst" {
					sched.ReleaseGate(fmt.Sprintf("gate-h%d", i))
				}
			}
			kit.Settle()
			done, _ = w.ServeResult("c0")
		}
		mu.Lock()
		serveReturned = done
		for _, o := range obs {
			if o.started {
				o.ctxDoneAtServeReturn = o.ctx.Err() != nil
				o.exitedAtServeReturn = o.exited
			}
		}
		mu.Unlock()
		// now let the context-ignoring unary handlers finish; afterwards nothing may be left
		sched.ReleaseGates()
		kit.Settle()
		tap = w.Tap.Snapshot()
		if done {
			// Serve has returned and every handler has finished, while the transport and the context Serve was called with
			// are still as they were: whatever goroutine still runs library code was started for this connection. (The
			// scripted caller has no goroutines of its own; transport calls honour the context they are given.)
			for _, g := range kit.LiveInBubble() {
				if strings.Contains(g, "github.com/avos-io/goat") {
					remaining = append(remaining, g)
				}
			}
		}
		sched.Drain()
		kit.Settle()
		w.Shutdown()
		kit.Settle()
	})
	if res.Panic != nil {
		v.failf("panic: %v\n%s", res.Panic, res.Stack)
	}
	if !serveReturned {
		v.failf("Serve did not return after %s (pos %d)", c.Ending, c.Pos)
	}
	if serveReturnedBeforeGates {
		v.failf("Serve returned while a streaming handler of the connection was still running")
	}
	nuIn, nsIn, inSend := 0, 0, false
	for i, h := range c.Handlers {
		o := obs[i]
		if !o.started {
			continue
		}
		isStream := strings.HasPrefix(h.Kind, "s")
		if isStream {
			if !o.exitedAtServeReturn {
				v.failf("streaming handler h%d (%s) had not finished when Serve returned", i, h.Kind)
			}
			if h.Kind != "secho" || true {
				nsIn++
			}
			if h.Kind == "ssend" {
				inSend = true
			}
		} else if !o.exitedAtServeReturn || h.Kind != "uquick" {
			nuIn++
		}
		if !o.exitedAtServeReturn || isStream {
			if !o.ctxDoneAtServeReturn {
				v.failf("context of in-flight handler h%d (%s) was not cancelled when Serve returned", i, h.Kind)
			}
		}
		if !o.exited {
			v.failf("handler h%d (%s) never returned", i, h.Kind)
		}
	}
	if len(remaining) > 0 && v.Fail == "" {
		v.failf("Serve has returned (%s) and all handlers have finished, but goroutines of the connection remain (transport and Serve context untouched): %s", c.Ending, strings.Join(kit.StackSites(remaining), " ;; "))
	}
	if len(res.Leaked) > 0 && v.Fail == "" {
		v.failf("goroutines left after the connection ended and all handlers returned: %s", strings.Join(kit.StackSites(res.Leaked), " ;; "))
	}
	labels := []string{"ending=" + c.Ending, fmt.Sprintf("unary_in_flight=%d", min(nuIn, 3)), fmt.Sprintf("streams_in_flight=%d", min(nsIn, 3)), fmt.Sprintf("orphan=%v", c.Orphan)}
	if c.Ending == "writefail" {
		labels = append(labels, fmt.Sprintf("writefail_hit=%v", writeFailHit))
	}
	if inSend {
		labels = append(labels, "parked-in-send")
	}
	v.Info = kit.CaseInfo{Labels: labels, NonTrivial: (nuIn >= 1 && nsIn >= 1) || inSend, Key: fmt.Sprintf("%+v", c), Sample: c}
	if v.Fail != "" {
		v.Detail = map[string]any{"wire": tapSummary(tap, 60), "leaked": kit.StackSites(res.Leaked)}
	}
	return
}

func TestC10(t *testing.T) { checkProp(t, "C10", "main", genC10, execC10) }

// ---- C10 unread: the connection ends while the read loop is parked on a stream whose handler is not receiving ----

// C10Unread: 1..2 streaming handlers that wait on their context without receiving; their caller (scripted) sends the
// open, Bodies messages and possibly its half-close, so that the connection's read loop is parked handing an envelope to
// a stream that is not listening (head-of-line blocking by design - which is why a read failure is not among the
// endings here: a parked read loop does not call Read). Then the server is stopped, or a response write fails. Serve
// must return, the handlers' contexts must be cancelled, the handlers finished, and nothing may remain.
type C10Unread struct {
	Streams   int    `json:"streams"`
	Bodies    int    `json:"bodies"` // messages sent to the first stream (0..3); the others get none
	HalfClose bool   `json:"half_close"`
	Unary     int    `json:"unary"`  // unary handlers waiting on their context (0..2), started before the stream traffic
	Ending    string `json:"ending"` // stop | writefail
	ErrKind   string `json:"err_kind"`
	Ser       bool   `json:"ser"`
	Stats     bool   `json:"stats,omitempty"`
	// OtherConn: the Server serves a second connection with one waiting stream handler of its own; before the ending
	// above, that second connection's transport read fails: its Serve call must return and its handler be cancelled
	// although the first connection's read loop is parked
	OtherConn bool `json:"other_conn,omitempty"`
}

func genC10Unread(t *rapid.T) C10Unread {
	return C10Unread{Streams: rapid.IntRange(1, 2).Draw(t, "streams"), Bodies: rapid.IntRange(0, 3).Draw(t, "bodies"), HalfClose: rapid.Bool().Draw(t, "half_close"), Unary: rapid.IntRange(0, 2).Draw(t, "unary"),
		Ending: rapid.SampledFrom([]string{"stop", "stop", "writefail"}).Draw(t, "ending"), ErrKind: rapid.SampledFrom(kit.FaultErrKinds).Draw(t, "err_kind"), Ser: rapid.Bool().Draw(t, "ser"), Stats: rapid.IntRange(0, 3).Draw(t, "stats") == 0, OtherConn: rapid.IntRange(0, 2).Draw(t, "other_conn") == 0}
}

func execC10Unread(t *testing.T, c C10Unread) (v Verdict) {
	defer kit.UseFaultKind(c.ErrKind)()
	var mu sync.Mutex
	started, exited, cancelledAtReturn := 0, 0, 0
	var ctxs []context.Context
	serveReturned, otherReturned := false, false
	var remaining []string
	res := kit.Bubble(t, func() {
		svc := kit.NewSvc()
		wait := func(ctx context.Context) {
			mu.Lock()
			started++
			ctxs = append(ctxs, ctx)
			mu.Unlock()
			<-ctx.Done()
			mu.Lock()
			exited++
			mu.Unlock()
		}
		svc.Stream("w", true, true, func(s grpcServerStream) error { wait(s.Context()); return s.Context().Err() })
		svc.Unary("uw", func(ctx context.Context, req []byte) ([]byte, error) { wait(ctx); return nil, ctx.Err() })
		svc.Unary("q", func(ctx context.Context, req []byte) ([]byte, error) { return req, nil })
		nconn := 1
		if c.OtherConn {
			nconn = 2
		}
		w := kit.NewWorld(kit.Topo{Kind: "direct", Serialize: c.Ser, Clients: nconn, Raw: true, Stats: c.Stats}, svc, nil, nil)
		l := w.Links[0]
		bg := context.Background()
		body := kit.Payload{Class: "lit", Lit: []byte("rq")}
		if c.OtherConn {
			open := kit.EnvSpec{}
			_ = w.Links[1].A.Write(bg, open.Build(1, kit.FullMethod("w"), "c1", kit.ServerName))
		}
		for i := 0; i < c.Unary; i++ {
			e := kit.EnvSpec{Body: &body, Wrap: true}
			_ = l.A.Write(bg, e.Build(uint64(100+i), kit.FullMethod("uw"), "c0", kit.ServerName))
		}
		for i := 0; i < c.Streams; i++ {
			open := kit.EnvSpec{}
			_ = l.A.Write(bg, open.Build(uint64(1+i), kit.FullMethod("w"), "c0", kit.ServerName))
		}
		kit.Settle()
		if c.Ending == "writefail" {
			// the reply of a quick unary call is the write that fails; it is requested before the read loop gets stuck
			l.B.FailWriteIf(func(r *kit.Rpc) bool { return r.GetId() == 500 })
		}
		for i := 0; i < c.Bodies; i++ {
			e := kit.EnvSpec{Body: &body, Wrap: true}
			_ = l.A.Write(bg, e.Build(1, kit.FullMethod("w"), "c0", kit.ServerName))
		}
		if c.HalfClose {
			e := kit.EnvSpec{Status: &kit.StatusSpec{Code: 0, Msg: "OK"}, Trailer: true}
			_ = l.A.Write(bg, e.Build(1, kit.FullMethod("w"), "c0", kit.ServerName))
		}
		kit.Settle() // from the second envelope on the read loop is parked on stream 1's one-slot queue
		if c.OtherConn {
			w.Links[1].B.FailReads(nil)
			kit.Settle()
			otherReturned, _ = w.ServeResult("c1")
		}
		switch c.Ending {
		case "stop":
			w.Server.Stop()
		case "writefail":
			// behind the parked envelopes this request would never be read; so it is only sent when the read loop is free
			if c.Bodies+b2i(c.HalfClose) >= 2 {
				w.Server.Stop()
			} else {
				q := kit.EnvSpec{Body: &body, Wrap: true}
				_ = l.A.Write(bg, q.Build(500, kit.FullMethod("q"), "c0", kit.ServerName))
			}
		}
		kit.Settle()
		serveReturned, _ = w.ServeResult("c0")
		mu.Lock()
		for _, ctx := range ctxs {
			if ctx.Err() != nil {
				cancelledAtReturn++
			}
		}
		mu.Unlock()
		if serveReturned {
			for _, g := range kit.LiveInBubble() {
				if strings.Contains(g, "github.com/avos-io/goat") {
					remaining = append(remaining, g)
				}
			}
		}
		w.Shutdown()
		kit.Settle()
	})
	if res.Panic != nil {
		v.failf("panic: %v\n%s", res.Panic, res.Stack)
	}
	parked := c.Bodies+b2i(c.HalfClose) >= 2
	if c.OtherConn && !otherReturned {
		v.failf("Serve did not return for a second connection of the same Server whose transport read had failed (the first connection's read loop parked on an unread stream: %v)", parked)
	}
	if !serveReturned {
		v.failf("Serve did not return after %s (read loop parked on an unread stream: %v; %d messages and half-close=%v sent to a handler that is not receiving)", c.Ending, parked, c.Bodies, c.HalfClose)
	}
	if started != c.Streams+c.Unary+b2i(c.OtherConn) {
		v.failf("harness: %d of %d handlers started", started, c.Streams+c.Unary+b2i(c.OtherConn))
	}
	if serveReturned && cancelledAtReturn != started {
		v.failf("Serve has returned but the contexts of %d of %d in-flight handlers are still live", started-cancelledAtReturn, started)
	}
	if serveReturned && exited != started {
		v.failf("Serve has returned but %d of %d handlers have not finished", started-exited, started)
	}
	if len(remaining) > 0 && v.Fail == "" {
		v.failf("Serve has returned and all handlers have finished, but goroutines of the connection remain: %s", strings.Join(kit.StackSites(remaining), " ;; "))
	}
	if len(res.Leaked) > 0 && v.Fail == "" {
		v.failf("goroutines left at the end of the case: %s", strings.Join(kit.StackSites(res.Leaked), " ;; "))
	}
	v.Info = kit.CaseInfo{Labels: []string{"unread", "unread.ending=" + c.Ending, fmt.Sprintf("unread.read_loop_parked=%v", parked), fmt.Sprintf("unread.half_close=%v", c.HalfClose), fmt.Sprintf("unread.other_conn=%v", c.OtherConn)}, NonTrivial: parked, Key: fmt.Sprintf("%+v", c), Sample: c}
	return
}

func TestC10Unread(t *testing.T) { checkProp(t, "C10", "unread", genC10Unread, execC10Unread) }
