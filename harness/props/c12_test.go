package props

import (
	"bytes"
	"context"
	"fmt"
	goat "github.com/avos-io/goat"
	"google.golang.org/grpc"
	"google.golang.org/grpc/metadata"
	"strings"
	"sync"
	"testing"

	"pgregory.net/rapid"
	"verifharness/kit"
)

// ---- C12: no envelope sequence from a peer can crash or stall a server ------

func sp(s string) *string { return &s }

// c12Shape describes one letter of the alphabet and what the oracle may conclude from it.
type c12Shape struct {
	Name string
	Env  kit.EnvSpec
	// classification
	ValidUnary bool // must run the unary handler exactly once and be answered exactly once
	MaybeUnary bool // may or may not run the unary handler (unary request without a body)
	ValidOpen  bool // a well-formed stream open
	StreamBody bool // body addressed to the stream method with valid routing
	BadMDOpen  bool // stream open with undecodable metadata (answered by a reset)
	MaybeOpen  bool // header-only envelope with an unknown reset type: may or may not count as an open
	Lingering  bool // addressed to the method whose handler lingers
	Malformed  bool
}

func c12Alphabet() []c12Shape {
	body := &kit.Payload{Class: "lit", Lit: []byte("req")}
	garbage := &kit.Payload{Class: "lit", Lit: []byte{0xff, 0xff, 0xff, 0x07}}
	um, sm := sp(kit.FullMethod("u")), sp(kit.FullMethod("s"))
	okst := &kit.StatusSpec{Code: 0, Msg: "OK"}
	badMD := []kit.RawKV{{K: "x-bin", V: "!!!not-base64!!!"}}
	return []c12Shape{
		{Name: "unary", Env: kit.EnvSpec{Method: um, Body: body, Wrap: true}, ValidUnary: true},
		{Name: "unary-nobody", Env: kit.EnvSpec{Method: um}, MaybeUnary: true},
		{Name: "unary-badmd", Env: kit.EnvSpec{Method: um, Body: body, Wrap: true, HdrMD: badMD}, Malformed: true},
		{Name: "unary-wrongdst", Env: kit.EnvSpec{Method: um, Body: body, Wrap: true, Dst: sp("other")}, Malformed: true},
		{Name: "unary-dst-other-case", Env: kit.EnvSpec{Method: um, Body: body, Wrap: true, Dst: sp(strings.ToUpper(kit.ServerName))}, Malformed: true},
		{Name: "unary-dst-prefix", Env: kit.EnvSpec{Method: um, Body: body, Wrap: true, Dst: sp(kit.ServerName[:len(kit.ServerName)-1])}, Malformed: true},
		{Name: "unary-dst-padded", Env: kit.EnvSpec{Method: um, Body: body, Wrap: true, Dst: sp(kit.ServerName + " ")}, Malformed: true},
		{Name: "open-dst-other-case", Env: kit.EnvSpec{Method: sm, Dst: sp(strings.ToUpper(kit.ServerName))}, Malformed: true},
		{Name: "unknown-service", Env: kit.EnvSpec{Method: sp("/nope.Svc/u"), Body: body, Wrap: true}, Malformed: true},
		{Name: "unknown-method", Env: kit.EnvSpec{Method: sp("/" + kit.SvcName + "/nope"), Body: body, Wrap: true}, Malformed: true},
		{Name: "unparsable-method", Env: kit.EnvSpec{Method: sp("nomethod"), Body: body, Wrap: true}, Malformed: true},
		{Name: "empty-method", Env: kit.EnvSpec{Method: sp(""), Body: body, Wrap: true}, Malformed: true},
		{Name: "slash-only-method", Env: kit.EnvSpec{Method: sp("/"), Body: body, Wrap: true}, Malformed: true},
		{Name: "leading-slash-only-method", Env: kit.EnvSpec{Method: sp("/u"), Body: body, Wrap: true}, Malformed: true},
		{Name: "double-slash-method", Env: kit.EnvSpec{Method: sp("//"), Body: body, Wrap: true}, Malformed: true},
		{Name: "no-method-name", Env: kit.EnvSpec{Method: sp("/" + kit.SvcName + "/"), Body: body, Wrap: true}, Malformed: true},
		{Name: "no-header", Env: kit.EnvSpec{NoHeader: true, Body: body, Wrap: true}, Malformed: true},
		{Name: "empty", Env: kit.EnvSpec{Empty: true}, Malformed: true},
		{Name: "open", Env: kit.EnvSpec{Method: sm}, ValidOpen: true},
		{Name: "open-badmd", Env: kit.EnvSpec{Method: sm, HdrMD: badMD}, BadMDOpen: true, Malformed: true},
		{Name: "open-wrongdst", Env: kit.EnvSpec{Method: sm, Dst: sp("other")}, Malformed: true},
		{Name: "body", Env: kit.EnvSpec{Method: sm, Body: body, Wrap: true}, StreamBody: true},
		{Name: "body-garbage", Env: kit.EnvSpec{Method: sm, Body: garbage}, StreamBody: true, Malformed: true},
		{Name: "trailer-ok", Env: kit.EnvSpec{Method: sm, Status: okst, Trailer: true}},
		{Name: "trailer-err", Env: kit.EnvSpec{Method: sm, Status: &kit.StatusSpec{Code: 13, Msg: "boom"}, Trailer: true}},
		{Name: "reset", Env: kit.EnvSpec{Method: sm, Reset: "RST_STREAM"}},
		{Name: "reset-unknown-type", Env: kit.EnvSpec{Method: sm, Reset: "WHATEVER"}, Malformed: true, MaybeOpen: true},
		{Name: "body+trailer", Env: kit.EnvSpec{Method: sm, Body: body, Wrap: true, Status: okst, Trailer: true}, StreamBody: true},
		{Name: "unary-timeout-1n", Env: kit.EnvSpec{Method: um, Body: body, Wrap: true, HdrMD: []kit.RawKV{{K: "grpc-timeout", V: "1n"}}}, ValidUnary: true},
		{Name: "unary-timeout-overflow", Env: kit.EnvSpec{Method: um, Body: body, Wrap: true, HdrMD: []kit.RawKV{{K: "GRPC-Timeout", V: "99999999H"}}}, ValidUnary: true},
		{Name: "open-route-record", Env: kit.EnvSpec{Method: sm, Record: []string{"px1", "px2"}}, ValidOpen: true},
		{Name: "response-shaped", Env: kit.EnvSpec{Method: um, Src: sp(kit.ServerName), Dst: sp("c0"), Body: body, Wrap: true, Trailer: true}, Malformed: true},
		{Name: "unary-garbage-body", Env: kit.EnvSpec{Method: um, Body: garbage}, Malformed: true},
		// a second stream method whose handler reads one message and then lingers without reading
		// (like any server-streaming handler) until the harness lets it return, just before the probe
		{Name: "open-lingering", Env: kit.EnvSpec{Method: sp(kit.FullMethod("l"))}, ValidOpen: true, Lingering: true},
		{Name: "body-lingering", Env: kit.EnvSpec{Method: sp(kit.FullMethod("l")), Body: body, Wrap: true}, StreamBody: true, Lingering: true},
		// the same for a server-streaming method (the peer may send one request message and half-close; whatever else
		// it sends for that id while the handler is busy must not stall the connection)
		{Name: "open-lingering-ss", Env: kit.EnvSpec{Method: sp(kit.FullMethod("ls"))}, ValidOpen: true, Lingering: true},
		{Name: "body-lingering-ss", Env: kit.EnvSpec{Method: sp(kit.FullMethod("ls")), Body: body, Wrap: true}, StreamBody: true, Lingering: true},
		{Name: "trailer-lingering-ss", Env: kit.EnvSpec{Method: sp(kit.FullMethod("ls")), Status: okst, Trailer: true}, Lingering: true},
		// a body of zero bytes (the encoding of an all-default message) is still a body
		{Name: "body-empty", Env: kit.EnvSpec{Method: sm, Body: &kit.Payload{Class: "lit", Lit: []byte{}}}, StreamBody: true},
	}
}

type C12Sym struct {
	Shape int    `json:"shape"`
	ID    uint64 `json:"id"`
}

type C12Case struct {
	Seq []C12Sym `json:"seq"`
	Ser bool     `json:"ser"`
	// Burst: the whole sequence is written back to back, without waiting for the server to digest each envelope
	Burst bool `json:"burst,omitempty"`
	// Stats: the server has a (do-nothing) stats handler installed
	Stats bool `json:"stats,omitempty"`
	// BusyHandlers: the unary handler also calls grpc.SetHeader/SendHeader/SetTrailer, one of them after the headers went out
	BusyHandlers bool `json:"busy_handlers,omitempty"`
	// SlowUnary: this many well-formed unary requests (ids 9001..) are sent first to a method whose handler only returns
	// after the connection has been shut down at the end of the case - a handler that outlives its connection must not
	// bring the process down when it finally replies
	SlowUnary int `json:"slow_unary,omitempty"`
}

func (c C12Case) names() []string {
	al := c12Alphabet()
	var out []string
	for _, s := range c.Seq {
		out = append(out, fmt.Sprintf("%s#%d", al[s.Shape].Name, s.ID))
	}
	return out
}

func genC12(t *rapid.T) C12Case {
	al := c12Alphabet()
	n := rapid.IntRange(1, 40).Draw(t, "len")
	c := C12Case{Ser: rapid.Bool().Draw(t, "ser"), Burst: rapid.Bool().Draw(t, "burst"), Stats: rapid.IntRange(0, 2).Draw(t, "stats") == 0, BusyHandlers: rapid.IntRange(0, 2).Draw(t, "busy") == 0, SlowUnary: rapid.SampledFrom([]int{0, 0, 1, 3}).Draw(t, "slow_unary")}
	if rapid.IntRange(0, 4).Draw(t, "lifecycle") == 0 {
		// a whole life of the echo stream and what comes after it: open, 0..2 messages, the caller's end (half-close or
		// reset), some traffic on the other id, and then more bodies for the stream that is gone - one envelope at a time
		idx := map[string]int{}
		for i, sh := range al {
			idx[sh.Name] = i
		}
		id := uint64(rapid.IntRange(1, 2).Draw(t, "life_id"))
		other := 3 - id
		c.Burst = false
		c.Seq = append(c.Seq, C12Sym{Shape: idx["open"], ID: id})
		for k := rapid.IntRange(0, 2).Draw(t, "life_bodies"); k > 0; k-- {
			c.Seq = append(c.Seq, C12Sym{Shape: idx["body"], ID: id})
		}
		c.Seq = append(c.Seq, C12Sym{Shape: idx[rapid.SampledFrom([]string{"trailer-ok", "reset"}).Draw(t, "life_end")], ID: id})
		for k := rapid.IntRange(0, 2).Draw(t, "life_noise"); k > 0; k-- {
			c.Seq = append(c.Seq, C12Sym{Shape: idx[rapid.SampledFrom([]string{"unary", "unary-wrongdst", "no-header", "unknown-method"}).Draw(t, "noise")], ID: other})
		}
		for k := rapid.IntRange(1, 2).Draw(t, "life_late"); k > 0; k-- {
			c.Seq = append(c.Seq, C12Sym{Shape: idx["body"], ID: id})
		}
		n = rapid.IntRange(0, 6).Draw(t, "life_tail")
	}
	for i := 0; i < n; i++ {
		if i > 0 && len(c.Seq) > 0 && rapid.IntRange(0, 2).Draw(t, "repeat") == 0 {
			c.Seq = append(c.Seq, c.Seq[len(c.Seq)-1]) // runs of the same envelope fill the one-slot queues
			continue
		}
		c.Seq = append(c.Seq, C12Sym{Shape: rapid.IntRange(0, len(al)-1).Draw(t, "shape"), ID: uint64(rapid.IntRange(1, 2).Draw(t, "id"))})
	}
	return c
}

// c12Enum returns the i-th sequence of exactly length n over the alphabet x ids {1,2}.
func c12Enum(n, i int) C12Case {
	al := len(c12Alphabet()) * 2
	c := C12Case{Stats: i%2 == 1, BusyHandlers: i%3 == 1} // configurations rotate with the index: stats handler, handlers that use the metadata API
	for k := 0; k < n; k++ {
		d := i % al
		i /= al
		c.Seq = append(c.Seq, C12Sym{Shape: d / 2, ID: uint64(d%2 + 1)})
	}
	return c
}

func execC12(t *testing.T, c C12Case) (v Verdict) {
	al := c12Alphabet()
	var mu sync.Mutex
	unaryRuns := 0
	unaryBadReq := 0
	streamStarts := map[uint64]int{}
	var out []*kit.Rpc
	serveDone := false
	probeOK := false
	var tap []kit.Ev
	stalledAt := -1
	res := kit.Bubble(t, func() {
		svc := kit.NewSvc()
		svc.Unary("u", func(ctx context.Context, req []byte) ([]byte, error) {
			mu.Lock()
			unaryRuns++
			if !bytes.Equal(req, []byte("req")) && len(req) != 0 {
				unaryBadReq++
			}
			mu.Unlock()
			if c.BusyHandlers {
				// an application that uses the whole handler-side API, including a call that is refused
				_ = grpc.SetHeader(ctx, metadata.Pairs("h", "1"))
				_ = grpc.SendHeader(ctx, metadata.Pairs("h", "2"))
				_ = grpc.SendHeader(ctx, metadata.Pairs("h", "3")) // headers were already sent: returns an error
				_ = grpc.SetHeader(ctx, metadata.Pairs("h", "4"))  // likewise
				_ = grpc.SetTrailer(ctx, metadata.Pairs("t", "1"))
			}
			return append([]byte("re:"), req...), nil
		})
		svc.Unary("probe", func(ctx context.Context, req []byte) ([]byte, error) { return append([]byte("probe:"), req...), nil })
		slowGate := make(chan struct{})
		svc.Unary("uslow", func(ctx context.Context, req []byte) ([]byte, error) {
			<-slowGate // ignores its context: returns only after the connection is gone
			return req, nil
		})
		svc.Stream("s", true, true, func(s grpcServerStream) error {
			// which id? the harness learns it from the open that started us: count per live order instead
			mu.Lock()
			streamStarts[0]++
			mu.Unlock()
			for {
				b, err := kit.RecvBytes(s)
				if err != nil {
					return nil
				}
				if kit.SendBytes(s, b) != nil {
					return nil
				}
			}
		})
		linger := make(chan struct{})
		lingering := func(s grpcServerStream) error {
			mu.Lock()
			streamStarts[0]++
			mu.Unlock()
			_, _ = kit.RecvBytes(s)
			select {
			case <-linger:
			case <-s.Context().Done():
			}
			return nil
		}
		svc.Stream("l", true, true, lingering)
		svc.Stream("ls", false, true, lingering) // server-streaming: the caller sends one message and half-closes
		var sopts []goat.ServerOption
		if c.Stats {
			sopts = append(sopts, goat.StatsHandler(nopStats{}))
		}
		w := kit.NewWorld(kit.Topo{Kind: "direct", Serialize: c.Ser, Clients: 1, Raw: true}, svc, sopts, nil)
		raw := w.Links[0].A
		for k := 0; k < c.SlowUnary; k++ {
			se := kit.EnvSpec{Body: &kit.Payload{Class: "lit", Lit: []byte("slow")}, Wrap: true}
			_ = raw.Write(context.Background(), se.Build(uint64(9001+k), kit.FullMethod("uslow"), "c0", kit.ServerName))
		}
		kit.Settle()
		for i, s := range c.Seq {
			e := al[s.Shape].Env
			_ = raw.Write(context.Background(), e.Build(s.ID, "", "c0", kit.ServerName))
			if !c.Burst {
				kit.Settle()
				if stalledAt < 0 && w.Links[0].B.Pending() > 0 {
					// the read loop is parked (legitimately) on a lingering stream's full queue: from here on
					// envelopes are no longer digested one by one, so the life-cycle model below does not apply
					stalledAt = i
				}
			}
		}
		if c.Burst {
			// With envelopes in flight the bubble cannot be settled while a handler lingers: a stream whose
			// handler has returned queues for the registry mutex that the read loop holds while it is parked
			// (legitimately) on the lingering stream, and a goroutine queueing for a mutex is never durably
			// blocked. In burst mode the lingering handlers are therefore released before the first settle.
			close(linger)
		}
		kit.Settle()
		// the lingering handlers return now; whatever the read loop could not hand over meanwhile proceeds
		if !c.Burst {
			close(linger)
		}
		kit.Settle()
		out = append(out, raw.ReadAvailable()...)
		// probe on a fresh id
		pe := kit.EnvSpec{Body: &kit.Payload{Class: "lit", Lit: []byte("p")}, Wrap: true}
		_ = raw.Write(context.Background(), pe.Build(9999, kit.FullMethod("probe"), "c0", kit.ServerName))
		kit.Settle()
		for _, r := range raw.ReadAvailable() {
			if r.GetId() == 9999 {
				if r.GetStatus() == nil && bytes.Equal(unwrapBytes(r.GetBody().GetData()), []byte("probe:p")) && r.GetTrailer() != nil {
					probeOK = true
				}
			} else {
				out = append(out, r)
			}
		}
		serveDone, _ = w.ServeResult("c0")
		tap = w.Tap.Snapshot()
		w.Shutdown()
		kit.Settle()
		close(slowGate) // the slow unary handlers reply to a connection that no longer exists
		kit.Settle()
	})
	if res.Panic != nil {
		v.failf("panic: %v\n%s", res.Panic, res.Stack)
	}
	if serveDone {
		v.failf("Serve returned: the peer's envelopes made the server stop serving")
	}
	if !probeOK {
		v.failf("a valid request after the sequence was not answered correctly")
	}
	// counts from the sequence
	validUnary, maybeUnary := 0, 0
	validUnaryByID := map[uint64]int{}
	everOpened := map[uint64]bool{}
	validOpens, maybeOpens := 0, 0
	bodiesNeverOpened := map[uint64]int{}
	resetTriggers := map[uint64]int{}
	malformed, wellformed := 0, 0
	touched := map[uint64]int{}
	refusable := 0
	// A small definite life-cycle model for the echo method "s" when every envelope is digested before the next one is
	// sent (non-burst): open -> (caller's OK trailer | caller's reset) -> the handler returns and the stream is gone; a
	// body arriving after that is "a body for a stream the server does not know" and must be answered by a reset. Any
	// other envelope touching the id makes its state unknown (no requirement), and so does every envelope from the first
	// one the server had not read when the harness went on (stalledAt: the read loop was parked on a lingering stream).
	sState := map[uint64]string{} // "" none | open | ended | unknown
	bodiesAfterEnd := map[uint64]int{}
	for i, s := range c.Seq {
		sh := al[s.Shape]
		if !c.Burst {
			st := sState[s.ID]
			switch {
			case st == "unknown":
			case stalledAt >= 0 && i >= stalledAt:
				sState[s.ID] = "unknown"
			case sh.Name == "open" && st == "":
				sState[s.ID] = "open"
			case (sh.Name == "trailer-ok" || sh.Name == "reset") && st == "open":
				sState[s.ID] = "ended"
			case sh.Name == "body" && st == "open":
			case sh.Name == "body" && st == "ended":
				bodiesAfterEnd[s.ID]++
			case sh.ValidUnary || sh.MaybeUnary || sh.Name == "unary-badmd" || sh.Name == "unary-garbage-body":
				// unary requests live in the same id space but do not touch stream registrations
			default:
				sState[s.ID] = "unknown"
			}
		}
		touched[s.ID]++
		if sh.Name == "unary-badmd" || sh.Name == "unary-garbage-body" {
			refusable++
		}
		if sh.Malformed {
			malformed++
		} else {
			wellformed++
		}
		switch {
		case sh.ValidUnary:
			validUnary++
			validUnaryByID[s.ID]++
		case sh.MaybeUnary:
			maybeUnary++
		case sh.MaybeOpen:
			maybeOpens++
			everOpened[s.ID] = true // conservatively: later bodies need not be answered by a reset
		case sh.ValidOpen:
			validOpens++
			everOpened[s.ID] = true
		case sh.StreamBody:
			if !everOpened[s.ID] {
				bodiesNeverOpened[s.ID]++
			}
			resetTriggers[s.ID]++
		case sh.BadMDOpen:
			resetTriggers[s.ID]++
		}
	}
	if unaryRuns < validUnary || unaryRuns > validUnary+maybeUnary {
		v.failf("unary handler ran %d times for %d well-formed requests (+%d without a body)", unaryRuns, validUnary, maybeUnary)
	}
	if unaryBadReq > 0 {
		v.failf("unary handler saw a request body no envelope carried")
	}
	starts := streamStarts[0]
	if starts > validOpens+maybeOpens {
		v.failf("stream handler started %d times for %d well-formed opens", starts, validOpens)
	}
	if validOpens > 0 && starts == 0 {
		v.failf("no stream handler started although %d well-formed opens were sent", validOpens)
	}
	// server output
	unaryReplies := map[uint64]int{}
	errorReplies := 0
	resets := map[uint64]int{}
	for _, r := range out {
		id := r.GetId()
		if touched[id] == 0 {
			v.failf("server emitted an envelope for id %d which it never received", id)
		}
		if r.GetHeader() == nil {
			v.failf("server emitted an envelope without a header")
			continue
		}
		if r.GetReset_() != nil {
			resets[id]++
			continue
		}
		if r.GetHeader().GetMethod() == kit.FullMethod("u") {
			if r.GetStatus().GetCode() != 0 {
				errorReplies++ // a refusal (undecodable metadata or body); no handler ran for it
			} else {
				unaryReplies[id]++
			}
			if r.GetTrailer() == nil || (r.GetBody() == nil && r.GetStatus().GetCode() == 0) {
				v.failf("malformed unary response %q", kit.Shape(r))
			}
			if r.GetHeader().GetSource() != kit.ServerName || r.GetHeader().GetDestination() != "c0" {
				v.failf("unary response does not swap source and destination")
			}
		}
	}
	totalReplies := 0
	for id, n := range unaryReplies {
		totalReplies += n
		_ = id
	}
	if totalReplies != unaryRuns {
		v.failf("%d unary handler runs but %d successful unary responses", unaryRuns, totalReplies)
	}
	if errorReplies > refusable {
		v.failf("%d unary error responses but only %d undecodable requests", errorReplies, refusable)
	}
	for id, n := range validUnaryByID {
		if unaryReplies[id] < n {
			v.failf("id %d: %d well-formed unary requests, %d responses", id, n, unaryReplies[id])
		}
	}
	for id, n := range bodiesNeverOpened {
		if resets[id] < n {
			v.failf("id %d: %d bodies for a stream that was never opened, only %d resets", id, n, resets[id])
		}
	}
	for id, n := range bodiesAfterEnd {
		if sState[id] != "unknown" && resets[id] < n+bodiesNeverOpened[id] {
			v.failf("id %d: %d bodies arrived after the stream had been opened, ended by its caller and left by its handler - a stream the server no longer knows - but only %d resets were sent", id, n, resets[id])
		}
	}
	for id, n := range resets {
		if n > resetTriggers[id] {
			v.failf("id %d: %d resets emitted but only %d envelopes that could trigger one", id, n, resetTriggers[id])
		}
	}
	same := false
	for _, n := range touched {
		if n >= 2 {
			same = true
		}
	}
	lenClass := "len>4"
	if len(c.Seq) <= 4 {
		lenClass = fmt.Sprintf("len=%d", len(c.Seq))
	}
	late := 0
	for id, n := range bodiesAfterEnd {
		if sState[id] != "unknown" {
			late += n
		}
	}
	v.Info = kit.CaseInfo{Labels: []string{lenClass, fmt.Sprintf("mixed=%v", malformed > 0 && wellformed > 0), fmt.Sprintf("body_after_stream_end=%v", late > 0)}, NonTrivial: (malformed > 0 && wellformed > 0) || same,
		Key: fmt.Sprintf("%v/%v", c.Seq, c.Ser), Sample: map[string]any{"sequence": c.names()}}
	if v.Fail != "" {
		v.Detail = map[string]any{"sequence": c.names(), "wire": tapSummary(tap, 100)}
	}
	return
}

func TestC12(t *testing.T) { checkProp(t, "C12", "random", genC12, execC12) }

// TestC12Enum: bounded-exhaustive sequences. Quick: all of length <=2 and a 1/40 sample of length 3;
// thorough: all of length <=3 and a 1/20 sample of length 4.
func TestC12Enum(t *testing.T) {
	al := len(c12Alphabet()) * 2
	full, sampled, stride := 2, 3, 40
	if thorough() {
		full, sampled, stride = 3, 4, 20
	}
	for n := 1; n <= full; n++ {
		total := 1
		for k := 0; k < n; k++ {
			total *= al
		}
		n := n
		enumProp(t, "C12", fmt.Sprintf("enum%d", n), total, func(i int) C12Case { return c12Enum(n, i) }, execC12)
		if t.Failed() {
			return
		}
	}
	if _, sn := shard(); true {
		_ = sn
		kit.G().MarkExhaustive(fmt.Sprintf("all envelope sequences of length<=%d over %d symbols", full, al))
	}
	total := 1
	for k := 0; k < sampled; k++ {
		total *= al
	}
	seed := 0
	fmt.Sscanf(getenv("VERIF_SEED", "1"), "%d", &seed)
	enumProp(t, "C12", fmt.Sprintf("sample%d", sampled), total/stride, func(i int) C12Case { return c12Enum(sampled, (i*stride+seed)%total) }, execC12)
}

// FuzzC12: coverage-guided search over envelope sequences; each input byte pair selects (shape, id).
func FuzzC12(f *testing.F) {
	f.Add([]byte{0, 0, 10, 1, 13, 1, 15, 1})
	f.Add([]byte{2, 0, 11, 1, 13, 0, 17, 1, 0, 1})
	f.Add([]byte{10, 0, 13, 0, 13, 0, 13, 0, 15, 0, 13, 0})
	f.Fuzz(func(t *testing.T, data []byte) {
		al := len(c12Alphabet())
		c := C12Case{Ser: len(data)%2 == 1}
		for i := 0; i+1 < len(data) && i < 80; i += 2 {
			c.Seq = append(c.Seq, C12Sym{Shape: int(data[i]) % al, ID: uint64(data[i+1]%2) + 1})
		}
		if len(c.Seq) == 0 {
			return
		}
		journal("C12", "random", c)
		if v := execC12(t, c); v.Fail != "" {
			writeReplay("C12", "random", v.Fail, c, v.Detail)
			t.Fatalf("VERIF-FAIL C12/fuzz: %s", v.Fail)
		}
	})
}

// ---- C12 id reuse: a peer opens, resets and re-opens the same stream id while the old handler is still unwinding ----

type C12Reuse struct {
	Cycles            int  `json:"cycles"`              // open/reset cycles before the final open (1..3)
	Bodies            int  `json:"bodies"`              // bodies per life (0..3)
	ReleaseBeforeNext bool `json:"release_before_next"` // old handler finishes unwinding before (true) or after (false) the id is opened again
	Ser               bool `json:"ser"`
}

func genC12Reuse(t *rapid.T) C12Reuse {
	return C12Reuse{Cycles: rapid.IntRange(1, 3).Draw(t, "cycles"), Bodies: rapid.IntRange(0, 3).Draw(t, "bodies"), ReleaseBeforeNext: rapid.Bool().Draw(t, "rbn"), Ser: rapid.Bool().Draw(t, "ser")}
}

func execC12Reuse(t *testing.T, c C12Reuse) (v Verdict) {
	var tap []kit.Ev
	if !c.ReleaseBeforeNext {
		c.Cycles = 1 // lives that start while an older handler is unwinding are not served (see below): one such cycle
	}
	res := kit.Bubble(t, func() {
		bg := context.Background()
		sched := kit.NewSched()
		svc := kit.NewSvc()
		var mu sync.Mutex
		inst := 0
		svc.Stream("g", true, true, func(s grpcServerStream) error {
			mu.Lock()
			inst++
			me := inst
			mu.Unlock()
			for {
				b, err := kit.RecvBytes(s)
				if err != nil {
					if s.Context().Err() != nil {
						sched.Park(nil, fmt.Sprintf("unwind-%d", me)) // slow to leave after the reset
					}
					return nil
				}
				if err := kit.SendBytes(s, append([]byte(fmt.Sprintf("i%d:", me)), b...)); err != nil {
					return nil
				}
			}
		})
		w := kit.NewWorld(kit.Topo{Kind: "direct", Serialize: c.Ser, Clients: 1, Raw: true}, svc, nil, nil)
		raw := w.Links[0].A
		method := kit.FullMethod("g")
		send := func(e kit.EnvSpec) {
			e.Wrap = true
			_ = raw.Write(bg, e.Build(7, method, "c0", kit.ServerName))
			kit.Settle()
		}
		seq := 0
		expectEcho := func(life int, where string) {
			seq++
			msg := []byte{byte(seq), 0x12}
			send(kit.EnvSpec{Body: &kit.Payload{Class: "lit", Lit: msg}})
			got := raw.ReadAvailable()
			want := append([]byte(fmt.Sprintf("i%d:", life)), msg...)
			found := false
			for _, r := range got {
				if r.GetId() == 7 && bytes.Equal(unwrapBytes(r.GetBody().GetData()), want) {
					found = true
				}
				if r.GetReset_() != nil {
					v.failf("%s: a body for the open stream 7 (life %d) was answered with a reset", where, life)
				}
			}
			if !found && v.Fail == "" {
				v.failf("%s: a body for the open stream 7 was not handled by its current handler (life %d)", where, life)
			}
		}
		for k := 1; k <= c.Cycles; k++ {
			send(kit.EnvSpec{}) // open
			for i := 0; i < c.Bodies; i++ {
				expectEcho(k, fmt.Sprintf("life %d", k))
			}
			send(kit.EnvSpec{Reset: "RST_STREAM"})
			raw.ReadAvailable()
			if c.ReleaseBeforeNext {
				sched.ReleaseGate(fmt.Sprintf("unwind-%d", k))
				kit.Settle()
			}
		}
		final := c.Cycles + 1
		if c.ReleaseBeforeNext {
			// the old handlers have left: the id is free again and a new open is an ordinary well-formed request
			send(kit.EnvSpec{})
			expectEcho(final, "re-opened after the old handler had left")
			expectEcho(final, "re-opened after the old handler had left (second message)")
		} else {
			// The id is re-opened while the reset handler is still unwinding. goat keeps the old registration
			// until that handler has returned, so the second open is not served; the property only asks that
			// nothing crashes or stalls, so nothing is asserted about these envelopes in that case.
			// Either answer to the re-open is accepted, but not a mixture: if the server does start a handler
			// for it, it has accepted a well-formed request and must serve it correctly - also once the older
			// handler finally returns.
			mu.Lock()
			before := inst
			mu.Unlock()
			send(kit.EnvSpec{})
			mu.Lock()
			accepted := inst > before
			life := inst
			mu.Unlock()
			if accepted {
				expectEcho(life, "re-open accepted while the reset handler was unwinding")
			} else {
				send(kit.EnvSpec{Body: &kit.Payload{Class: "lit", Lit: []byte("x")}})
				raw.ReadAvailable()
			}
			for k := 1; k <= c.Cycles; k++ {
				sched.ReleaseGate(fmt.Sprintf("unwind-%d", k))
			}
			kit.Settle()
			if accepted {
				expectEcho(life, "accepted re-open, after the older handler of the same id had returned")
			}
			send(kit.EnvSpec{Reset: "RST_STREAM"}) // whatever life the id has now is ended ...
			mu.Lock()
			for k := 1; k <= inst; k++ {
				sched.ReleaseGate(fmt.Sprintf("unwind-%d", k))
			}
			mu.Unlock()
			kit.Settle()
			raw.ReadAvailable()
			send(kit.EnvSpec{}) // ... and a fresh open of the now free id must be served
			mu.Lock()
			final = inst
			mu.Unlock()
			expectEcho(final, "fresh open after every earlier life of the id had ended")
		}
		send(kit.EnvSpec{Status: &kit.StatusSpec{Code: 0}, Trailer: true})
		// the connection still serves
		pe := kit.EnvSpec{}
		_ = pe
		tap = w.Tap.Snapshot()
		sched.Drain()
		w.Shutdown()
		kit.Settle()
	})
	if res.Panic != nil {
		v.failf("panic: %v\n%s", res.Panic, res.Stack)
	}
	v.Info = kit.CaseInfo{Labels: []string{"idreuse", fmt.Sprintf("release_before_next=%v", c.ReleaseBeforeNext)}, NonTrivial: true, Key: fmt.Sprintf("%+v", c), Sample: c}
	if v.Fail != "" {
		v.Detail = map[string]any{"wire": tapSummary(tap, 60)}
	}
	return
}

func TestC12Reuse(t *testing.T) { checkProp(t, "C12", "idreuse", genC12Reuse, execC12Reuse) }
