"""Per-property job tables for ./check (counts are cases per tier; rapid jobs are split over shards)."""

COMMON_ASSUMPTIONS = [
    "goat is compiled with go1.26.8 (testing/synctest) and -tags verif; the pinned suite uses go1.23.5 without the tag",
    "the harness transport (kit.Link) is a faithful reliable ordered transport: unbounded FIFO per direction, Write may be delayed, Read/Write honour ctx",
    "between two settle points goat-internal interleavings are left to the Go scheduler",
    "absence of a violation in the explored cases is not a proof of absence",
]

CHECKS = {
    "C01": dict(
        level="exploration",
        rule=("rapid-generated cases: topology (direct|demux|proxy) x transport mode (by-ref|serialising) x 1..64 concurrent unary calls "
              "with payloads from {empty, literal, random, zero, 0xFF, protobuf-looking, 16-64KiB}; request writes, handler completion and reply writes "
              "are released one at a time by a drawn tape. Oracle: reply == sha256(own request)||len||pad, handler ran exactly once with the caller's bytes, "
              "one request and one response envelope per id on the tap. Non-trivial = (>=2 calls and reply order != request order on the wire) or a request that is empty or >=16KiB; "
              "distinct = distinct canonical case JSON (64-bit hash)."),
        jobs=[dict(test="TestC01", quick=640, thorough=24000)],
        floors={"reordered=true": 0.15, "topo=proxy": 0.1, "topo=demux": 0.1, "ser=true": 0.25},
        assumptions=COMMON_ASSUMPTIONS,
    ),
    "C02": dict(
        level="exploration",
        rule=("rapid-generated fault-free conversations: 1..32 concurrent RPCs (client/server/bidi streams plus unary) on 1..3 connections over direct|demux|proxy topologies, "
              "by-ref or serialising transport; per stream 0..200 messages per direction with payload classes as C01; caller and handler programs are projections of a joint schedule "
              "(templates: send-all/ping-pong/random/late-close x echo/burst/reply-after-EOF/random, early handler return, optional separate sender/receiver goroutines, optional Header()/Trailer()); "
              "envelope delivery optionally released one at a time by a drawn tape. Oracle (history invariant): handler-received == caller-sent up to where the handler stopped reading, io.EOF exactly after half-close, "
              "caller-received == handler-sent complete and in order, terminal receive is io.EOF iff the handler returned nil, repeated receives after the end never yield data. "
              "Non-trivial = envelopes of >=2 calls interleaved on one connection, or >=11 messages one way, or separate sender/receiver goroutines; distinct = canonical case JSON hash."),
        jobs=[dict(test="TestC02", quick=1600, thorough=40000)],
        floors={"interleaved=true": 0.2, "concurrent=true": 0.1, "msgs>=11": 0.05, "kind=client": 0.1, "kind=server": 0.1, "kind=bidi": 0.2},
        assumptions=COMMON_ASSUMPTIONS,
    ),
}
