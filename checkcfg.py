"""Per-property job tables for ./check (counts are cases per tier; rapid jobs are split over shards)."""

COMMON_ASSUMPTIONS = [
    "goat is compiled with go1.26.8 (testing/synctest) and -tags verif; the pinned suite uses go1.23.5 without the tag",
    "the harness transport (kit.Link) is a faithful reliable ordered transport: unbounded FIFO per direction, Write may be delayed, Read/Write honour ctx",
    "between two settle points goat-internal interleavings are left to the Go scheduler",
    "absence of a violation in the explored cases is not a proof of absence",
]

CHECKS = {
    "C01": dict(
        level="exploration",
        rule=("rapid-generated cases: topology (direct|demux|proxy) x transport mode (by-ref|serialising) x 1..64 concurrent unary calls "
              "with payloads from {empty, literal, random, zero, 0xFF, protobuf-looking, 16-64KiB}; request writes, handler completion and reply writes "
              "are released one at a time by a drawn tape. Oracle: reply == sha256(own request)||len||pad, handler ran exactly once with the caller's bytes, "
              "one request and one response envelope per id on the tap. Non-trivial = (>=2 calls and reply order != request order on the wire) or a request that is empty or >=16KiB; "
              "distinct = distinct canonical case JSON (64-bit hash)."),
        jobs=[dict(test="TestC01", quick=640, thorough=24000)],
        floors={"reordered=true": 0.15, "topo=proxy": 0.1, "topo=demux": 0.1, "ser=true": 0.25},
        assumptions=COMMON_ASSUMPTIONS,
    ),
}
