"""Per-property job tables for ./check (counts are cases per tier; rapid jobs are split over shards)."""

COMMON_ASSUMPTIONS = [
    "goat is compiled with go1.26.8 (testing/synctest) and -tags verif; the pinned suite uses go1.23.5 without the tag",
    "the harness transport (kit.Link) is a faithful reliable ordered transport: unbounded FIFO per direction, Write may be delayed, Read/Write honour ctx",
    "between two settle points goat-internal interleavings are left to the Go scheduler",
    "absence of a violation in the explored cases is not a proof of absence",
]

CHECKS = {
    "C01": dict(
        level="exploration",
        rule=("rapid-generated cases: topology (direct|demux|proxy) x transport mode (by-ref|serialising) x 1..64 concurrent unary calls "
              "with payloads from {empty, literal, random, zero, 0xFF, protobuf-looking, 16-64KiB}; request writes, handler completion and reply writes "
              "are released one at a time by a drawn tape. Oracle: reply == sha256(own request)||len||pad, handler ran exactly once with the caller's bytes, "
              "one request and one response envelope per id on the tap; plus a smoke job (TestC01Net) running 1..16 concurrent unary calls over a real loopback WebSocket pair and over two GoatOverHttp endpoints (wall-clock budget, overrun = inconclusive). Non-trivial = (>=2 calls and reply order != request order on the wire) or a request that is empty or >=16KiB; "
              "distinct = distinct canonical case JSON (64-bit hash)."
              " Virtual time passes (0/1/20/2000 ms) at every quiescent point of the generated schedule, so that timers inside the code under test fire while handlers are parked."
              " repeat: 1..3 unary methods called again and again (2..6 rounds of 1..4 concurrent calls, every topology, with or without metadata and deadline): every call gets its own handler's reply to its own request, each handler runs once per call - the main sub-check gives every call a method of its own."
              " net (http): the harness counts the POSTs the receiving end refused with 400 Bad Request; every envelope of these calls was produced by the library itself, so a refusal is reported as a violation even when the time budget has run out."
              " In a third of the demux/proxy cases every client first makes a warm-up call and the Demux is told to Cancel its key (demux_key_returns): the calls of the case are the first envelopes of the key's next life."
              " repeat: in a third of the cases the application keeps one reply object per concurrent slot and hands it to Invoke again in every round, and every third call is answered with the empty message."
              " long-lived: 1..3 slow unary calls stay in flight on a connection while 300..1500 other calls complete on it (1..6 at a time); then the slow handlers are released: every call returns its own handler's reply, every handler ran once."),
        jobs=[dict(test="TestC01Long", quick=48, thorough=600, shards=8), dict(test="TestC01", quick=1920, thorough=24000), dict(test="TestC01Net", quick=64, thorough=1000, shards=4), dict(test="TestC01Reuse", quick=200, thorough=2000, shards=4), dict(test="TestC01Repeat", quick=1600, thorough=16000)],
        floors={"TestC01:reordered=true": 0.15, "TestC01:topo=proxy": 0.1, "TestC01:topo=demux": 0.1, "TestC01:ser=true": 0.25, "TestC01:time_passes=true": 0.3, "TestC01:stats=true": 0.1, "TestC01Repeat:repeat.topo=proxy": 0.08, "TestC01Repeat:repeat.plain_calls=true": 0.2},
        assumptions=COMMON_ASSUMPTIONS,
    ),
    "C02": dict(
        level="exploration",
        rule=("rapid-generated fault-free conversations: 1..32 concurrent RPCs (client/server/bidi streams plus unary) on 1..3 connections over direct|demux|proxy topologies, "
              "by-ref or serialising transport; per stream 0..200 messages per direction with payload classes as C01; caller and handler programs are projections of a joint schedule "
              "(templates: send-all/ping-pong/random/late-close x echo/burst/reply-after-EOF/random, early handler return, optional separate sender/receiver goroutines, optional Header()/Trailer()); "
              "envelope delivery optionally released one at a time by a drawn tape. Oracle (history invariant): handler-received == caller-sent up to where the handler stopped reading, io.EOF exactly after half-close, "
              "caller-received == handler-sent complete and in order, terminal receive is io.EOF iff the handler returned nil, repeated receives after the end never yield data. "
              "Non-trivial = envelopes of >=2 calls interleaved on one connection, or >=11 messages one way, or separate sender/receiver goroutines; distinct = canonical case JSON hash."
              " burst: 2..64 bidi streams opened in the same instant (optionally through a spin barrier at the verif hook point in front of the id allocation, groups of 2/4/8 callers leaving it within nanoseconds), 1..4 messages each, 1..3 rounds; every stream receives exactly the echoes of its own messages and io.EOF, every handler instance sees one caller's messages only. writefault: one body or half-close write of a client-streaming exchange fails while reads stay healthy (fault error value drawn from kit.FaultErrKinds): the Send reports the failure or the message arrives."
              " Conversation cases may be preceded by 0..2 calls on an already cancelled context on every connection (they fail, and must leave the connection as good as new)."
              " late: 1..4 server streams get 0..2 responses (with or without the trailer) delivered, then the connection fails, and only then do the callers start receiving: a completely delivered response is returned exactly, an incomplete one ends in an error, nobody blocks."
              " other-serve-ctx: one Server serves 2..3 connections through separate Serve calls with separate contexts; a ping-pong stream of 1..6 round trips runs on connection 0 while the context passed to Serve for another connection is cancelled at a drawn point: the stream delivers everything in order and ends with io.EOF, and a connection served by the same Server afterwards works."),
        jobs=[dict(test="TestC02", quick=4800, thorough=40000), dict(test="TestC02Race", quick=200, thorough=2000, shards=4), dict(test="FuzzC02", kind="fuzz", quick=0, thorough=90), dict(test="TestC02Fault", quick=300, thorough=3000, shards=4), dict(test="TestC02Burst", quick=800, thorough=8000), dict(test="TestC02Late", quick=800, thorough=8000), dict(test="TestC02OtherCtx", quick=640, thorough=6000, shards=4)],
        floors={"TestC02:interleaved=true": 0.2, "TestC02:concurrent=true": 0.1, "TestC02:msgs>=11": 0.05, "TestC02:kind=client": 0.1, "TestC02:kind=server": 0.1, "TestC02:kind=bidi": 0.2, "TestC02:arm_end=true": 0.1, "TestC02Burst:burst.spin_barrier=true": 0.4, "TestC02:dead_calls_before=true": 0.15},
        assumptions=COMMON_ASSUMPTIONS,
    ),
    "C03": dict(
        level="exploration",
        rule=("three rapid sub-checks. main: 1..4 concurrent RPCs of all four kinds against a goat server whose handlers return nil / status errors (codes 0..16 and 99, empty/ASCII/Unicode/4KiB messages, 0..3 details incl. nested Any) / wrapped status / plain / context errors / a non-nil error whose GRPCStatus is OK, "
              "before any message, mid-stream or after the last message, with trailers; oracle model.Status: success iff handler returned nil, code+message+details equal (proto.Equal), wrapped keeps code/details and contains the message, non-status errors are non-OK and carry the text. "
              "foreign: scripted peer instead of a goat server, 15 reply shapes (explicit OK status+body, status without trailer metadata, status+body, reset alone / without trailer / before / after the trailer, trailer without status...). "
              "race: the server's trailer Write is parked while the caller sends 1..4 more bodies, then released (reset vs trailer). "
              "Non-trivial = non-OK outcome with >=1 detail, or mid-stream failure position, or any foreign/race case; distinct = canonical case hash."
              " Callers optionally use the API in unusual but legal orders: CloseSend twice; further receives after the end (which must report the same outcome again)."
              " The scripted-peer sub-check reaches the peer directly, through a goat.Proxy, or as a logical connection of a goat.Demux."
              " Status messages range from empty to 280 KB (ASCII and multi-byte, around 16 KiB and 64 KiB)."
              " cut: a handler of any of the four kinds fails, and the caller's transport read fails (9 error values incl. bare io.EOF; write side failing or not; caller parked in its receive or arriving later) while the envelope with that status is still in the transport: the caller must not be told the call succeeded."
              " parked-send: a client-streaming or bidirectional handler returns (nil or any failure kind) while a further send of the caller, issued from a second goroutine, is parked inside the transport write; the caller's receive must report the handler's outcome, whatever the parked send returns afterwards."
              " late: the request carries a 30 ms grpc-timeout as plain metadata (the caller's context has no deadline); the handler of any kind waits for its context to end and then returns nil or a failure of any kind; directly, through a proxy or a demux: the caller observes exactly that outcome."
              " pace: the C05 pace cases (both sides sending back to back, each side receiving at its own pace, pauses up to 7 s of virtual time) with handlers that end in a drawn status: the caller gets every message and then exactly that status."),
        jobs=[dict(test="TestC03", quick=4800, thorough=40000), dict(test="TestC03Foreign", quick=800, thorough=10000, shards=4), dict(test="TestC03Race", quick=400, thorough=5000, shards=4), dict(test="TestC03Cut", quick=800, thorough=10000, shards=4), dict(test="TestC03ParkedSend", quick=800, thorough=10000, shards=4), dict(test="TestC03Late", quick=800, thorough=10000, shards=4), dict(test="TestC03Pace", quick=640, thorough=8000, shards=4), dict(test="FuzzC03", kind="fuzz", quick=0, thorough=90)],
        floors={"TestC03:pos=mid-stream": 0.03, "TestC03:intercept=true": 0.1, "TestC03:api_order=close-twice": 0.05, "TestC03Foreign:foreign.via=proxy": 0.08, "TestC03Foreign:foreign.via=demux": 0.08, "TestC03Cut:cut.err=eof": 0.05, "TestC03Cut:cut.kind=unary": 0.1},
        assumptions=COMMON_ASSUMPTIONS,
    ),
    "C04": dict(
        level="exploration",
        rule=("rapid-generated RPCs of all four kinds with request metadata (0..6 keys from the gRPC alphabet in random letter case, 1..4 values, keys reused across sets; text values printable ASCII; -bin values empty/NUL/0xFF/random up to 1KiB), "
              "handlers calling SetHeader 0..3 times, optional SendHeader, headers leaving with first message or with the status, late SetHeader, SetTrailer 0..3 times, grpc.SetHeader/SendHeader/SetTrailer in unary handlers, trailers with error returns. "
              "Oracle model.MD (independent join/lower-case/base64 implementation): handler's incoming metadata, Header(), Trailer(), unary InHeader (recording stats handler) and the tap (decoded by the model) all equal the model; response metadata only on the first response envelope. "
              "Non-trivial = a -bin value with NUL or non-UTF-8 bytes, or a key with >=2 values, or >=2 set calls; distinct = canonical case hash."
              " reuse: one header MD, one trailer MD and one outgoing-context MD object are kept by the application and passed again in each of 2..5 calls (together with per-call sets); each call must observe exactly its own sets and the application's objects must be left unchanged."
              " servectx: the context passed to Serve is cancelled while the connection keeps serving; handlers started afterwards must still see the request metadata."
              " servectx: the streaming handlers served after the Serve context has ended also call SetHeader, SendHeader (whose write may be refused: their context is done) and SetTrailer; a caller whose stream completes must see all of it."
              " Callers ask for the trailers twice in a row; both answers must be the same."),
        jobs=[dict(test="TestC04", quick=4800, thorough=50000), dict(test="TestC04Foreign", quick=800, thorough=10000, shards=4), dict(test="FuzzC04", kind="fuzz", quick=0, thorough=90), dict(test="TestC04Conc", quick=300, thorough=3000, shards=4), dict(test="TestC04Reuse", quick=800, thorough=8000), dict(test="TestC04ServeCtx", quick=480, thorough=4800)],
        floors={"TestC04:md-nontrivial": 0.3, "TestC04:hdr-via=sendheader": 0.03, "TestC04:hdr-via=first-message": 0.05, "TestC04:hdr-via=with-trailer": 0.05, "TestC04:unary": 0.1},
        assumptions=COMMON_ASSUMPTIONS,
    ),
    "C06": dict(
        level="exploration",
        rule=("the protocol automaton (kit.CheckWire) is the sole oracle over the wire tap of the C01-C04 generator families (plus the C03 reset-race scenario and, in the cancel/abandon jobs, the C07 and C11 scenarios): "
              "per (connection, id, direction) projection: unary = one header+body request and one header+trailer+(body|non-OK status) response; stream c->s = OPEN BODY* TRAILER? RESET? with nothing after the reset; "
              "s->c = HEADER? BODY* TRAILER(status) then only resets answering a late body, trailer present iff the handler returned on a live un-reset stream, no reset before that trailer; constant method/source/destination, swapped in responses; "
              "response metadata only on the first response envelope; server emits only ids it has read. Non-trivial = a projection with >=4 envelopes or a reset, or an early handler return; distinct = canonical case hash."
              " unary-cancel: 1..6 unary calls whose caller cancels or times out while the handler runs or while the reply's transport write is pending; the history must still show exactly one request envelope and at most one response per id, and each handler runs once."
              " ended-at-open: 1..6 calls (all kinds) whose context is already cancelled or expired when they start, or ends while their first envelope is parked in the transport; whatever reaches the wire must be nothing or a proper opening (a reset as the first envelope of an id is rejected)."
              " server-deadline: a scripted peer opens a stream with a 30 ms grpc-timeout, the handler lingers past it, 1..4 more bodies arrive, then the handler sends 0..2 messages and returns: no server reset for the still open stream, nothing after the trailer, exactly one trailer."
              " In the proxy topology the clients address the server under an alias that the proxy's address-rewriting callback turns into the real name (half of the proxy cases): on the client's link every envelope of a call carries the alias, every response the real name as its source."),
        jobs=[dict(test="TestC06", quick=4800, thorough=60000), dict(test="TestC06Race", quick=300, thorough=3000, shards=4), dict(test="TestC06Cancel", quick=240, thorough=3000), dict(test="TestC06Unary", quick=800, thorough=8000), dict(test="TestC06Open", quick=800, thorough=8000), dict(test="TestC06Deadline", quick=800, thorough=8000)],
        floors={"TestC06:family=c01": 0.1, "TestC06:family=c02": 0.2, "TestC06:family=c03": 0.1, "TestC06:family=c04": 0.1, "TestC06:early_return=true": 0.1},
        assumptions=COMMON_ASSUMPTIONS,
    ),
    "C08": dict(
        level="exploration",
        rule=("parser: (a) exhaustive grid through the verif-tagged export of the parser: 6 units x 1..8 digits x {10^(d-1), 10^d-1, +-1, zeros, nines}, the int64-overflow boundary in hours, every string of length<=2 over a 20-symbol alphabet, and a malformed corpus (empty, unit only, digits only, signs, spaces, decimals, unicode digits, wrong-case units...); "
              "(b) rapid strings from six classes (valid, overlong, signed/spaced, wrong unit, grammar soup, arbitrary unicode); (c) thorough: native fuzz target with the grid as seed corpus. Oracle model.Timeout in math/big: accepted iff ^[0-9]{1,8}[HMSmun]$, value == min(n*unit, MaxInt64ns), never negative; "
              "more than 8 digits (which goat's own client emits above 99999999 ms) may be ignored or read exactly, nothing else. end to end in a synctest bubble (virtual clock): caller timeouts from expired to 10^4h, unary and streams, 0..250ms virtual transit, "
              "or a scripted client sending the header with the key in four spellings; oracle: handler has a deadline iff the caller has, D_caller-1ms <= D_handler <= D_caller+transit, remainder <1ms conveyed as exactly 1ms, header value -> arrival+model value, malformed -> no deadline. "
              "Non-trivial = boundary digit count (1 or 8), saturating product, malformed/overlong class, remainder <1ms, non-canonical key spelling; distinct = distinct input string / case."
              " flood: 2..5 rounds of 2..32 unary calls drawn from two timeout values per round, released from one gate on 1..3 connections of one server; each handler's deadline must be its own caller's. In three fifths of the cases every handler takes 2, 40 or 300 ms of virtual time, so with more than eight calls in a round the later requests wait inside the server for a free worker: the handler's deadline must then lie between the caller's minus 1 ms and the caller's plus that transit."
              " abandon: 2..5 calls issued one after the other, all but the last cancelled while their request is written but not yet delivered (delayed delivery, by-reference or serialising link); each handler gets the deadline its own request carried."
              " End-to-end api-mode calls carry outgoing metadata in half of the cases."
              " e2e header mode: in a quarter of the cases a second timeout entry with a malformed value precedes the real one in the header list; the handler's deadline is what the well-formed entry says."),
        jobs=[dict(test="TestC08Grid", kind="enum", quick=1, thorough=1, shards=1),
              dict(test="TestC08Strings", quick=24000, thorough=1000000),
              dict(test="TestC08E2E", quick=1600, thorough=60000),
              dict(test="FuzzC08", kind="fuzz", quick=0, thorough=180), dict(test="TestC08Conc", quick=400, thorough=4000, shards=4), dict(test="TestC08Flood", quick=1600, thorough=16000), dict(test="TestC08Abandon", quick=800, thorough=8000)],
        floors={"TestC08Strings:parser.valid": 0.1, "TestC08Strings:parser.malformed": 0.3, "TestC08Strings:parser.overlong": 0.03, "TestC08E2E:e2e.api": 0.1, "TestC08E2E:e2e.header.valid": 0.03, "TestC08E2E:e2e.api-expired.lt1ms": 0.03, "TestC08Flood:flood.requests_waited_for_a_worker=true": 0.2},
        assumptions=COMMON_ASSUMPTIONS + ["the timeout parser is reached through the verif-tagged export VerifParseGrpcTimeout (same function the server calls)"],
    ),
    "C07": dict(
        level="fault_enumeration",
        rule=("rapid-generated scenarios (stream kind x caller sends 0..4 then optionally half-closes x handler sends 0..6 in recv-first/echo/send-first order, consumes everything it is sent and then waits on its context x 0..5 responses left unread "
              "x explicit cancel or virtual-clock deadline x 0..3 bystander RPCs x delivery tape); every envelope delivery is released one at a time, and the cancellation is placed after each prefix p=0..L of the delivery trace "
              "(all positions; quick tier samples 7 positions when L>10). Oracle: every receive issued after the cancellation returns; what is received overall is a prefix of what the handler really sent; within unread+1 receives the result is the Canceled/DeadlineExceeded status and stays so; never io.EOF; "
              "a later send fails with the context's error; Header() returns; a reset for the id is on the tap; the handler's context is done at the next quiescent point and the handler has exited; bystanders complete exactly; the cancelled stream's wire projection conforms (C06). "
              "Non-trivial = trace length >=2, or >=1 unread response, or deadline; distinct = distinct scenario; counters.positions = number of (scenario, position) executions."
              " In a quarter of the cases the caller's context carries a custom cancellation cause (WithCancelCause / WithTimeoutCause); the statuses demanded are those of ctx.Err()."
              " during-open: the caller's context ends (cancel / deadline, with or without cause) while the opening envelope is inside a transport write that completes regardless; the handler that then starts must not keep a live context, the call returns the context's status, other streams are unaffected."
              " A send after the cancellation must fail with the context's error; io.EOF is accepted only if the stream had completed before the context ended."
              " send-race: 1..3 bidi streams whose sender goroutine never pauses; explicit cancel after 0..60 scheduler yields; the sender must get an error, the pending receive the context's status, the handler's context must end."
              " In half of the scenarios the transport write that carries the caller's reset takes 0.2, 2 or 5 s of virtual time (a congested but reliable transport) before it completes; the reset must still reach the server (staged at the positions where no operation of the caller is pending: counters.positions_with_stalled_reset_write)."),
        jobs=[dict(test="TestC07", quick=1280, thorough=6000), dict(test="TestC07Open", quick=800, thorough=8000), dict(test="TestC07SendRace", quick=1600, thorough=16000), dict(test="FuzzC07", kind="fuzz", quick=0, thorough=90)],
        floors={"TestC07:unread>=3": 0.08, "TestC07:deadline=true": 0.3, "TestC07:kind=bidi": 0.2, "TestC07:kind=server": 0.2, "TestC07:kind=client": 0.2, "TestC07:park_send=true": 0.05, "TestC07:cause=true": 0.1, "TestC07:stats=true": 0.15, "TestC07:reset_write_stalls=true": 0.3, "TestC07:slow_unary=true": 0.3},
        assumptions=COMMON_ASSUMPTIONS + ["handlers that ignore >=2 queued requests and then wait are documented head-of-line blocking and generated under C11, not here"],
    ),
    "C11": dict(
        level="exploration",
        rule=("(a) exhaustive grid: handler returns (nil/error) after k of n caller messages for all 0<=k<n<=8 x {client,bidi}, released only once the n-k unread bodies have settled in the server; caller cancels with m responses unread for all 0<=m<=8 x {server,bidi}; "
              "(b) rapid cases over the same two modes plus scripted peers that send more than expected: a scripted caller sending 1..6 bodies/trailers after its half-close to a handler that lingers or has returned, and a scripted server sending 1..6 bodies/trailers/resets/replies after the trailer (or after the unary reply); 0..4 bystander RPCs (unary and ping-pong streams) in flight, one probe unary call with a 1h virtual deadline started afterwards. "
              "Oracle: probe returns its exact reply (DeadlineExceeded means everything was stuck), bystanders complete exactly, the abandoned call terminates (with the handler's status for early returns), no definitive deadlock (watchdog). "
              "Non-trivial = >=2 unread bodies, >=3 unread responses, surplus envelopes, or >=1 bystander; distinct = distinct case."
              " In caller-cancel mode on bidi streams the abandonment may instead be a SendMsg that fails to encode its message, after which the caller walks away without cancelling."
              " In caller-cancel mode on bidi streams one SendMsg of the caller may be parked in the transport write at the cancellation."
              " In handler-early mode the caller half-closes either after the handler has returned or (close_first) right after its last message, so that the half-close queues up in the server behind the unread messages while the handler is still busy; the grid covers both for every (k,n)."
              " failed-open: the transport delivers a stream's opening envelope but reports the write as failed, so the caller never serves that stream; its handler answers with 0..6 messages and returns: bystanders and the probe still complete."),
        jobs=[dict(test="TestC11Grid", kind="enum", quick=1, thorough=1, shards=1), dict(test="TestC11", quick=3200, thorough=20000), dict(test="FuzzC11", kind="fuzz", quick=0, thorough=90)],
        floors={"TestC11:mode=handler-early": 0.15, "TestC11:mode=caller-cancel": 0.15, "TestC11:mode=client-extra": 0.12, "TestC11:mode=server-extra": 0.12, "TestC11:send_fail=true": 0.012, "TestC11:early_trailer=true": 0.03, "TestC11:park_send=true": 0.01, "TestC11:close_first=true": 0.08, "TestC11:mode=failed-open": 0.1, "TestC11:queued_request=true": 0.03},
        assumptions=COMMON_ASSUMPTIONS + ["a caller that stops reading without cancelling is documented head-of-line blocking (the quantifier lists cancellation) and is not generated"],
    ),
    "C09": dict(
        level="fault_enumeration",
        rule=("rapid-generated scenarios: 1..5 concurrent calls (all four kinds; streams with optional separate header envelope and 0..3 bodies) against a scripted server whose response envelopes are emitted in a drawn interleaving; "
              "the client transport's Read is made to fail after each prefix p=0..L of the delivered response envelopes (every position of every scenario, plus after the last), with the write side failing too or staying writable; "
              "one more unary call and one more stream are started after the failure, and optionally a call is parked by the verif hook between the multiplexer's failure check and its registration until the failure has been recorded. "
              "Oracle: at the next quiescent point every call has returned; a call succeeds only if its complete response had been delivered, and then with exactly the scripted data; streams receive a prefix of the scripted bodies and never end in io.EOF before their trailer was delivered; Header() returns; calls started afterwards and the window call fail. "
              "Non-trivial = trace length >=2, or window armed, or write side still writable; counters.positions = (scenario, position) executions."
              " The failing transport's error value is drawn from kit.FaultErrKinds (a private error, io.EOF, an error wrapping io.EOF, io.ErrUnexpectedEOF, io.ErrClosedPipe, net.ErrClosed, context.Canceled, os.ErrDeadlineExceeded): goat uses io.EOF as its own clean-end signal, so a transport reporting the peer's close that way must not read as success."
              " late: as C02's late sub-check (responses delivered before the failure, read after it)."
              " A quarter of the streaming calls have a lazy caller, which starts receiving only after the whole response script has been written (so envelopes back up inside the connection, and the read loop may be parked short of the failure point); half of those send a message before their first receive."
              " give-up: the same executor on the family where a lazy caller's failing send (and the teardown it causes) meets the read loop's delivery of that stream's message and trailer, which had been held up behind another lazy stream."
              " storm: 0, 40, 300 or 600 unary calls are already in flight on the connection when the storm begins; all of them must return too."),
        jobs=[dict(test="TestC09", quick=960, thorough=6000), dict(test="TestC09GiveUp", quick=640, thorough=6000), dict(test="TestC09Storm", quick=1600, thorough=40000), dict(test="TestC09Late", quick=1600, thorough=16000), dict(test="FuzzC09", kind="fuzz", quick=0, thorough=90)],
        floors={"TestC09:window=unary": 0.1, "TestC09:window=stream": 0.1, "TestC09:write_fails=false": 0.3, "TestC09:read_error=eof": 0.04, "TestC09:read_error=wrapped-eof": 0.04, "TestC09:stats=true": 0.15, "TestC09:lazy_receiver=true": 0.2},
        assumptions=COMMON_ASSUMPTIONS + ["the check-then-register window is reached through the verif-tagged yield points mux.unary.beforeRegister / mux.stream.beforeRegister"],
    ),
    "C10": dict(
        level="fault_enumeration",
        rule=("rapid-generated scenarios: 0..8 unary and 0..8 streaming handlers driven by a scripted caller, each parked in a gate that ignores its context / on its context / in receive / in send (its transport write held) / echoing / already answered; "
              "the connection ends by a read failure after p delivered request envelopes, by a failure of the j-th response write, or by Server.Stop() after p deliveries (p, j drawn over the whole trace). "
              "Oracle at the quiescent point after the ending: Serve has returned - but not while a context-ignoring streaming handler is still running; every streaming handler has finished; the context of every in-flight handler, unary included, is done; "
              "after the context-ignoring unary handlers have been released and returned, the synctest bubble ends with no goroutine left. Non-trivial = >=1 unary and >=1 stream in flight, or a handler parked in send."
              " Stream kind sdl carries a 30 ms grpc-timeout and 50 ms of virtual time may pass before the ending, so that handlers that returned DeadlineExceeded have their trailers in flight when the connection ends."
              " 0..12 unary requests: with more than eight (goat's unary workers per connection) only Stop is used as the ending."
              " Ending resetfail: the response write that fails is that of a reset (answer to a body for an unknown stream)."
              " Stream kind sbig is opened with a saturating grpc-timeout (99999999H / 2562048H / 99999999M)."
              " Goroutines: besides the census at the end of the case, a census is taken as soon as Serve has returned and all handlers have finished, while the transport (including writes parked inside it) and the context Serve was called with are still untouched: no goroutine may be running library code then."
              " unread: 1..2 streaming handlers (and 0..2 unary ones) wait on their context without receiving while the scripted caller sends 0..3 messages and possibly its half-close to the first stream, so that the read loop is parked handing an envelope to a stream that is not listening; then Stop, or a failing response write: Serve returns, every handler's context is cancelled, every handler has finished, no goroutine of the connection remains."
              " unread: in a third of the cases the Server also serves a second connection with a waiting stream handler; its transport read fails while the first connection's read loop is parked: its Serve call returns and its handler is cancelled."),
        jobs=[dict(test="TestC10", quick=4800, thorough=30000), dict(test="TestC10Unread", quick=960, thorough=10000, shards=4), dict(test="FuzzC10", kind="fuzz", quick=0, thorough=90)],
        floors={"TestC10:ending=readfail": 0.1, "TestC10:ending=writefail": 0.1, "TestC10:ending=stop": 0.12, "TestC10:parked-in-send": 0.1, "TestC10:orphan=true": 0.2, "TestC10Unread:unread.read_loop_parked=true": 0.3},
        assumptions=COMMON_ASSUMPTIONS + ["cancelling the context passed to Serve is not among the endings the property lists and is not generated"],
    ),
    "C12": dict(
        level="exploration",
        rule=("scripted peer against a goat server; alphabet of 27 envelope shapes (valid unary, unary without body / with undecodable -bin metadata / wrong destination / garbage body, unknown service, unknown method, unparsable and empty method, no header, empty envelope, stream open, open with bad metadata / wrong destination / 2-hop route record, body, garbage body, open and body for a stream whose handler reads one message and then lingers without reading until just before the probe, OK and error trailers, reset, reset of unknown type, body+trailer, timeout headers 1n and 99999999H, response-shaped envelope) x stream ids {1,2} = 54 symbols. "
              "(a) bounded-exhaustive: every sequence of length<=2 (2970) plus a seeded 1/40 sample of length 3 in the quick tier; every sequence of length<=3 (160434) plus a 1/20 sample of length 4 in the thorough tier; (b) rapid sequences of length 1..40; each sequence is followed by a valid probe request on a fresh id, the bubble settles after every envelope. "
              "Oracle (invariants, not an exact model): process alive, Serve still running, probe answered exactly; unary handler runs == well-formed unary requests (requests without a body may or may not run it), every run answered exactly once with a well-formed swapped-address response, refusals only for undecodable requests; "
              "stream handler starts <= well-formed opens and >=1 if any; a body for a never-opened id is answered by a reset for that id; resets only with such a trigger; no envelope for an id never received. Non-trivial = sequence mixes malformed and well-formed envelopes or touches an id twice."
              " Configurations rotate / are drawn: server stats handler; unary handlers that call SetHeader, SendHeader twice, SetHeader and SetTrailer."
              " 0..3 well-formed unary requests are sent first to a handler that returns only after the final shutdown (a handler outliving its connection must not crash the process)."
              " For the echo method, in sequences where every envelope is digested before the next, a body arriving after the stream was opened, ended by its caller (OK trailer or reset) and left by its handler must be answered with a reset."
              " The alphabet includes method names '/', '/u', '//' and '/<service>/'."
              " Destinations that nearly match the server's name (other case, a prefix, trailing blank) are in the alphabet as malformed shapes."
              " A fifth of the random sequences start with a whole life of the echo stream (open, 0..2 messages, half-close or reset, 0..2 envelopes on the other id, 1..2 further bodies for the stream that is gone), one envelope at a time, followed by a random tail."),
        jobs=[dict(test="TestC12Enum", kind="enum", quick=1, thorough=1), dict(test="TestC12", quick=3200, thorough=40000), dict(test="FuzzC12", kind="fuzz", quick=0, thorough=150), dict(test="TestC12Reuse", quick=300, thorough=3000, shards=4)],
        floors={"TestC12:body_after_stream_end=true": 0.08},
        assumptions=COMMON_ASSUMPTIONS,
        exhaustive_all=False,
    ),
    "C13": dict(
        level="exploration",
        rule=("scripted peer against a goat client with two outstanding calls A and B (kinds drawn from {unary, client, server, bidi}^2, with/without a stats handler, with/without Header() first, with/without a caller deadline); "
              "alphabet of 20 response shapes (reply, reply with explicit OK status, status, status+body, no header, header with undecodable -bin metadata, header only, body, garbage body, OK/error trailers, trailer with undecodable metadata, reset, reset+status, empty, request-shaped, body+trailer, trailer without status, headerless body, status without trailer) x targets {A, B, unknown id} = 60 symbols. "
              "(a) bounded-exhaustive: every sequence of length<=2 (3660) each under one of 128 rotating configurations plus a 1/30 sample of length 3 (quick); length<=3 (219660) plus a 1/40 sample of length 4 (thorough); (b) rapid sequences of length 1..30. After the sequence the connection is closed. "
              "Oracle: no crash; every API call (Invoke, Header, RecvMsg loop, Trailer) has returned after the close; a unary success carries a body some envelope addressed to that call carried; successful receives are an in-order subsequence of the bodies addressed to the stream; io.EOF only after a trailer with OK/absent status addressed to the stream and no earlier reset. "
              "Non-trivial = at least one envelope addressed to an outstanding call."
              " In half of the random cases the 'id nobody uses' is the id of a third call whose opening write was parked in the transport when its context ended."
              " The alphabet includes resets that carry an explicit OK status (with and without trailer)."
              " twins: 2..6 unary and streaming calls take their ids within nanoseconds of each other (spin barrier at the verif hook points), the scripted peer answers each id it saw once or not at all, then the connection closes: every call has terminated."
              " lazy-then-gone: the peer sends 0..4 messages (and possibly the trailer) to a streaming call whose caller has not received yet; the caller's context ends (cancel or deadline); only then does it receive, several times: every success carries the next of the messages the peer sent."),
        jobs=[dict(test="TestC13Enum", kind="enum", quick=1, thorough=1), dict(test="TestC13", quick=3200, thorough=40000), dict(test="TestC13Twins", quick=640, thorough=8000, shards=4), dict(test="TestC13Lazy", quick=640, thorough=8000, shards=4), dict(test="FuzzC13", kind="fuzz", quick=0, thorough=150)],
        assumptions=COMMON_ASSUMPTIONS,
    ),
    "C05": dict(
        level="exploration",
        rule=("(a) bounded-exhaustive: for the shapes (envelopes per call) {(2,2),(1,3),(2,2,2),(3,2,1),(1,1,1),(3,3)} in the quick tier and all shapes up to (3,3,3) in the thorough tier, every multiset permutation of the calls' envelopes is played, "
              "on the client side (scripted server answering k outstanding calls: unary replies, bodies, trailers with per-call tokens and trailer metadata) and on the server side (scripted caller interleaving the opens, bodies and trailers of k streams and unary requests; handlers echo); "
              "(b) rapid: 2..8 calls with 1..6 envelopes each in a drawn interleaving; (c) id allocation: bursts of 2..64 callers (unary and streams) released from one gate in the same step, 1..4 bursts per connection; (d) one history of 10^4 (quick) / 10^5 (thorough) unary calls on one connection. "
              "Oracle: every call/handler observes exactly its own envelope contents in its own order and nothing else (tokens, request metadata, trailer metadata, echoes per id); the opening ids on the wire are pairwise distinct and as many as calls. "
              "Non-trivial = an interleaving with >=1 switch between calls, or a burst of >=8 concurrent starts; distinct = distinct (side, shape, interleaving)."
              " Payloads are 4-byte tokens or padded to 1100..20000 bytes with a per-call fill. ids: bursts optionally leave the id-allocation point through the spin barrier, and optionally keep all eight unary workers busy for 20 ms of virtual time while the rest of the burst arrives."
              " Bursts are spread over 1..3 connections of one Server object."
              " leftover: 2..6 streams follow one another on one connection, each handler reads only a prefix of what its caller sends and returns; every handler receives a prefix of its own caller's messages and nothing a predecessor left unread."
              " order: one response write of a server stream fails once with a drawn error kind (some look transient), the stream stays open for 100 ms of virtual time: what a caller receives is its own stream's messages in order, none twice, and io.EOF only with all of them."
              " abandon: 2..6 unary calls issued one after the other, all but the last cancelled while their (slow, context-ignoring) handler runs; handlers released in a drawn order; the surviving call gets its own reply, never the late reply of an abandoned one."
              " pace: one bidirectional stream on each of 1..3 connections, both sides sending 0..8 messages back to back while each side receives at its own pace (pauses of 0..60 ms before every receive, so envelopes back up for longer than any timer inside the library); in a bubble (virtual time) and, as a separate job, in real time (pauses capped at 25 ms): each side receives exactly the other side's messages in order, then io.EOF."
              " shared-md: every handler passes the application's one fixed header object (and one fixed trailer object) to SetHeader/SetTrailer and then adds per-call values with a second call; 2..8 calls of all kinds, 1..3 at a time: every caller sees the fixed values once and exactly its own per-call values, and the shared objects are unchanged."
              " On the server side the scripted caller numbers its calls from a drawn base: 100, 0xD7FE, 0xD800, 0x10FFFE, 0x110000, 2^32, 2^63 or 2^64-9 (ids a client reaches late in a long-lived connection's life, or far out in the uint64 range); the enumeration rotates through the same bases."
              " A quarter of the pace cases run through a proxy (one client)."),
        jobs=[dict(test="TestC05Enum", kind="enum", quick=1, thorough=1), dict(test="TestC05", quick=3200, thorough=20000), dict(test="TestC05IDs", quick=1280, thorough=8000), dict(test="TestC05Pace", quick=1200, thorough=12000, shards=4), dict(test="TestC05PaceReal", quick=96, thorough=1600, shards=8), dict(test="TestC05SharedMD", quick=480, thorough=6000, shards=4),
              dict(test="TestC05History", kind="enum", quick=1, thorough=1, shards=1), dict(test="TestC05Reuse", quick=200, thorough=2000, shards=4), dict(test="TestC05Left", quick=1600, thorough=16000), dict(test="TestC05Order", quick=1600, thorough=16000), dict(test="TestC05Abandon", quick=800, thorough=8000)],
        floors={"TestC05:side=client": 0.25, "TestC05:side=server": 0.25, "TestC05:pooled_payloads=true": 0.3, "TestC05IDs:slow_handlers=true": 0.3, "TestC05IDs:spin_barrier=true": 0.4, "TestC05Pace:pace.slow_receiver=true": 0.5, "TestC05Pace:pace.slow_open=true": 0.3, "TestC05:high_ids=true": 0.2},
        assumptions=COMMON_ASSUMPTIONS,
    ),
    "C14": dict(
        level="exploration",
        rule=("rapid-generated histories on one long-lived client+server connection: 1..6 rounds of 1..32 RPCs in flight together, each of a drawn kind (unary/client/server/bidi) and outcome "
              "(ok, handler error, caller cancel, virtual-clock deadline, server reset of a stream whose handler returned while the caller keeps sending, open whose transport write fails), 0..3 messages each; after every round the bubble is settled (quiescent point). "
              "Invariant at every quiescent point: goat.VerifClientCalls(cc)==0, goat.VerifServerStreams()==0 (verif-tagged registry accessors) and the multiset of creation sites of the bubble's live goroutines equals the idle set recorded right after connection start. "
              "Non-trivial = history with >=3 different outcomes and a round of >=8 RPCs; counters.rpcs = RPCs executed."
              " Outcome cancel-send: the cancellation lands while one SendMsg of the call is parked inside the transport write. Fault error values drawn from kit.FaultErrKinds."
              " Outcomes pre-cancelled / pre-expired / nearly-expired: calls started on a context that has ended or is about to."
              " restart: demux topology, 1..4 bidi streams running, the server's end of the client's connection is cancelled and re-created; the streams are answered with resets by the new instance, must end on the client, and nothing stays registered on either side; unary calls afterwards work."
              " The client connection reaches the server directly (half of the cases), through a goat.Proxy and the Demux behind it (rounds of at most two RPCs there, to stay under the proxy's known 16-envelope drop limit), or as a logical connection of a goat.Demux keyed by source."),
        jobs=[dict(test="TestC14", quick=1600, thorough=48000), dict(test="TestC14Restart", quick=480, thorough=4800), dict(test="FuzzC14", kind="fuzz", quick=0, thorough=90)],
        floors={"TestC14:outcome=openfail": 0.2, "TestC14:outcome=cancel": 0.25, "TestC14:outcome=cancel-unread": 0.12, "TestC14:outcome=deadline": 0.25, "TestC14:outcome=reset": 0.2, "TestC14:outcome=cancel-send": 0.1, "TestC14:outcome=pre-expired": 0.1, "TestC14:outcome=nearly-expired": 0.05, "TestC14:via=proxy": 0.15, "TestC14:via=demux": 0.15},
        assumptions=COMMON_ASSUMPTIONS + ["registry sizes are read through the verif-tagged accessors VerifClientCalls / VerifServerStreams"],
    ),
    "C20": dict(
        level="exploration",
        rule=("rapid-generated configurations: server chains of 1..6 interceptors (ChainUnary/StreamInterceptor, or the single-interceptor options for length 1), each with a drawn transformation (append a tag to the request / to the reply, add an incoming-metadata value, map the error, pass through) recording enter/exit; "
              "client chains of 0..3 composed into goat's single slot (request tag, outgoing metadata); 1..3 recording stats handlers per side whose TagRPC plants a unique tag; RPC kind x outcome in {ok, handler error, caller cancel, virtual deadline, transport failure, failed open}; 1..3 RPCs per connection. "
              "Oracle model.Chain: server interceptors and handler each entered and exited exactly once per RPC, nested in registration order; the handler sees the composed request and metadata, the caller the reverse-composed reply or mapped error; "
              "per stats handler and RPC tag: Begin first, exactly one Begin and one End, End.Error==nil iff the RPC succeeded on that side, no event without the tag, TagRPC once per RPC (server side may see none for an RPC that never reached it); exactly one ConnBegin and ConnEnd per connection per handler. "
              "Non-trivial = chain length >=3, or a non-ok outcome, or >=2 stats handlers on a side."
              " Further drawn dimensions: handler errors that are or wrap io.EOF (the caller must see a failure and End.Error must be non-nil), transport failures with the error values of kit.FaultErrKinds, and for unary ok calls a cancellation issued from inside a client stats handler at the reply's InPayload event (the call succeeds, so End.Error must be nil)."
              " One Server serves two unary and two stream methods; each RPC of a case calls one of them (drawn); server interceptors record the FullMethod they are told, which must be the called one."
              " For unary ok/herr RPCs the Serve context may have been cancelled beforehand (goat keeps serving; every interceptor and stats handler must still see every RPC)."
              " Under the transport outcome the RPC that was cut off must fail for the caller whatever error value the transport failed with."
              " send-fault: a client-streaming or bidirectional call whose caller's J-th message (J=0..3) is refused by the transport (9 error values, connection otherwise healthy), after 0..2 earlier RPCs, with 1..3 client and 0..2 server stats handlers: every client handler sees exactly one Begin, first, and exactly one End with a non-nil error; server handlers see complete Begin..End pairs."
              " An interceptor that rewrites the error also attaches a status detail of its own (keeping those already there); the caller must see the details of the whole chain, innermost first."),
        jobs=[dict(test="TestC20", quick=4800, thorough=30000), dict(test="FuzzC20", kind="fuzz", quick=0, thorough=90), dict(test="TestC20Overlap", quick=400, thorough=4000, shards=4), dict(test="TestC20SendFault", quick=800, thorough=8000, shards=4)],
        floors={"TestC20:outcome=cancel": 0.08, "TestC20:outcome=transport": 0.06, "TestC20:outcome=openfail": 0.05, "TestC20:chain=6": 0.08, "TestC20:single=true": 0.03, "TestC20:unread=true": 0.02, "TestC20:late_cancel=true": 0.02, "TestC20:handler_error=eof": 0.02, "TestC20:transport_error=eof": 0.004},
        assumptions=COMMON_ASSUMPTIONS + ["a caller's cancellation of a unary call is not conveyed to the server by goat (no reset for unary calls); the harness releases such handlers itself"],
    ),
    "C16": dict(
        level="exploration",
        rule=("four rapid sub-checks. envelopes: a proxy with 1..8 scripted clients and 1..4 scripted servers (some pre-attached, the rest dialled on demand, plus unknown names whose dial fails), an address-rewriting function from {none, alias->s0, alias->unknown, error for source c1}, "
              "1..40 envelopes with drawn source, destination (attached, dialable, unknown, alias), optional one/two-hop return route and prior route record, settled every 1..12 envelopes so that at most 12 are outstanding per destination. Oracle model.Proxy (independent routing model): "
              "every accepted envelope arrives exactly once at the modelled peer, per (source,destination) order preserved, body/id/metadata unchanged, own name appended to the route record exactly once, return route popped, nothing else delivered, drop counter 0. "
              "rpc: the C01-C04 generators (unary exactness, stream delivery, status fidelity, metadata) through 1..4 clients -> proxy -> Demux keyed by source -> one Serve per client, same oracles as on a direct connection. "
              "burst: 17..60 envelopes (or a server stream of that many messages) to one destination whose writes are parked: loss equal to the verif drop counter is the listed known finding proxy-drop; any other loss, duplicate or reordering is a violation. "
              "attach: for 4..32 undiallable names a peer attaches (AddClient) from one goroutine at the very moment 1..3 envelopes for that name are written from another, with no quiescent point in between; the racing envelopes may be forwarded (in order) or refused, "
              "but an envelope sent by the same or another client after both have completed must reach the attached connection exactly once. "
              "Non-trivial = >=2 sources to one destination, a dial-on-demand peer, a rewrite, >=2 proxy clients, or a burst."
              " In a quarter of the envelope-level cases client c0 attaches again under its name before envelope k (the old connection stays up): nothing may reach the superseded connection afterwards."
              " write-fault: a server-streaming or bidirectional call relayed client -> proxy -> demux -> server, 2..10 messages; one proxy-to-client write fails once with a drawn error kind (some look transient); what the caller receives must be a prefix of what the handler sent, and io.EOF only after all of it."
              " pace: the C05 pace cases (one bidirectional stream on each of 1..3 client connections, both sides sending 0..8 messages back to back, each side receiving at its own pace) relayed through the proxy and the demux behind it, with pauses of up to 3 s of virtual time before a receive: each side receives exactly the other side's messages in order, then io.EOF."
              " envelopes: one envelope in eight is one the proxy must refuse (no header, or a source that is not the sending connection's name); it is delivered nowhere and the routing of everything after it - to and from the peer that sent it - is unchanged."),
        jobs=[dict(test="TestC16", quick=1600, thorough=20000), dict(test="TestC16RPC", quick=960, thorough=12000), dict(test="TestC16Burst", quick=64, thorough=1000, shards=4), dict(test="TestC16Attach", quick=1600, thorough=24000), dict(test="TestC16WriteFault", quick=800, thorough=10000, shards=4), dict(test="TestC16Pace", quick=800, thorough=8000, shards=4), dict(test="FuzzC16", kind="fuzz", quick=0, thorough=90)],
        floors={"TestC16:dial_on_demand=true": 0.3, "TestC16:rewrite=alias": 0.1, "TestC16:late_dialable=true": 0.05, "TestC16Burst:burst.rpc=true": 0.2, "TestC16Attach:attach.sender=other": 0.3, "TestC16:reattach=true": 0.1, "TestC16WriteFault:fault.err=deadline": 0.05, "TestC16:refused_envelopes=true": 0.5},
        assumptions=COMMON_ASSUMPTIONS + ["loss is attributed to buffer overflow through the verif-tagged counter at the proxy's drop site"],
    ),
    "C17": dict(
        level="exploration",
        rule=("rapid-generated scenarios around 1..6 rounds of honest ping-pong between two scripted peers c0 and c1 attached to a proxy: spoof (an envelope from c0 claiming another attached name / an empty or unattached name / carrying no header), "
              "bad peer (a destination whose writes never complete with 20 envelopes queued for it, a failing reader, a failing writer, a dial error, a dial still in progress), re-attachment of c1 under its name before or after the old connection fails on read or write, and cancellation of the proxy's context after 0..8 steps. "
              "Oracle: no crash; spoofed/headerless envelopes reach nobody; every honest envelope arrives exactly once at the next quiescent point whatever the bad peer does; a failed connection is reported to the disconnect callback and an envelope to its name then triggers a fresh dial; "
              "after re-attachment traffic reaches the new connection; after cancellation nothing is forwarded, Serve returns and the synctest bubble ends with no goroutine left. Non-trivial = every case (all involve a fault, a spoof or a cancellation)."
              " The bad peer's transport optionally ignores the context passed to Read (as a net.Conn without deadlines does); fault error values are drawn from kit.FaultErrKinds; mode attach-race: a peer attaches at the very moment the first envelope for its undiallable name arrives."
              " Spoofed envelopes optionally carry sender-chosen route fields (a route record ending in the sender's own name, the victim's name, the proxy's name; a return route)."
              " The bad peer's connection is either attached by the peer or dialled on demand by the proxy."
              " odd-route: between honest rounds c0 sends one envelope with its true source but unusual routing fields - destination = the proxy's own name / empty / c0 itself / a 70 KB name / c1, return route absent / an empty non-nil list / [\"\"] / [proxy's name] / [c0] / [c1]; the proxy must survive, deliver it exactly where the route leads (or nowhere), and keep serving."
              " reattach with in_callback: the owner brings the failed peer back by calling AddClient from inside the disconnect callback."
              " badpeer role many-slow-dials: envelopes for twenty different destinations whose dials are all still in progress; honest traffic between the attached peers is not delayed."),
        jobs=[dict(test="TestC17", quick=3200, thorough=30000), dict(test="FuzzC17", kind="fuzz", quick=0, thorough=90)],
        floors={"TestC17:mode=cancel": 0.1, "TestC17:mode=reattach/old_first=false/read": 0.02, "TestC17:mode=spoof/other-source": 0.025, "TestC17:mode=badpeer/slow-failing-dial": 0.012, "TestC17:badpeer.deaf_read=true": 0.05, "TestC17:mode=attach-race": 0.1, "TestC17:spoof.route_fields=true": 0.05, "TestC17:badpeer.dialled=true": 0.05, "TestC17:mode=odd-route": 0.1, "TestC17:odd.next=empty-list": 0.01},
        assumptions=COMMON_ASSUMPTIONS,
    ),
    "C18": dict(
        level="exploration",
        rule=("model-based rapid check: 1..8 keys, histories of 1..40 operations from {feed an envelope for key k on the shared transport, pause / resume the reader of k's logical connection (a paused reader leaves the run loop parked on the hand-off), "
              "write an envelope on k's logical connection, Cancel(k), Stop()}, the bubble settled after every operation; reference model model.Demux simulates the run loop (FIFO of fed envelopes, lookup/creation of the key's current life, hand-off blocked by a paused reader, drop of the parked envelope on Cancel, new life on next use). "
              "Oracle: every logical connection received exactly the envelopes the model hands to that life, in order; announcements == key lives; envelopes written on logical connections appear unchanged and in order on the shared transport; writes on a cancelled connection fail without blocking; readers of cancelled connections have returned with an error; Run has returned after Stop; no panic. "
              "rpc: the C01/C02 generators from 2..4 logical clients through one shared transport into one Server via Demux keyed by source, same oracles. Non-trivial = >=2 keys, a Cancel or a Stop."
              " storm: a feeder goroutine writes 1..4 envelopes for each of 2..24 keys without pausing while a second goroutine cancels a drawn subset of the keys; never-cancelled keys are announced once and receive everything in order, cancelled keys never see duplicates, reordering or foreign envelopes. writefault: one write on the shared transport fails (drawn error value); later arrivals for the key are still delivered, other keys are undisturbed, Cancel still works."
              " Envelopes in the model-based histories carry status / trailer / reset / header metadata as a function of their id and are compared with proto.Equal in both directions."
              " Key 0 optionally has an unusual value (empty string, blank, separators, non-ASCII)."
              " parked: once the stalled shared-transport write has completed, every write the logical connection had accepted (returned nil) before the key was cancelled is on the shared transport exactly once, and none of the refused ones is."
              " pace: the same through a Demux keyed by source (harness fan-in instead of a proxy)."
              " dead-ctx-read: 1..12 envelopes for one key are fed while nobody reads; 1..12 Reads are then given a context that has already ended (each may return an envelope or the context's error), mixed with or followed by live reads: all envelopes are handed over exactly once, in order."),
        jobs=[dict(test="TestC18", quick=6400, thorough=80000), dict(test="TestC18RPC", quick=320, thorough=8000), dict(test="TestC18Parked", quick=300, thorough=3000, shards=4), dict(test="TestC18Storm", quick=1600, thorough=16000), dict(test="TestC18WriteFault", quick=640, thorough=6400), dict(test="TestC18Pace", quick=800, thorough=8000, shards=4), dict(test="TestC18DeadRead", quick=800, thorough=8000, shards=4), dict(test="FuzzC18", kind="fuzz", quick=0, thorough=90)],
        floors={"TestC18:cancel=true": 0.3, "TestC18:stop=true": 0.03, "TestC18:cancel_while_parked=true": 0.03, "TestC18Storm:storm.cancels=true": 0.5, "TestC18Storm:storm.write_faults=true": 0.1},
        assumptions=COMMON_ASSUMPTIONS,
    ),
    "C19": dict(
        level="exploration",
        rule=("four rapid sub-checks and a fuzz target. roundtrip: sequences of 1..50 arbitrary envelope values (every presence combination of header/status/body/trailer/reset, ids over the uint64 range incl. 0 and MaxUint64, bodies up to 64KiB quick / 1MiB thorough, valid-UTF-8 strings incl. non-ASCII and 300-char, repeated metadata/details/route entries) "
              "written on one end and read on the other of: the channel transport (synctest bubble), a real loopback WebSocket pair (read limit raised by the harness, as the library leaves it to the caller), two GoatOverHttp endpoints over loopback HTTP; oracle proto.Equal in write order. "
              "raw: WebSocket text frames, random bytes and mutated/truncated valid encodings as binary frames or HTTP bodies, HTTP requests without body / header / source; oracle: delivered iff the reference proto.Unmarshal accepts (and, for HTTP, header and source are present) and then equal, otherwise an error / HTTP 400 and nothing delivered. "
              "ctx: a parked Read or Write on each transport returns with an error once its context is cancelled or its deadline passes (virtual clock for channel and HTTP read; real time with 3s grace for sockets). "
              "idle: ServeHTTP driven directly with a recorder and a fake clockwork clock: 0..3 deliveries parked without a reader or a reader parked, the cleaner tick placed so that the connection's age is timeout-2s..timeout+2s, 1..3 ticks; oracle: no panic in ServeHTTP, readers of an expired connection fail. "
              "Non-trivial = >=2 envelopes or a body >32KiB (roundtrip); every raw/ctx/idle case."
              " concurrent-writers: 2..8 goroutines write 1..3 envelopes each on one connection of each transport at the same time (goat's own callers do); every envelope is read exactly once, unchanged, and each writer's envelopes stay in that writer's order."
              " concurrent-writers over HTTP also counts the logical connections announced for the single source: more than one is a violation."
              " object-reuse: one *Rpc object is changed in place (body, method, header metadata, status message lengths around the varint boundaries) between 2..8 writes over WebSocket and HTTP; each write must carry what the object held at that moment."
              " ctx: for HTTP reads 0..2 other readers are already parked on the same logical connection."
              " ctx (http write): after the blocked Write has failed, 0..2 further Writes on the same connection object with a context that is already done must fail too, without a panic."
              " idle: 0..2 deliveries that parked for lack of a reader and were then given up by their sender (the POST's context ended) precede the idle period."
              " first: 2..8 POSTs carrying the first envelopes of one source enter ServeHTTP at the same instant (spin barrier, no sockets), on a fresh endpoint, 8..24 rounds per case: the source is announced as one logical connection and all envelopes are readable from it."
              " slow-reader (real time): 2..5 envelopes over a loopback WebSocket or HTTP connection while the reader pauses 7 s (thorough: up to 21 s) before its second Read; everything written without error is read, in order."),
        jobs=[dict(test="TestC19RoundTrip", quick=480, thorough=8000), dict(test="TestC19Raw", quick=800, thorough=20000), dict(test="TestC19Ctx", quick=48, thorough=400, shards=8), dict(test="TestC19First", quick=96, thorough=1600, shards=8), dict(test="TestC19SlowReader", quick=4, thorough=24, shards=4),
              dict(test="TestC19Idle", quick=400, thorough=6000, shards=8), dict(test="TestC19Conc", quick=320, thorough=4000), dict(test="TestC19Reuse", quick=480, thorough=6000), dict(test="FuzzC19Decode", kind="fuzz", quick=0, thorough=120)],
        floors={"TestC19Conc:conc.crowd=true": 0.04, "TestC19RoundTrip:rt.websocket": 0.25, "TestC19RoundTrip:rt.http": 0.2, "TestC19RoundTrip:rt.channel": 0.1, "TestC19Conc:conc.http": 0.25, "TestC19Idle:idle.fresh=true": 0.15, "TestC09Late:late.some_complete=true": 0.4},
        assumptions=COMMON_ASSUMPTIONS + ["WebSocket and HTTP sub-checks use real loopback sockets and wall-clock budgets; exceeding a budget is reported as inconclusive (exit 2), never as a violation"],
        timeout_quick=600,
    ),
    "C15": dict(
        level="exploration",
        rule=("the harness is compiled with -race and the generated workloads of the other properties (C01 unary bursts, C02 streams with separate sender and receiver goroutines and Header() concurrent with sends, C03, C04, C07 cancellations, C09 transport failures, C10 connection endings incl. Stop concurrent with traffic, "
              "C11 abandonments, C16 proxy envelopes and RPCs, C17, C18 demux model and RPCs, C20 interceptors/stats) are executed at GOMAXPROCS 1, 2, 4 and 16 (go test -cpu) with a callback at every verif hook point that yields the processor according to a drawn tape. "
              "The only oracle is the race detector (GORACE=halt_on_error=1): a report with at least one goat frame is a violation, a report without one is a harness bug (exit 2). Non-trivial = a workload with >=2 user goroutines on one connection; distinct = (family, case)."
              " Family sendstorm: 1..8 streams and 0..4 unary loops keep sending while the write side and the read side of the connection fail in the same instant."
              " Family proxy-overflow-storm: one source floods a destination whose parked writes are released by a concurrent goroutine - no settle point in between, because synctest.Wait orders the phases it separates for the race detector."
              " Families c01net (concurrent calls on a ClientConn over real loopback WebSocket / HTTP) and c19conc (concurrent writers on one transport connection) run under the race detector too."
              " Family duplex: handlers and callers that receive in one goroutine and send in another, 1..4 streams, ended mid-traffic by cancel, deadline, Stop or a read failure."),
        jobs=[dict(test="TestC15", race=True, cpu="1,2,4,16", quick=960, thorough=24000)],
        floors={"TestC15:family=c02": 0.05, "TestC15:family=c10": 0.02, "TestC15:family=c18": 0.02, "TestC15:gomaxprocs=16": 0.15, "TestC15:gomaxprocs=1": 0.15, "TestC15:family=c18storm": 0.02},
        assumptions=COMMON_ASSUMPTIONS + ["the race detector only sees the interleavings that were executed: this is search, not proof"],
        timeout_quick=900,
    ),
}
