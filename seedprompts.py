#!/usr/bin/env python3
"""Development aid: creates the scratch worktrees and the prompt files for one round of independently seeded changes.

  ./seedprompts.py <round-number> <flavour-shift>     -> /tmp/seed<round>/Cnn (worktree) and /tmp/seed<round>/Cnn.prompt.txt

Each sub-agent is started with "Read /tmp/seed<round>/Cnn.prompt.txt and carry out the task it describes" and sees only the
property's text, the one-line descriptions of the earlier rounds' changes for that property, and its own worktree."""
import glob, json, os, subprocess, sys

rnd, shift = int(sys.argv[1]), int(sys.argv[2])
root = "/tmp/seed%d" % rnd
os.makedirs(root, exist_ok=True)
props = {json.loads(l)["id"]: json.loads(l) for l in open("/verif/properties.jsonl")}
prev = {}
for p in sorted(glob.glob("/verif/seeded/C*/meta.json")):
    m = json.load(open(p))
    prev.setdefault(m["property"], []).append(m.get("needs", "").split(":")[0][:110])
FLAV = [
    "The change should involve TWO code sites that each look harmless on their own and only break the property together.",
    "The change should only manifest when a transport fault (a Read or Write error of a particular kind, or a context ending) happens at one particular point of a multi-step exchange.",
    "The change should only manifest for an unusual but legal input value or size (a boundary, an empty or very large value, a rarely used field or option, non-ASCII or binary content, a key or name with unusual characters), not for the values the existing tests use.",
    "The change should only manifest under a particular interleaving of two goroutines that the gRPC API allows to run concurrently.",
    "The change should only manifest for a particular legal configuration or usage pattern that the existing tests do not use: a particular combination of server and client options, several services or many methods registered on one Server, one Server object serving several connections at once, several ClientConns in one process, a long-lived connection after many calls, a particular RPC kind.",
    "The change should be a plausible 'cleanup', 'optimisation' or 'robustness improvement' (buffer reuse, caching, early return, de-duplication, lock narrowing, error wrapping, logging) whose commit message would sound entirely reasonable.",
    "The change should only manifest after something else has happened earlier on the same connection or object (state left behind by an earlier call, an earlier failure, an earlier cancellation, a counter that has grown, an object that is reused).",
    "The change should only manifest for an unusual but legal ORDER of API calls by the application, on the client or in a handler.",
    "The change should only manifest at or after the end of something's life: shutdown, teardown, Stop called twice, Serve called for a new connection after an earlier one ended or after Stop, ClientConn closed, Cancel after Stop, a peer that reconnects, a handler still running when its connection has gone.",
    "The change should only manifest for a particular combination of TWO features that are each tested separately by the existing suite but never together.",
    "The change should only manifest in how errors are REPORTED rather than whether they occur - but in a way that the property's statement explicitly covers (a status code, message or detail, Canceled versus DeadlineExceeded, an error where the statement demands one).",
    "The change should only manifest at scale: many calls, many streams, many peers or keys, many messages, large totals, long sequences - something that counts, fills up, wraps around or gets slow only after a threshold that small tests never reach (keep the threshold within the property's stated scope).",
    "The change should only manifest in one topology or transport: through a Proxy, behind a Demux, over the WebSocket, HTTP or channel transport, on a by-reference versus a serialising link - while the plain direct path stays correct.",
    "The change should only manifest when something is SLOW rather than broken: a transport Write or Read that takes seconds, a receiver or handler that pauses between operations, a peer that answers late, time passing between two steps - anything that takes longer than the code tacitly assumes (timeouts, timers, retries, 'this never blocks').",
    "The change should only manifest when the SAME thing happens twice: the same call repeated, the same envelope or id seen again, an operation retried after it failed, a second failure after a first, Close/Cancel/Stop or a callback invoked a second time, a peer or key that comes back.",
    "The change should only manifest through the interaction of TWO parties that share something: two connections of one Server, two clients of one Proxy, two keys of one Demux, two streams of one connection, a caller's sender and receiver goroutines - where what one of them does changes what the other observes.",
]
for n, (i, p) in enumerate(props.items()):
    wt = "%s/%s" % (root, i)
    if not os.path.exists(wt):
        subprocess.run(["git", "-C", "/repo", "worktree", "add", "-q", "--detach", wt, "HEAD"], check=True)
    earlier = "; ".join("(%d) %s" % (k + 1, x) for k, x in enumerate(prev.get(i, [])))
    open("%s/%s.prompt.txt" % (root, i), "w").write(f"""You are helping to evaluate a verification suite for the Go library avos-io/goat (gRPC over any reliable transport). You have your own scratch git worktree of the library at {wt} (a detached checkout; work ONLY inside that directory; do not read or touch /repo, /verif or any other {root}/* directory). The sandbox has no network; the default `go` toolchain (1.23) works offline: `cd {wt} && go build ./... && go test -vet=off -count=1 ./...` passes now (one existing test, TestClientResetStream, is known to be flaky about 3% of the time on the untouched tree; a few tests in internal/client also flake rarely; ignore those). Other jobs are running on this machine, so builds and tests may be slower than usual.

Here is a semantic property the library is supposed to satisfy:

PROPERTY {i}: {p['title']}
{p['statement']}
Scope (what it quantifies over): {p['quantifier']['text']}

Your task: make a small, realistic change to the library's non-test Go source (the kind of regression a maintainer could plausibly introduce) such that
  1. the library still compiles (`go build ./...`, and also `go build -tags verif ./...`),
  2. the existing test suite still passes (`go test -vet=off -count=1 ./...`, run it 3 times), and
  3. the property above is violated - literally, as stated, and within the scope given above - but only under something specific. It must NOT be something that ordinary single-call use would expose at once.
{FLAV[(n + shift) % len(FLAV)]}
Earlier rounds already produced the following changes for this property, so find a DIFFERENT one (different code site and different triggering condition): {earlier}.
If the property allows, prefer a site in a file or function those rounds did not touch.
Do not edit any *_test.go file that already exists, and do not touch the files internal/verifhook/*, verif_export.go, verif_off.go, internal/client/verif_access.go.

Then write a demonstration: a NEW Go test file (e.g. {wt}/seeded_demo_test.go, package goat or goat_test, or package client/server under internal/) containing one test whose name starts with TestSeeded and that FAILS with your change and PASSES without it. You may use the helpers in internal/testutil and the generated testproto service like the existing tests do. Verify both directions yourself: run the demo test with your change (must fail), then remove just the library change (keep the demo file), run it again (must pass), then re-apply it. Do NOT use `git stash` (it is shared by all worktrees of this repository and other agents are working in sibling worktrees): use `git diff > .mine.patch && git apply -R .mine.patch` to remove the change and `git apply .mine.patch` to restore it. If the violation is schedule-dependent, make the demo deterministic enough to fail at least 9 times out of 10. If the demo needs the race detector, say so clearly in SEEDED.md and do not hide the test behind a build tag.

When you are done, leave the worktree with your library change applied (uncommitted) and the demo test file present, and write {wt}/SEEDED.md containing: (a) a unified diff of the library change, (b) one paragraph on what the change breaks and what exactly is needed for it to manifest, (c) the exact commands you ran and their outcomes. Keep the change small (ideally under 15 changed lines). Your final message should be a short summary (under 150 words) of the change and where the files are.""")
print("prompts in", root)
