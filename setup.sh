#!/bin/sh
# MANIFEST.setup_cmd: build the harness test binaries (plain and -race) offline so that later checks hit a warm build cache.
cd "$(dirname "$0")" || exit 1
export GOFLAGS=-mod=mod GOPROXY=off GOSUMDB=off GOTOOLCHAIN=local
exec ./check --build
