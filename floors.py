#!/usr/bin/env python3
"""development aid: show how far each label floor is from being missed (needs a fresh ./runall.sh; reads .work stats)"""
import json, glob, os, checkcfg
for pid, c in sorted(checkcfg.CHECKS.items()):
    per = {}
    for sp in glob.glob(".work/%s/*/stats.json" % pid):
        test = os.path.basename(os.path.dirname(sp)).rsplit(".", 1)[0]
        st = json.load(open(sp))
        d = per.setdefault(test, dict(n=0, labels={}))
        d["n"] += st.get("evaluations", 0)
        for k, v in (st.get("labels") or {}).items():
            d["labels"][k] = d["labels"].get(k, 0) + v
    for key, fr in (c.get("floors") or {}).items():
        test, lab = key.split(":", 1)
        d = per.get(test)
        if not d or not d["n"]:
            print("%s %-55s (job did not run)" % (pid, key)); continue
        got = d["labels"].get(lab, 0) / d["n"]
        print("%s %-55s floor %.3f got %.3f%s" % (pid, key, fr, got, "  <-- TIGHT" if got < 1.6 * fr else ""))
