#!/usr/bin/env python3
"""development aid: show how far each label floor is from being missed in the current evidence files"""
import json, checkcfg
for pid, c in sorted(checkcfg.CHECKS.items()):
    try:
        ev = json.load(open("evidence/%s.json" % pid))
    except Exception:
        continue
    cov = ev["coverage"]
    n = max(1, cov["evaluations"] - sum(v for k, v in cov.get("counters", {}).items() if k.startswith("fuzz_execs.")))
    for lab, fr in (c.get("floors") or {}).items():
        got = cov["labels"].get(lab, 0) / n
        flag = "  <-- TIGHT" if got < 1.6 * fr else ""
        print("%s %-45s floor %.3f got %.3f%s" % (pid, lab, fr, got, flag))
