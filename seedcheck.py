#!/usr/bin/env python3
"""Confirms an independently written property-breaking change (from /tmp/seed/<ID>, produced by a sub-agent that saw
only the property text) and measures whether the checks catch it.

  ./seedcheck.py collect <ID> [--name N]   copy patch + demo from /tmp/seed/<ID> into /verif/seeded/<N>/, confirm there
                                           (suite passes with the change; demo fails with it and passes without it)
  ./seedcheck.py run <N> [PROP ...]        apply seeded/<N>/patch.diff to /repo, run the quick checks of the property
                                           (and any others named), ALWAYS restore /repo, record results in meta.json
  ./seedcheck.py demo <N>                  does the seed's own demonstration still fail with its change applied to
                                           /repo's current HEAD? (later "fix:" commits can neutralise a seeded change)
"""
import glob, json, os, shutil, subprocess, sys, time

ROOT = os.path.dirname(os.path.abspath(__file__))
REPO = "/repo"


def sh(cmd, cwd=None, timeout=1800):
    p = subprocess.run(cmd, shell=True, cwd=cwd, stdout=subprocess.PIPE, stderr=subprocess.STDOUT, text=True, timeout=timeout)
    return p.returncode, p.stdout


def collect(pid, name, src="/tmp/seed"):
    wt = "%s/%s" % (src, pid)
    d = os.path.join(ROOT, "seeded", name)
    os.makedirs(d, exist_ok=True)
    rc, diff = sh("git diff -- . ':!*seeded*' ':!.mine.patch'", cwd=wt)
    if not diff.strip():
        print("no library change in", wt)
        return 1
    open(os.path.join(d, "patch.diff"), "w").write(diff)
    rc, untracked = sh("git ls-files --others --exclude-standard", cwd=wt)
    demos = [f for f in untracked.split() if f.endswith("_test.go")]
    extra = [f for f in untracked.split() if f.endswith(".go") and not f.endswith("_test.go")]
    if extra:
        print("NOTE: the change adds new non-test files (not in git diff):", extra)
    for f in demos:
        dst = os.path.join(d, "demo", f)
        os.makedirs(os.path.dirname(dst), exist_ok=True)
        shutil.copy2(os.path.join(wt, f), dst)
    if os.path.exists(os.path.join(wt, "SEEDED.md")):
        shutil.copy2(os.path.join(wt, "SEEDED.md"), os.path.join(d, "SEEDED.md"))
    # ---- confirm in the scratch worktree ----
    conf = {}
    demo_pkgs = sorted({"./" + os.path.dirname(f) if os.path.dirname(f) else "." for f in demos})
    race = "-race " if pid == "C15" else ""  # data-race demonstrations only fail under the race detector
    run_demo = "go test %s-vet=off -count=1 -run 'Seed|seed|SEED' %s 2>&1 | grep -E '^(--- FAIL|FAIL|ok|panic)' | head -5" % (race, " ".join(demo_pkgs))
    rc, o = sh("go build ./... && go build -tags verif ./...", cwd=wt)
    conf["builds_with_change"] = rc == 0
    rc, o = sh("go test -vet=off -count=1 -skip 'Seed|seed|SEED' ./... 2>&1 | grep -E '^(--- FAIL|FAIL|ok)'", cwd=wt)
    fails = [l for l in o.splitlines() if l.startswith("--- FAIL") and "TestClientResetStream" not in l]
    conf["suite_with_change"] = "pass" if not fails else "FAILS: " + "; ".join(fails)
    rc, o = sh(run_demo, cwd=wt)
    conf["demo_with_change"] = "fails" if ("FAIL" in o or "panic" in o) else "PASSES (unexpected): " + o[-200:]
    sh("git diff -- . ':!*seeded*' > .confirm.patch && git apply -R .confirm.patch", cwd=wt)
    rc, o = sh(run_demo, cwd=wt)
    conf["demo_without_change"] = "passes" if ("FAIL" not in o and "panic" not in o and "ok" in o) else "FAILS (unexpected): " + o[-300:]
    sh("git apply .confirm.patch && rm -f .confirm.patch", cwd=wt)
    meta = dict(property=pid, name=name, source="sub-agent given only the property text and a scratch worktree", files_changed=[l[6:] for l in diff.splitlines() if l.startswith("+++ b/")],
                demo_files=demos, confirmation=conf, confirmed=all([conf["builds_with_change"], conf["suite_with_change"] == "pass", conf["demo_with_change"] == "fails", conf["demo_without_change"] == "passes"]))
    mp = os.path.join(d, "meta.json")
    if os.path.exists(mp):
        old = json.load(open(mp))
        for k in ("needs", "checks", "notes"):
            if k in old:
                meta[k] = old[k]
    json.dump(meta, open(mp, "w"), indent=1)
    print(json.dumps(meta, indent=1))
    return 0


def run(name, props):
    d = os.path.join(ROOT, "seeded", name)
    meta = json.load(open(os.path.join(d, "meta.json")))
    if not props:
        props = [meta["property"]]
    wt = "/tmp/verif-seed-%d" % os.getpid()
    sh("git -C %s worktree remove --force %s" % (REPO, wt))
    sh("git -C %s worktree add -q --detach %s HEAD" % (REPO, wt))
    results = meta.get("checks", {})
    try:
        rc, o = sh("git apply %s" % os.path.join(d, "patch.diff"), cwd=wt)
        if rc != 0:
            print("patch does not apply to /repo HEAD:", o)
            return 2
        for p in props:
            t0 = time.time()
            rc, o = sh("VERIF_NO_EVIDENCE=1 VERIF_REPO=%s ./check %s --tier quick" % (wt, p), cwd=ROOT)
            lines = [l.strip()[:300] for l in o.splitlines() if "rapid] failed" in l or "VERIF-FAIL" in l or l.startswith("panic:") or "WEDGE-DEFINITIVE" in l or "INCONCLUSIVE" in l or "DATA RACE" in l][:3]
            results[p] = dict(exit=rc, outcome="DETECTED" if rc == 1 else ("missed" if rc == 0 else "inconclusive"), secs=round(time.time() - t0, 1), evidence=lines)
            print(p, results[p])
    finally:
        sh("git -C %s worktree remove --force %s" % (REPO, wt))
    meta["checks"] = results
    json.dump(meta, open(os.path.join(d, "meta.json"), "w"), indent=1)
    return 0


def demo(name):
    """Does the seed's own demonstration still fail with its change applied to /repo's current HEAD?"""
    d = os.path.join(ROOT, "seeded", name)
    meta = json.load(open(os.path.join(d, "meta.json")))
    wt = "/tmp/verif-seeddemo-%d" % os.getpid()
    sh("git -C %s worktree remove --force %s" % (REPO, wt))
    sh("git -C %s worktree add -q --detach %s HEAD" % (REPO, wt))
    try:
        rc, o = sh("git apply %s" % os.path.join(d, "patch.diff"), cwd=wt)
        if rc != 0:
            print(name, "patch does not apply")
            return 2
        demos = meta.get("demo_files", [])
        for f in demos:
            dst = os.path.join(wt, f)
            os.makedirs(os.path.dirname(dst), exist_ok=True)
            shutil.copy2(os.path.join(d, "demo", f), dst)
        pkgs = sorted({"./" + os.path.dirname(f) if os.path.dirname(f) else "." for f in demos})
        race = "-race " if meta["property"] == "C15" else ""
        res = []
        for k in range(3):
            rc, o = sh("go test %s-vet=off -count=1 -run 'Seed|seed|SEED' %s 2>&1 | grep -E '^(--- FAIL|FAIL|ok|panic)' | head -5" % (race, " ".join(pkgs)), cwd=wt)
            res.append("fails" if ("FAIL" in o or "panic" in o) else "passes")
        out = "fails" if "fails" in res else "passes"
        meta["demo_at_head"] = dict(head=sh("git -C %s rev-parse --short HEAD" % REPO)[1].strip(), result=out, runs=res)
        json.dump(meta, open(os.path.join(d, "meta.json"), "w"), indent=1)
        print(name, "demo with the change at HEAD:", out, res)
    finally:
        sh("git -C %s worktree remove --force %s" % (REPO, wt))
    return 0


if __name__ == "__main__":
    a = sys.argv[1:]
    if a[0] == "collect":
        name = a[1]
        if "--name" in a:
            name = a[a.index("--name") + 1]
        src = "/tmp/seed"
        if "--src" in a:
            src = a[a.index("--src") + 1]
        sys.exit(collect(a[1], name, src))
    if a[0] == "run":
        sys.exit(run(a[1], a[2:]))
    if a[0] == "demo":
        sys.exit(demo(a[1]))
